(* C13: assignments.  An assignment of an array that is no legal content raises (whatever the container
   holds at that moment -- fresh, emptied or filled), and a completed assignment leaves exactly the assigned
   array in the container (photons: negatives clipped); the assignment of an empty container through the
   detector leaves the bucket empty.  Parametrised by the source tables; only `tables_ok tb = true` is used. *)
From Coq Require Import ZArith List Bool Arith Lia.
From PyxelV Require Import Model.Containers Proofs.Containers.
Import ListNotations.

Lemma arr_ok_form k r c a : arr_ok k r c a = true -> arr_form_ok k r c a = true.
Proof. unfold arr_ok, arr_form_ok. intro H. apply andb_prop in H. destruct H as [H _]. exact H. Qed.

Lemma form_ok_clip k r c a : arr_form_ok k r c (clip_arr a) = arr_form_ok k r c a.
Proof. reflexivity. Qed.

Section WithTables.
Variable tb : tables.
Hypothesis Htb : tables_ok tb = true.

Lemma validate_base_form c a :
  is_photon (c_kind c) = false -> arr_form_ok (c_kind c) (c_rows c) (c_cols c) a = false ->
  exists e, validate_base tb c a = Some e.
Proof.
  intros Hk Hf. destruct (validate_base tb c a) as [e|] eqn:E; [eexists; reflexivity|].
  apply (arr_ok_base_of_validate tb Htb c a Hk) in E. apply arr_ok_form in E. congruence.
Qed.

Lemma check2d_form c a :
  c_kind c = Photon -> arr_form_ok (c_kind c) (c_rows c) (c_cols c) a = false ->
  exists e, photon_check2d tb c a = Some e.
Proof.
  intros Hk Hf. destruct (photon_check2d tb c a) as [e|] eqn:E; [eexists; reflexivity|].
  apply (check2d_none_ok tb Htb) in E. apply arr_ok_form in E. rewrite form_ok_clip, <- Hk in E. congruence.
Qed.

Lemma check3d_form c a :
  c_kind c = Photon -> arr_form_ok (c_kind c) (c_rows c) (c_cols c) a = false ->
  exists e, photon_check3d tb c a = Some e.
Proof.
  intros Hk Hf. destruct (photon_check3d tb c a) as [e|] eqn:E; [eexists; reflexivity|].
  apply (check3d_none_ok tb Htb) in E. apply arr_ok_form in E. rewrite form_ok_clip, <- Hk in E. congruence.
Qed.

Lemma base_set_form c a :
  is_photon (c_kind c) = false -> arr_form_ok (c_kind c) (c_rows c) (c_cols c) a = false ->
  exists e, base_set tb c a = (c, Raise e).
Proof.
  intros Hk Hf. destruct (validate_base_form c a Hk Hf) as [e E]. unfold base_set. rewrite E. eexists; reflexivity.
Qed.

Lemma photon_set2d_form c a :
  c_kind c = Photon -> arr_form_ok (c_kind c) (c_rows c) (c_cols c) a = false ->
  exists e, photon_set2d tb c a = (c, Raise e).
Proof.
  intros Hk Hf. destruct (check2d_form c a Hk Hf) as [e E]. rewrite (photon_set2d_eq tb Htb), E. eexists; reflexivity.
Qed.

Lemma photon_set3d_form c a :
  c_kind c = Photon -> arr_form_ok (c_kind c) (c_rows c) (c_cols c) a = false ->
  exists e, photon_set3d tb c a = (c, Raise e).
Proof.
  intros Hk Hf. destruct (check3d_form c a Hk Hf) as [e E]. rewrite (photon_set3d_eq tb Htb), E. eexists; reflexivity.
Qed.

(* `.array` of a container that holds `a`: the array, or an exception *)
Lemma read2d_some o a : c_content o = Some a -> read2d tb o = RetArr a \/ exists e, read2d tb o = Raise e.
Proof.
  intro Ho. unfold read2d, ret_content. rewrite Ho.
  destruct (if is_photon (c_kind o) then _ else _); [right; eexists; reflexivity | left; reflexivity].
Qed.

Lemma setter_dispatch_photon k : det_setter tb k = SetterDispatch -> is_photon k = true.
Proof.
  destruct (tb_parts tb Htb) as [_ [_ [_ [H _]]]]. unfold no_raw_setter in H. rewrite forallb_forall in H.
  intro E. assert (Hin : In k [Photon; Pixel; Signal; Image; Phase]) by (destruct k; simpl; auto 10).
  specialize (H k Hin). rewrite E in H. exact H.
Qed.

(* an assignment of an array that is no legal content raises and changes nothing -- in EVERY state of the
   container (no hypothesis on what it holds) *)
Theorem illegal_assign_raises c o a :
  assignment_of (c_kind c) o (c_content c) = Some (AsgArr a) ->
  arr_form_ok (c_kind c) (c_rows c) (c_cols c) a = false ->
  exists e, step tb c o = (c, Raise e).
Proof.
  intros Ha Hf. destruct (iadd_kinds tb Htb) as [Ki Ka].
  destruct (is_photon (c_kind c)) eqn:Hk.
  - assert (Hp := is_photon_kind c Hk).
    destruct o as [x|x|ox|x|x| | | |o'|o'|o'|reset|]; cbn [assignment_of] in Ha; rewrite ?Hk in Ha; try discriminate.
    + injection Ha as ->. cbn [step]. rewrite Hk. apply photon_set2d_form; assumption.
    + injection Ha as ->. cbn [step]. rewrite Hk. apply photon_set3d_form; assumption.
    + destruct ox; discriminate.
    + destruct (c_content c) eqn:Ec; [discriminate|]. injection Ha as ->.
      cbn [step]. rewrite Hk, Ki. unfold photon_iadd. rewrite Ec.
      destruct (is_xr a); [apply photon_set3d_form | apply photon_set2d_form]; assumption.
    + destruct (c_content c) eqn:Ec; [discriminate|]. injection Ha as ->.
      cbn [step]. rewrite Hk, Ka. unfold photon_iadd. rewrite Ec.
      destruct (is_xr a); [apply photon_set3d_form | apply photon_set2d_form]; assumption.
    + destruct (c_content o') as [y|] eqn:Eo; [|discriminate]. injection Ha as ->.
      cbn [step]. unfold det_assign. destruct (det_setter tb (c_kind c)) eqn:Es.
      * destruct (read2d_some o' a Eo) as [-> | [e ->]]; [|eexists; reflexivity].
        rewrite Hk. apply photon_set2d_form; assumption.
      * exfalso. eapply (setter_not_raw tb Htb); eauto.
      * rewrite Hk, Eo. simpl. destruct (is_xr a); [|apply photon_set2d_form; assumption].
        destruct (is_photon (c_kind o')); [apply photon_set3d_form; assumption | eexists; reflexivity].
      * eexists; reflexivity.
  - destruct o as [x|x|ox|x|x| | | |o'|o'|o'|reset|]; cbn [assignment_of] in Ha; rewrite ?Hk in Ha; try discriminate.
    + injection Ha as ->. cbn [step]. rewrite Hk. apply base_set_form; assumption.
    + destruct ox as [x|]; [|discriminate]. injection Ha as <-. cbn [step]. rewrite Hk. apply base_set_form; assumption.
    + destruct (c_content c) eqn:Ec; [discriminate|]. injection Ha as ->.
      cbn [step]. rewrite Hk. unfold base_iadd. rewrite Ec. apply base_set_form; assumption.
    + destruct (c_content c) eqn:Ec; [discriminate|]. injection Ha as ->.
      cbn [step]. rewrite Hk. unfold base_iadd. rewrite Ec. apply base_set_form; assumption.
    + destruct (c_content o') as [y|] eqn:Eo; [|discriminate]. injection Ha as ->.
      cbn [step]. unfold det_assign. destruct (det_setter tb (c_kind c)) eqn:Es.
      * destruct (read2d_some o' a Eo) as [-> | [e ->]]; [|eexists; reflexivity].
        rewrite Hk. apply base_set_form; assumption.
      * exfalso. eapply (setter_not_raw tb Htb); eauto.
      * apply setter_dispatch_photon in Es. congruence.
      * eexists; reflexivity.
Qed.

(* ---------------------------------------------------------------- a completed assignment stores the assigned array *)

Lemma base_set_done c a :
  snd (base_set tb c a) = Done -> c_content (fst (base_set tb c a)) = Some a.
Proof. unfold base_set. destruct (validate_base tb c a); simpl; [discriminate | reflexivity]. Qed.

Lemma photon_set2d_done c a :
  snd (photon_set2d tb c a) = Done -> c_content (fst (photon_set2d tb c a)) = Some (clip_arr a).
Proof. rewrite (photon_set2d_eq tb Htb). destruct (photon_check2d tb c a); simpl; [discriminate | reflexivity]. Qed.

Lemma photon_set3d_done c a :
  snd (photon_set3d tb c a) = Done -> c_content (fst (photon_set3d tb c a)) = Some (clip_arr a).
Proof. rewrite (photon_set3d_eq tb Htb). destruct (photon_check3d tb c a); simpl; [discriminate | reflexivity]. Qed.

Definition stores (c : container) (o : op) : Prop :=
  match assignment_of (c_kind c) o (c_content c) with
  | Some (AsgArr a) => c_content (fst (step tb c o)) = Some (stored_form (c_kind c) a)
  | Some AsgEmpty => c_content (fst (step tb c o)) = None
  | None => True
  end.

Theorem assign_stores c o : snd (step tb c o) = Done -> stores c o.
Proof.
  intro Hd. unfold stores. destruct (iadd_kinds tb Htb) as [Ki Ka].
  destruct (is_photon (c_kind c)) eqn:Hk.
  - destruct o as [x|x|ox|x|x| | | |o'|o'|o'|reset|]; cbn [assignment_of]; rewrite ?Hk; try exact I;
      unfold stored_form; rewrite ?Hk.
    + cbn [step] in *. rewrite Hk in *. apply photon_set2d_done; assumption.
    + cbn [step] in *. rewrite Hk in *. apply photon_set3d_done; assumption.
    + destruct ox; exact I.
    + destruct (c_content c) eqn:Ec; [exact I|]. rewrite ?Hk. cbn [step] in *. rewrite Hk, Ki in *.
      unfold photon_iadd in *. rewrite Ec in *.
      destruct (is_xr x); [apply photon_set3d_done | apply photon_set2d_done]; assumption.
    + destruct (c_content c) eqn:Ec; [exact I|]. rewrite ?Hk. cbn [step] in *. rewrite Hk, Ka in *.
      unfold photon_iadd in *. rewrite Ec in *.
      destruct (is_xr x); [apply photon_set3d_done | apply photon_set2d_done]; assumption.
    + cbn [step] in *. unfold det_assign in *. destruct (c_content o') as [y|] eqn:Eo; rewrite ?Hk.
      * destruct (det_setter tb (c_kind c)) eqn:Es.
        -- destruct (read2d_some o' y Eo) as [Er | [e Er]]; rewrite Er in *; [|discriminate].
           rewrite Hk in *. apply photon_set2d_done; assumption.
        -- exfalso. eapply (setter_not_raw tb Htb); eauto.
        -- rewrite Hk in *. cbn [negb] in *. destruct (is_xr y); [|apply photon_set2d_done; assumption].
           destruct (is_photon (c_kind o')); [apply photon_set3d_done; assumption | discriminate].
        -- discriminate.
      * destruct (det_setter tb (c_kind c)) eqn:Es.
        -- destruct (read2d tb o') eqn:Er; try discriminate. apply (read2d_arr tb) in Er. congruence.
        -- exfalso. eapply (setter_not_raw tb Htb); eauto.
        -- rewrite ?Hk. reflexivity.
        -- discriminate.
  - destruct o as [x|x|ox|x|x| | | |o'|o'|o'|reset|]; cbn [assignment_of]; rewrite ?Hk; try exact I;
      unfold stored_form; rewrite ?Hk.
    + cbn [step] in *. rewrite Hk in *. apply base_set_done; assumption.
    + destruct ox as [x|]; [|exact I]. rewrite ?Hk. cbn [step] in *. rewrite Hk in *. apply base_set_done; assumption.
    + destruct (c_content c) eqn:Ec; [exact I|]. rewrite ?Hk. cbn [step] in *. rewrite Hk in *.
      unfold base_iadd in *. rewrite Ec in *. apply base_set_done; assumption.
    + destruct (c_content c) eqn:Ec; [exact I|]. rewrite ?Hk. cbn [step] in *. rewrite Hk in *.
      unfold base_iadd in *. rewrite Ec in *. apply base_set_done; assumption.
    + cbn [step] in *. unfold det_assign in *. destruct (c_content o') as [y|] eqn:Eo; rewrite ?Hk.
      * destruct (det_setter tb (c_kind c)) eqn:Es.
        -- destruct (read2d_some o' y Eo) as [Er | [e Er]]; rewrite Er in *; [|discriminate].
           rewrite Hk in *. apply base_set_done; assumption.
        -- exfalso. eapply (setter_not_raw tb Htb); eauto.
        -- apply setter_dispatch_photon in Es. congruence.
        -- discriminate.
      * destruct (det_setter tb (c_kind c)) eqn:Es.
        -- destruct (read2d tb o') eqn:Er; try discriminate. apply (read2d_arr tb) in Er. congruence.
        -- exfalso. eapply (setter_not_raw tb Htb); eauto.
        -- apply setter_dispatch_photon in Es. congruence.
        -- discriminate.
Qed.

End WithTables.
