(* C02 — the bool specification used as the oracle of the correspondence leg ([obs_ok], evaluated on the
   implementation's observations) accepts the model's own trace on every valid scenario: the oracle is
   not stricter than the theorems (no alarm on behaviour the theorems describe). *)
From Coq Require Import QArith ZArith List Bool Lia.
From PyxelV Require Import Model.Exposure Proofs.Exposure.
Import ListNotations.

Lemma tv_eqb_refl : forall a, tv_eqb a a = true.
Proof. destruct a; simpl; [apply Qeq_bool_iff; reflexivity|reflexivity]. Qed.

Lemma clock_eqb_refl : forall c, clock_eqb c c = true.
Proof.
  intros c. unfold clock_eqb. rewrite !tv_eqb_refl, Z.eqb_refl, !Bool.eqb_reflx. reflexivity.
Qed.

Lemma oz_eqb_refl : forall a, oz_eqb a a = true.
Proof. destruct a; simpl; [apply Z.eqb_refl|reflexivity]. Qed.

Lemma det_eqb_refl : forall d, det_eqb d d = true.
Proof. intros d. unfold det_eqb. rewrite !oz_eqb_refl. reflexivity. Qed.

Lemma obs_ok_of : forall nd start ts os i prev,
  map (@o_clock Z) os = map (spec_clock start ts) (seq i (length os)) ->
  begins_ok Z 0%Z nd prev os ->
  (i + length os = length ts)%nat ->
  obs_ok nd start ts i prev os = true.
Proof.
  intros nd start ts. induction os as [|o os IH]; intros i prev Hc Hb Hl.
  - simpl in *. apply Nat.eqb_eq. lia.
  - simpl in Hc. injection Hc as Hc0 Hc1. destruct Hb as [Hb0 Hb1].
    simpl. rewrite Hc0, Hb0, clock_eqb_refl, det_eqb_refl. simpl.
    apply IH; [exact Hc1|exact Hb1|simpl in Hl; lia].
Qed.

Lemma oracle_accepts_model_trace : forall E, empty_table_ok E = true ->
  forall ro ts prog d0,
  obs_ok (r_nd ro) (r_start ro) ts 0 None (trace_of Z 0%Z E ro ts prog d0) = true.
Proof.
  intros E HE ro ts prog d0. apply obs_ok_of.
  - rewrite trace_length. apply trace_clocks.
  - apply trace_begins. exact HE.
  - rewrite trace_length. reflexivity.
Qed.

(* on a valid scenario, a case whose recorded observations are the model's own is not a violation *)
Lemma oracle_accepts_model : forall G E, g_ndarray G = true -> empty_table_ok E = true ->
  forall f r s nd ops plan d0 rp0 os aft,
  valid_scenario r s nd ops ->
  scenario Z 0%Z G E f r s nd ops (prog_of plan) d0 = Ran os ->
  case_violates {| k_form := f; k_raw := r; k_start := s; k_nd := nd; k_ops := ops; k_d0 := d0;
                   k_rp0 := rp0; k_plan := plan; k_obs := IRan os; k_after := aft |} = false.
Proof.
  intros G E HN HE f r s nd ops plan d0 rp0 os aft Hv Hs.
  destruct (st_runs Z 0%Z G E HN f r s nd ops (prog_of plan) d0 Hv) as [qs [st [H1 [H2 [H3 H4]]]]].
  rewrite H4 in Hs. injection Hs as <-.
  unfold case_violates, ro0. cbn [k_obs k_ops k_raw k_start k_nd].
  fold (final r s nd ops).
  assert (Hvb : ro_valid_b (final r s nd ops) = true).
  { unfold ro_valid_b. apply valid_b_iff. rewrite H1, H2. exists qs, st. auto. }
  rewrite Hvb, H1. rewrite oracle_accepts_model_trace by exact HE. reflexivity.
Qed.

(* ... and an exception before any model executed is not a violation when some schedule the caller installed
   was not valid *)
Lemma oracle_accepts_rejection : forall f r s nd ops plan d0 rp0 stage aft,
  ~ valid_scenario r s nd ops ->
  case_violates {| k_form := f; k_raw := r; k_start := s; k_nd := nd; k_ops := ops; k_d0 := d0;
                   k_rp0 := rp0; k_plan := plan; k_obs := IRejected stage 0; k_after := aft |} = false.
Proof.
  intros f r s nd ops plan d0 rp0 stage aft Hnv.
  unfold case_violates, ro0. cbn [k_obs k_ops k_raw k_start k_nd]. rewrite Z.eqb_refl. simpl andb.
  apply negb_false_iff. apply negb_true_iff.
  destruct (forallb ro_valid_b (intended_all {| r_times := r; r_start := s; r_nd := nd |} ops)) eqn:Ef; [|reflexivity].
  exfalso. apply Hnv. unfold valid_scenario. apply Forall_forall. intros ro Hin.
  rewrite forallb_forall in Ef. specialize (Ef ro Hin). unfold ro_valid. apply valid_b_iff. exact Ef.
Qed.
