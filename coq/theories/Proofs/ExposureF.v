(* C02 — the binary64 view of the clock (Model/ExposureF.v): closed form of the rounded trace, and the
   binary64 oracle accepts the rounded image of the model's own trace. *)
From Coq Require Import QArith ZArith List Bool Lia.
From PyxelV Require Import Model.Exposure Model.ExposureF Proofs.Exposure Proofs.ExposureSpec.
Import ListNotations.

Lemma steps_f_length : forall start ts, length (steps_f start ts) = length ts.
Proof. intros. unfold steps_f, steps. rewrite map_length. apply tdiff_length. Qed.

Section FloatView.
  Variable A : Type.
  Variable zero : A.
  Variable G : guard_table.
  Variable E : empty_table.
  Hypothesis HN : g_ndarray G = true.

  (* every clock of the binary64 trace of a valid scenario: time t_i, step fl(t_i - t_(i-1)), absolute time
     fl(start + t_i), counter i, first / last flags *)
  Lemma st_clock_f : forall f r s nd ops prog d0, valid_scenario r s nd ops ->
    exists qs st trace,
      r_times (final r s nd ops) = R1 (map TQ qs) /\ r_start (final r s nd ops) = TQ st
      /\ round_outcome (scenario A zero G E f r s nd ops prog d0) = Ran trace
      /\ length trace = length qs
      /\ forall i o, nth_error trace i = Some o ->
           c_time (o_clock o) = TQ (nth i qs 0)
           /\ c_step (o_clock o) = rnd64 (TQ (nth i qs 0 - nth i (st :: qs) 0))
           /\ c_abs (o_clock o) = rnd64 (TQ (st + nth i qs 0))
           /\ c_count (o_clock o) = Z.of_nat i
           /\ c_first (o_clock o) = Nat.eqb i 0
           /\ c_last (o_clock o) = Nat.eqb (S i) (length qs).
  Proof.
    intros f r s nd ops prog d0 Hv.
    destruct (st_once_in_order A zero G E HN f r s nd ops prog d0 Hv) as [qs0 [tr0 [Hq0 [Hs0 [_ Hl0]]]]].
    destruct (st_clock A zero G E HN f r s nd ops prog d0 Hv) as [qs [st [trace [H1 [H2 [H3 Hc]]]]]].
    rewrite H3 in Hs0. injection Hs0 as <-.
    rewrite H1 in Hq0. injection Hq0 as Hq.
    assert (Hqq : qs0 = qs).
    { clear -Hq. revert qs0 Hq. induction qs as [|a qs IH]; intros [|b qs0] H; try discriminate; [reflexivity|].
      simpl in H. injection H as Ha Hr. subst b. f_equal. apply IH. exact Hr. }
    subst qs0.
    exists qs, st, (map round_obs trace). split; [exact H1|]. split; [exact H2|].
    split; [rewrite H3; reflexivity|]. split; [rewrite map_length; exact Hl0|].
    intros i o Hn. rewrite nth_error_map in Hn.
    destruct (nth_error trace i) as [o'|] eqn:En; [|discriminate]. injection Hn as <-.
    destruct (Hc i o' En) as [C1 [C2 [C3 [C4 [C5 C6]]]]].
    simpl. rewrite C1, C2, C3, C4, C5, C6. repeat split.
  Qed.
End FloatView.

Lemma obs_ok_f_of : forall nd start ts os i prev,
  map (@o_clock Z) os = map (spec_clock start ts) (seq i (length os)) ->
  begins_ok Z 0%Z nd prev os ->
  (i + length os = length ts)%nat ->
  obs_ok_f nd start ts i prev (map round_obs os) = true.
Proof.
  intros nd start ts. induction os as [|o os IH]; intros i prev Hc Hb Hl.
  - simpl in *. apply Nat.eqb_eq. lia.
  - simpl in Hc. injection Hc as Hc0 Hc1. destruct Hb as [Hb0 Hb1].
    simpl. rewrite Hc0, Hb0, clock_eqb_refl, det_eqb_refl. simpl.
    apply IH; [exact Hc1|exact Hb1|simpl in Hl; lia].
Qed.

(* the binary64 oracle never flags the rounded image of the model's own trace on a valid scenario *)
Lemma oracle_f_accepts_model : forall G E, g_ndarray G = true -> empty_table_ok E = true ->
  forall f r s nd ops plan d0 rp0 os aft,
  valid_scenario r s nd ops ->
  scenario Z 0%Z G E f r s nd ops (prog_of plan) d0 = Ran os ->
  case_violates_f {| k_form := f; k_raw := r; k_start := s; k_nd := nd; k_ops := ops; k_d0 := d0;
                     k_rp0 := rp0; k_plan := plan; k_obs := IRan (map round_obs os); k_after := aft |} = false.
Proof.
  intros G E HN HE f r s nd ops plan d0 rp0 os aft Hv Hs.
  destruct (st_runs Z 0%Z G E HN f r s nd ops (prog_of plan) d0 Hv) as [qs [st [H1 [H2 [H3 H4]]]]].
  rewrite H4 in Hs. injection Hs as <-.
  unfold case_violates_f, ro0. cbn [k_obs k_ops k_raw k_start k_nd].
  fold (final r s nd ops).
  assert (Hvb : ro_valid_b (final r s nd ops) = true).
  { unfold ro_valid_b. apply valid_b_iff. rewrite H1, H2. exists qs, st. auto. }
  rewrite Hvb, H1.
  rewrite obs_ok_f_of; [reflexivity| | |].
  - rewrite trace_length. apply trace_clocks.
  - apply trace_begins. exact HE.
  - rewrite trace_length. reflexivity.
Qed.
