(* C16: histories of converter calls on one detector (Model/AdcHist.v).
   With a get_dtype chain that passed the finite check and wirings that passed the boolean checks (both
   regenerated from the source), for EVERY state of the detector (whatever image an earlier call left in the
   bucket) and EVERY history of operations (no bound on its length, invalid operations included):
   - a call never changes the converter settings, a setter changes only its own attribute;
   - every allowed call stores an image that is defined everywhere and satisfies the specification for the
     settings in force at that call -- the previous content of the Image bucket plays no role;
   - the model's own trace passes the judge the implementation's trace is given to (hist_judge). *)
From Coq Require Import ZArith List Bool Reals Lia.
From Flocq Require Import Core BinarySingleNaN.
From PyxelV Require Import Lib.B64 Model.Adc Model.AdcHist Proofs.AdcChain Proofs.AdcFloat Proofs.AdcSimple
  Proofs.AdcSar Proofs.AdcSar0 Proofs.AdcSarp Proofs.AdcFrame Proofs.AdcWrap.
Import ListNotations.
Open Scope Z_scope.

Lemma all_some_map_Some (cs : list Z) : all_some (map Some cs) = Some cs.
Proof. induction cs as [|c t IH]; [reflexivity|]. cbn [map all_some]. rewrite IH. reflexivity. Qed.

Lemma apply_set_call (d : adc_detector) (o : adc_op) : is_call o = true -> apply_set d o = d.
Proof. destruct o; cbn; intros H; try discriminate; reflexivity. Qed.

Lemma range_ok_inv (d : adc_detector) :
  range_ok d = true ->
  is_finite (d_lo d) = true /\ is_finite (d_hi d) = true /\ (B2R (d_lo d) < B2R (d_hi d))%R /\
  is_finite (bsub (d_hi d) (d_lo d)) = true.
Proof.
  unfold range_ok. intros H.
  apply andb_prop in H. destruct H as [H Fs]. apply andb_prop in H. destruct H as [H L].
  apply andb_prop in H. destruct H as [Flo Fhi].
  repeat split; try assumption.
  rewrite blt_finite in L by assumption. revert L. case Rlt_bool_spec; [auto|discriminate].
Qed.

Lemma nonneg_of_ble (x : b64) : is_finite x = true -> ble pzero x = true -> (0 <= B2R x)%R.
Proof.
  intros F H. change 0%R with (B2R pzero). apply ble_finite_true; [reflexivity|exact F|exact H].
Qed.

Section Hist.
Variables (ch : dtype_chain) (sw : simple_wiring) (rw : sar_wiring) (nw : sar0_wiring).
Hypothesis Hch : chain_ok ch = true.
Hypothesis Hsw : simple_wiring_ok sw = true.
Hypothesis Hrw : sar_wiring_ok rw = true.
Hypothesis Hnw : sar0_wiring_ok nw = true.

Notation hstep := (hstep ch sw rw nw).
Notation hrun := (hrun ch sw rw nw).
Notation htrace := (htrace ch sw rw nw).

(* ---- the settings are threaded through the setters only *)
Lemma hstep_settings (s : hstate) (o : adc_op) : h_det (fst (hstep s o)) = apply_set (h_det s) o.
Proof.
  unfold AdcHist.hstep.
  destruct o; cbn [call_image].
  1-4: cbn [fst h_det]; reflexivity.
  all: match goal with |- context [match ?r with Some _ => _ | None => _ end] => destruct r end;
       cbn [fst h_det]; reflexivity.
Qed.

Theorem hrun_settings (ops : list adc_op) : forall s, h_det (hrun s ops) = fold_left apply_set ops (h_det s).
Proof.
  induction ops as [|o t IH]; intros s; [reflexivity|].
  cbn [AdcHist.hrun fold_left]. rewrite IH, hstep_settings. reflexivity.
Qed.

(* ---- simple_adc with a data_type at least as wide as the resolution *)
Lemma run_simple_some (d : adc_detector) (wd : Z) :
  1 <= d_bits d <= 64 -> d_bits d <= wd ->
  exists w', d_bits d <= w' /\
    run_simple ch sw d (Some wd) = Some (w', map (simple_code w' (d_bits d) (d_lo d) (d_hi d)) (d_signal d)).
Proof.
  intros Hb Hw. pose proof Hsw as H.
  destruct sw as [sg bt lo hi dt st]. unfold simple_wiring_ok in H.
  cbn [sw_signal sw_bits sw_vmin sw_vmax sw_dtype sw_store_image] in H. split_ands H.
  repeat match goal with K : src_eqb _ _ = true |- _ => apply src_eqb_eq in K; subst end.
  unfold run_simple. cbn [sw_signal sw_bits sw_vmin sw_vmax sw_dtype sw_store_image pickZ pickF pickL].
  destruct dt as [[]|[]|]; try discriminate; cbn [pick_width pickZ].
  - destruct (chain_ok_sound ch Hch (d_bits d) Hb) as [w [Ew _]].
    destruct (chain_fits ch Hch (d_bits d) w Hb Ew) as [Hle _].
    exists w. rewrite Ew. split; [exact Hle|reflexivity].
  - exists wd. split; [exact Hw|reflexivity].
Qed.

(* ---- every allowed call, from ANY state: no exception, a defined image, the specification *)
Theorem call_meets_spec (s : hstate) (o : adc_op) :
  call_allowed (h_det s) o = true ->
  exists w cs, hstep s o = ({| h_det := h_det s; h_image := Some (w, map Some cs) |}, false) /\
               call_spec (h_det s) o w cs = true.
Proof.
  set (d := h_det s). unfold call_allowed. intros H.
  apply andb_prop in H. destruct H as [H Ho]. apply andb_prop in H. destruct H as [H Hs].
  apply andb_prop in H. destruct H as [H Hn]. apply andb_prop in H. destruct H as [H Hr].
  apply andb_prop in H. destruct H as [B4 B64]. apply Z.leb_le in B4, B64.
  destruct (range_ok_inv d Hr) as [Flo [Fhi [Hlt Fs]]].
  assert (Hb : 1 <= d_bits d <= 64) by lia.
  unfold AdcHist.hstep. fold d.
  destruct o as [b|lo hi|xs| |dt| |n m|ps]; try discriminate Ho; cbn [call_image call_spec].
  - (* simple_adc *)
    destruct dt as [wd|].
    + apply Z.leb_le in Ho.
      destruct (run_simple_some d wd Hb Ho) as [w' [Hw' E]].
      destruct (simple_codes_meet_spec (d_bits d) (d_lo d) (d_hi d) Hb Flo Fhi Hlt Fs w' (d_signal d) Hw' Hn Hs)
        as [cs [Ec Sp]].
      exists w', cs. rewrite E, Ec. split; [reflexivity|exact Sp].
    + rewrite (run_simple_ok ch sw d Hsw).
      destruct (simple_frame_meets_spec ch Hch (d_bits d) (d_lo d) (d_hi d) Hb Flo Fhi Hlt Fs (d_signal d) Hn Hs)
        as [w [cs [E Sp]]].
      exists w, cs. rewrite E. split; [reflexivity|exact Sp].
  - (* sar_adc *)
    pose proof (nonneg_of_ble (d_hi d) Fhi Ho) as Pv.
    rewrite (run_sar_ok ch rw d Hrw).
    destruct (sar_frame_meets_spec ch Hch (d_bits d) (d_hi d) Hb Fhi Pv (d_signal d) Hn Hs) as [w [cs [E Sp]]].
    exists w, cs. rewrite E. split; [reflexivity|exact Sp].
  - (* sar_adc_with_noise, zero strengths and noises *)
    apply andb_prop in Ho. destruct Ho as [Ho Hp]. apply andb_prop in Ho. destruct Ho as [En Em].
    apply Z.eqb_eq in En, Em. subst n m.
    pose proof (nonneg_of_ble (d_hi d) Fhi Hp) as Pv.
    destruct (run_sar0_ok ch nw d Hnw) as [E0 _]. rewrite E0.
    destruct (sar_frame_meets_spec ch Hch (d_bits d) (d_hi d) Hb Fhi Pv (d_signal d) Hn Hs) as [w [cs [E Sp]]].
    exists w, cs. split; [|exact Sp].
    assert (Q : sar0_frame ch (d_bits d) (d_hi d) (d_signal d) = sar_frame ch (d_bits d) (d_hi d) (d_signal d)).
    { unfold sar0_frame, sar_frame. destruct (chain_width ch (d_bits d)); [|reflexivity].
      f_equal. f_equal. apply map_ext. intros x. apply sar0_eq_sar; assumption. }
    rewrite Q, E. reflexivity.
  - (* sar_adc_with_noise, any perturbations *)
    apply Z.eqb_eq in Ho. unfold call_sarp. rewrite Ho, Z.eqb_refl. cbn [negb]. rewrite !andb_false_r. cbn [orb].
    rewrite (run_sarp_ok ch nw d ps Hnw).
    destruct (sarp_frame_meets_spec ch Hch (d_bits d) (d_hi d) ps (d_signal d) Hb ltac:(lia)) as [w [cs [E Sp]]].
    exists w, cs. rewrite E. split; [reflexivity|exact Sp].
Qed.

(* ---- the image a call stores does not depend on what the bucket held before *)
Theorem call_ignores_previous_image (d : adc_detector) (im1 im2 : image_m) (o : adc_op) :
  call_allowed d o = true ->
  h_image (fst (hstep {| h_det := d; h_image := im1 |} o)) = h_image (fst (hstep {| h_det := d; h_image := im2 |} o)).
Proof.
  intros H.
  destruct (call_meets_spec {| h_det := d; h_image := im1 |} o H) as [w1 [c1 [E1 _]]].
  destruct (call_meets_spec {| h_det := d; h_image := im2 |} o H) as [w2 [c2 [E2 _]]].
  rewrite E1, E2. cbn [fst h_image h_det].
  unfold AdcHist.hstep in E1, E2. cbn [h_det] in E1, E2.
  destruct o as [b|lo hi|xs| |dt| |n m|ps];
    try (unfold call_allowed in H; rewrite andb_false_r in H; discriminate H);
    cbn [call_image] in E1, E2;
    match type of E1 with context [match ?r with Some _ => _ | None => _ end] => destruct r end;
    inversion E1; inversion E2; subst; congruence.
Qed.

(* ---- the model's own trace passes the judge, for every state and every history *)
Theorem hist_model_ok (ops : list adc_op) :
  forall (s : hstate) (i : Z), hist_judge (h_det s) ops (model_obs (htrace s ops)) i = [].
Proof.
  induction ops as [|o t IH]; intros s i; [reflexivity|].
  cbn [AdcHist.htrace model_obs map hist_judge].
  rewrite <- hstep_settings.
  change (map _ (htrace (fst (hstep s o)) t)) with (model_obs (htrace (fst (hstep s o)) t)).
  rewrite IH, app_nil_r.
  assert (Ok : obs_ok (h_det s) o
                 {| o_raised := snd (hstep s o); o_image := defined_image (h_image (fst (hstep s o)));
                    o_sig_ok := true |} = true).
  { unfold obs_ok. cbn [o_raised o_image o_sig_ok]. rewrite andb_true_r.
    destruct (call_allowed (h_det s) o) eqn:A; [|reflexivity].
    destruct (call_meets_spec s o A) as [w [cs [E Sp]]]. rewrite E. cbn [fst snd h_image negb andb defined_image].
    rewrite all_some_map_Some. exact Sp. }
  cbn [fst snd] in Ok |- *. rewrite Ok. reflexivity.
Qed.

End Hist.
