(* Proofs about Model/FluxExpr.v: a [lin] expression is (its value at unit step) * step, for every value of
   every variable; hence the increment of a table row is additive over any splitting of the step. *)
From Coq Require Import QArith List Bool String Lia.
From PyxelV Require Import Model.Flux Proofs.Flux Model.FluxExpr.
Import ListNotations.
Open Scope Q_scope.

Lemma free_step_indep : forall e, free e = true -> forall env s1 s2, eval env s1 e = eval env s2 e.
Proof.
  induction e; simpl; intros H env s1 s2; try discriminate; try reflexivity.
  - rewrite (IHe H env s1 s2). reflexivity.
  - apply andb_prop in H. destruct H as [H1 H2]. rewrite (IHe1 H1 env s1 s2), (IHe2 H2 env s1 s2). reflexivity.
  - apply andb_prop in H. destruct H as [H1 H2]. rewrite (IHe1 H1 env s1 s2), (IHe2 H2 env s1 s2). reflexivity.
  - apply andb_prop in H. destruct H as [H1 H2]. rewrite (IHe1 H1 env s1 s2), (IHe2 H2 env s1 s2). reflexivity.
  - apply andb_prop in H. destruct H as [H1 H2]. rewrite (IHe1 H1 env s1 s2), (IHe2 H2 env s1 s2). reflexivity.
  - apply andb_prop in H. destruct H as [H1 H2]. rewrite (IHe1 H1 env s1 s2), (IHe2 H2 env s1 s2). reflexivity.
Qed.

Lemma lin_not_free : forall e, lin e = true -> free e = false.
Proof.
  induction e; simpl; intros H; try discriminate; try reflexivity.
  - auto.
  - apply andb_prop in H. destruct H as [H1 _]. rewrite (IHe1 H1). reflexivity.
  - apply andb_prop in H. destruct H as [H1 _]. rewrite (IHe1 H1). reflexivity.
  - apply orb_prop in H. destruct H as [H|H]; apply andb_prop in H; destruct H as [H1 H2].
    + rewrite (IHe1 H1). reflexivity.
    + rewrite (IHe2 H2). apply andb_false_r.
  - apply andb_prop in H. destruct H as [H1 _]. rewrite (IHe1 H1). reflexivity.
Qed.

Theorem lin_homogeneous : forall e, lin e = true ->
  forall env step, eval env step e == eval env 1 e * step.
Proof.
  induction e; simpl; intros H env step; try discriminate.
  - ring.
  - rewrite (IHe H env step). ring.
  - apply andb_prop in H. destruct H as [H1 H2]. rewrite (IHe1 H1 env step), (IHe2 H2 env step). ring.
  - apply andb_prop in H. destruct H as [H1 H2]. rewrite (IHe1 H1 env step), (IHe2 H2 env step). ring.
  - apply orb_prop in H. destruct H as [H|H]; apply andb_prop in H; destruct H as [H1 H2].
    + rewrite (IHe1 H1 env step), (free_step_indep e2 H2 env step 1). ring.
    + rewrite (IHe2 H2 env step), (free_step_indep e1 H1 env step 1). ring.
  - apply andb_prop in H. destruct H as [H1 H2].
    rewrite (IHe1 H1 env step), (free_step_indep e2 H2 env step 1). unfold Qdiv. ring.
Qed.

Corollary lin_scale : forall e, lin e = true ->
  forall env c step, eval env (c * step) e == c * eval env step e.
Proof.
  intros e H env c step. rewrite (lin_homogeneous e H env (c * step)), (lin_homogeneous e H env step). ring.
Qed.

Corollary lin_additive : forall e, lin e = true ->
  forall env s1 s2, eval env (s1 + s2) e == eval env s1 e + eval env s2 e.
Proof.
  intros e H env s1 s2.
  rewrite (lin_homogeneous e H env (s1 + s2)), (lin_homogeneous e H env s1), (lin_homogeneous e H env s2). ring.
Qed.

Lemma row_ok_det_lin : forall r, row_ok r = true -> has_random (rr_expr r) = false -> lin (rr_expr r) = true.
Proof.
  intros r H Hr. unfold row_ok in H. rewrite Hr in H. rewrite orb_false_r in H. exact H.
Qed.

(* the table-level statement: parametrised over the table, instantiated on the regenerated one by vm_compute *)
Theorem rows_linear : forall t, table_ok t = true ->
  forall r, In r t -> has_random (rr_expr r) = false ->
  forall env step, eval env step (rr_expr r) == rate_of env r * step.
Proof.
  intros t Ht r Hin Hr env step. unfold table_ok in Ht. rewrite forallb_forall in Ht.
  apply lin_homogeneous. apply row_ok_det_lin; [apply Ht; exact Hin|exact Hr].
Qed.

Theorem rows_split_additive : forall t, table_ok t = true ->
  forall r, In r t -> has_random (rr_expr r) = false ->
  forall env s1 s2, eval env (s1 + s2) (rr_expr r) == eval env s1 (rr_expr r) + eval env s2 (rr_expr r).
Proof.
  intros t Ht r Hin Hr env s1 s2. unfold table_ok in Ht. rewrite forallb_forall in Ht.
  apply lin_additive. apply row_ok_det_lin; [apply Ht; exact Hin|exact Hr].
Qed.

(* the row is the Flux model's rate op: adding the source expression's value for a step is what
   PhotonRate / ChargeRate (rate at unit step) does to the bucket, and nothing else changes *)
Theorem rows_are_rate_ops : forall t, table_ok t = true ->
  forall r, In r t -> has_random (rr_expr r) = false ->
  forall env step s,
  match rr_sink r with
  | SPhoton => let s' := apply_op step s (PhotonRate (rate_of env r)) in
               photon s' == photon s + eval env step (rr_expr r) /\ charge s' = charge s /\ pixel s' = pixel s
  | SCharge => let s' := apply_op step s (ChargeRate (rate_of env r)) in
               charge s' == charge s + eval env step (rr_expr r) /\ photon s' = photon s /\ pixel s' = pixel s
  end.
Proof.
  intros t Ht r Hin Hr env step s. pose proof (rows_linear t Ht r Hin Hr env step) as E.
  destruct (rr_sink r); cbn [apply_op photon charge pixel]; (split; [|split; reflexivity]);
    rewrite Qred_correct, E; reflexivity.
Qed.

Lemma bad_rows_from_nil : forall t i, bad_rows_from i t = [] <-> table_ok t = true.
Proof.
  induction t as [|r t IH]; intros i; simpl; [split; reflexivity|].
  destruct (row_ok r); simpl.
  - apply IH.
  - split; discriminate.
Qed.

Theorem bad_rows_nil : forall t, bad_rows t = [] <-> table_ok t = true.
Proof. intros t. apply bad_rows_from_nil. Qed.

(* ------------------------------------------------------------------ the Readout guards *)

Lemma sguard_eqb_eq : forall a b, sguard_eqb a b = true -> a = b.
Proof. destruct a, b; simpl; intros; try discriminate; reflexivity. Qed.

Lemma existsb_mem : forall g gs, existsb (sguard_eqb g) gs = true -> In g gs.
Proof.
  intros g gs H. apply existsb_exists in H. destruct H as [x [Hin Hx]].
  apply sguard_eqb_eq in Hx. subst. exact Hin.
Qed.

Lemma forallb_all_three : forall (f : sguard -> bool) gs,
  In GFirstZero gs -> In GStartGeFirst gs -> In GNotIncreasing gs ->
  forallb f gs = f GFirstZero && f GStartGeFirst && f GNotIncreasing.
Proof.
  intros f gs H1 H2 H3.
  destruct (forallb f gs) eqn:E.
  - rewrite forallb_forall in E. rewrite (E _ H1), (E _ H2), (E _ H3). reflexivity.
  - destruct (f GFirstZero) eqn:E1, (f GStartGeFirst) eqn:E2, (f GNotIncreasing) eqn:E3; simpl; try reflexivity.
    exfalso. assert (forallb f gs = true) as C; [|congruence].
    apply forallb_forall. intros [] _; assumption.
Qed.

Theorem accepted_is_valid_schedule : forall er gs, guards_complete er gs = true ->
  forall start ts, accepted er gs start ts = valid_schedule start ts.
Proof.
  intros er gs H start ts. unfold guards_complete in H.
  repeat (apply andb_prop in H; destruct H as [H ?]).
  subst er || (destruct er; [|discriminate]).
  destruct ts as [|t0 r]; [reflexivity|].
  unfold accepted. rewrite (forallb_all_three _ gs) by (apply existsb_mem; assumption).
  unfold valid_schedule. cbn [refuses increasing_from]. unfold Qltb.
  rewrite negb_involutive.
  destruct (Qeq_bool t0 0), (Qle_bool t0 start), (increasing_from t0 r); reflexivity.
Qed.

(* ------------------------------------------------------------------ the conversion / collection rows *)

Lemma bucket_eqb_eq : forall a b, bucket_eqb a b = true -> a = b.
Proof. destruct a, b; simpl; intros; try discriminate; reflexivity. Qed.

Lemma is_step_eq : forall e, is_step e = true -> e = TStep.
Proof. destruct e; simpl; intros; try discriminate; reflexivity. Qed.

(* a deterministic conversion row adds  qe_of * (content of the source bucket)  - it IS the op [Convert (qe_of)];
   a deterministic collection row adds the source content itself - it IS the op [Collect] *)
Theorem conv_rows_are_ops : forall t, conv_table_ok t = true ->
  forall r, In r t -> has_random (cr_expr r) = false ->
  forall (env : string -> Q) (step : Q) (s : st),
  if cr_identity r
  then cr_src r = BkCharge /\ cr_sink r = BkPixel /\
       (let s' := apply_op step s Collect in
        pixel s' == pixel s + eval env (charge s) (cr_expr r) /\ photon s' = photon s /\ charge s' = charge s)
  else cr_src r = BkPhoton /\ cr_sink r = BkCharge /\
       (let s' := apply_op step s (Convert (qe_of env r)) in
        charge s' == charge s + eval env (photon s) (cr_expr r) /\ photon s' = photon s /\ pixel s' = pixel s).
Proof.
  intros t Ht r Hin Hr env step s.
  unfold conv_table_ok in Ht. rewrite forallb_forall in Ht. specialize (Ht r Hin).
  unfold conv_row_ok in Ht. rewrite Hr in Ht. simpl in Ht.
  destruct (cr_identity r).
  - repeat (apply andb_prop in Ht; destruct Ht as [Ht ?]).
    apply is_step_eq in Ht. rewrite Ht.
    split; [apply bucket_eqb_eq; assumption|]. split; [apply bucket_eqb_eq; assumption|].
    cbv zeta. cbn [apply_op pixel photon charge eval].
    split; [rewrite Qred_correct; reflexivity|]. split; reflexivity.
  - repeat (apply andb_prop in Ht; destruct Ht as [Ht ?]).
    split; [apply bucket_eqb_eq; assumption|]. split; [apply bucket_eqb_eq; assumption|].
    cbv zeta. cbn [apply_op pixel photon charge].
    split; [|split; reflexivity].
    rewrite Qred_correct. unfold qe_of.
    rewrite (lin_homogeneous _ Ht env (photon s)). ring.
Qed.

(* such a row does not depend on the time step at all: the same call adds the same for any step *)
Theorem conv_rows_step_free : forall t, conv_table_ok t = true ->
  forall r, In r t -> has_random (cr_expr r) = false ->
  forall (env : string -> Q) (x : Q), eval env x (cr_expr r) == qe_of env r * x.
Proof.
  intros t Ht r Hin Hr env x.
  unfold conv_table_ok in Ht. rewrite forallb_forall in Ht. specialize (Ht r Hin).
  unfold conv_row_ok in Ht. rewrite Hr in Ht. simpl in Ht. unfold qe_of.
  destruct (cr_identity r).
  - repeat (apply andb_prop in Ht; destruct Ht as [Ht ?]).
    apply is_step_eq in Ht. rewrite Ht. simpl. ring.
  - repeat (apply andb_prop in Ht; destruct Ht as [Ht ?]).
    apply lin_homogeneous. exact Ht.
Qed.
