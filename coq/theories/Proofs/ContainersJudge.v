(* C13: the judge of the implementation's observations (`step_violations` / `case_violations` in
   Model/Containers.v -- the eight clauses of the specification) accepts the model on EVERY operation sequence:
   from any state that satisfies the invariant and is accepted by its own setter, the model's own observations
   never break a clause.  So each clause the harness judges the implementation by is a consequence of the
   theorems of this property, and an implementation that behaves like the model is never reported. *)
From Coq Require Import ZArith List Bool Arith Lia.
From PyxelV Require Import Model.Containers Proofs.Containers Proofs.ContainersEq Proofs.ContainersAssign.
Import ListNotations.

(* ---------------------------------------------------------------- reflexivity of the structural comparisons *)

Lemma cell_eqb_refl c : cell_eqb c c = true.
Proof. destruct c; simpl; auto. apply Z.eqb_refl. Qed.

Lemma list_eqb_refl {A} (e : A -> A -> bool) : (forall x, e x x = true) -> forall l, list_eqb e l l = true.
Proof. intros He. induction l as [|a t IH]; simpl; [reflexivity|]. rewrite He, IH. reflexivity. Qed.

Lemma dtype_eqb_refl d : dtype_eqb d d = true.
Proof. destruct d; reflexivity. Qed.

Lemma zlist_eqb_refl l : zlist_eqb l l = true.
Proof. apply list_eqb_refl. apply Z.eqb_refl. Qed.

Lemma opt_eqb_refl {A} (e : A -> A -> bool) : (forall x, e x x = true) -> forall o, opt_eqb e o o = true.
Proof. intros He [x|]; simpl; auto. Qed.

Lemma xinfo_eqb_refl x : xinfo_eqb x x = true.
Proof. unfold xinfo_eqb. rewrite shape_eqb_refl. simpl. apply opt_eqb_refl. apply zlist_eqb_refl. Qed.

Lemma arr_eqb_refl a : arr_eqb a a = true.
Proof.
  unfold arr_eqb. rewrite (opt_eqb_refl _ xinfo_eqb_refl), shape_eqb_refl, dtype_eqb_refl. simpl.
  apply list_eqb_refl. apply cell_eqb_refl.
Qed.

Lemma state_eqb_refl s : state_eqb s s = true.
Proof. apply opt_eqb_refl. apply arr_eqb_refl. Qed.

Lemma arr_same_values_refl a : arr_same_values a a = true.
Proof.
  unfold arr_same_values. rewrite (opt_eqb_refl _ xinfo_eqb_refl), shape_eqb_refl. simpl.
  apply list_eqb_refl. apply cell_eqb_refl.
Qed.

(* for a legal array the lenient expectation of the judge is the array the model stores *)
Lemma expected_store_same k r c a :
  arr_form_ok k r c a = true -> arr_same_values (expected_store k a) (stored_form k a) = true.
Proof.
  intro Hf. unfold expected_store, stored_form. destruct (is_photon k) eqn:Hk; [apply arr_same_values_refl|].
  unfold arr_form_ok in Hf. rewrite Hk in Hf. destruct (a_xr a) as [xi|] eqn:Ex.
  - cbn [andb] in Hf. rewrite andb_false_r in Hf. discriminate.
  - unfold arr_same_values, as_numpy. cbn [a_xr a_shape a_data]. rewrite Ex, shape_eqb_refl. simpl.
    apply list_eqb_refl. apply cell_eqb_refl.
Qed.

Lemma rebuild c : {| c_kind := c_kind c; c_rows := c_rows c; c_cols := c_cols c; c_content := c_content c |} = c.
Proof. destruct c; reflexivity. Qed.

Section WithTables.
Variable tb : tables.
Hypothesis Htb : tables_ok tb = true.

Lemma rebuild_step c o :
  {| c_kind := c_kind c; c_rows := c_rows c; c_cols := c_cols c; c_content := c_content (fst (step tb c o)) |}
  = fst (step tb c o).
Proof.
  destruct (step_kind tb c o) as [H1 [H2 H3]]. rewrite <- H1, <- H2, <- H3. apply rebuild.
Qed.

(* reset_ok holds after every completed model step *)
Lemma reset_ok_step c o :
  snd (step tb c o) <> Unmodelled ->
  reset_ok (c_kind c) o (c_content c) (c_content (fst (step tb c o))) = true.
Proof.
  intro Hu. destruct (empty_kinds tb Htb) as [E1 [E2 [E3 [E4 [D1 [D2 [D3 [D4 Em]]]]]]]].
  destruct o as [a|a|[a| ]|a|a| | | |o'|o'|o'|[ | ]| ];
    try (destruct (c_kind c); reflexivity).
  - (* update(None) *)
    destruct (is_photon (c_kind c)) eqn:Hk.
    + exfalso. apply Hu. cbn [step]. rewrite Hk. reflexivity.
    + apply (reset_leaves_nothing tb Htb); auto. intros _ Hp. rewrite Hp in Hk. discriminate.
  - apply (reset_leaves_nothing tb Htb); auto. intro H; discriminate.
  - apply (reset_leaves_nothing tb Htb); auto. intro H; discriminate.
  - (* detector.empty(reset=False) *)
    cbn [step]. destruct (c_kind c) eqn:Ek; try reflexivity.
    + rewrite D1. cbn [fst]. unfold do_empty. rewrite Ek, E1. reflexivity.
    + rewrite D2. cbn [fst]. unfold do_empty. rewrite Ek, E2. reflexivity.
    + rewrite D3. cbn [fst]. unfold do_empty. rewrite Ek, E3. reflexivity.
Qed.

Lemma assign_no_violation c o :
  assign_violations (c_kind c) (c_rows c) (c_cols c) o (c_content c) (obs_of (step tb c o)) = [].
Proof.
  unfold assign_violations. cbn [obs_of o_out o_state].
  pose proof (assign_stores tb Htb c o) as Hs. unfold stores in Hs.
  destruct (assignment_of (c_kind c) o (c_content c)) as [[a|]|] eqn:Ea; [| |reflexivity].
  - destruct (arr_form_ok (c_kind c) (c_rows c) (c_cols c) a) eqn:Ef.
    + destruct (snd (step tb c o)) eqn:Eo; try reflexivity; unfold assignable; rewrite Ef; try reflexivity.
      rewrite (Hs eq_refl). cbn [is_raise negb orb]. rewrite (expected_store_same _ _ _ _ Ef). reflexivity.
    + destruct (illegal_assign_raises tb Htb c o a Ea Ef) as [e He]. rewrite He. reflexivity.
  - destruct (snd (step tb c o)) eqn:Eo; try reflexivity. rewrite (Hs eq_refl). reflexivity.
Qed.

Lemma read_no_violation c o :
  (o = ORead \/ o = ORead3D \/ o = OAsArray) -> snd (step tb c o) <> Unmodelled ->
  (match c_content c with
   | None => if is_raise (snd (step tb c o)) then [] else [3]
   | Some a => match snd (step tb c o) with RetArr a' => if arr_eqb a a' then [] else [4] | _ => [] end
   end) ++ (if state_eqb (c_content c) (c_content (fst (step tb c o))) then [] else [4]) = @nil nat.
Proof.
  intros Ho Hu.
  assert (Hst : fst (step tb c o) = c).
  { destruct Ho as [-> | [-> | ->]]; cbn [step]; try reflexivity. destruct (is_photon (c_kind c)); reflexivity. }
  rewrite Hst, state_eqb_refl, app_nil_r.
  destruct (c_content c) as [a|] eqn:Ec.
  - destruct (snd (step tb c o)) as [ |e|a'| | | ] eqn:Eo; try reflexivity.
    assert (Hr : c_content c = Some a').
    { eapply (read_returns_content tb c (fst (step tb c o)) a').
      destruct Ho as [-> | [-> | ->]]; [left | right; left | right; right];
        rewrite (surjective_pairing (step tb c _)), Eo; reflexivity. }
    rewrite Ec in Hr. injection Hr as ->. rewrite arr_eqb_refl. reflexivity.
  - destruct Ho as [-> | [-> | ->]].
    + destruct (read_empty_raises tb Htb c Ec) as [e ->]. reflexivity.
    + destruct (is_photon (c_kind c)) eqn:Hk.
      * destruct (read3d_empty_raises tb Htb c (is_photon_kind c Hk) Ec) as [e ->]. reflexivity.
      * exfalso. apply Hu. cbn [step]. rewrite Hk. reflexivity.
    + destruct (asarray_empty_raises tb Htb c Ec) as [e ->]. reflexivity.
Qed.

Lemma eq_no_violation a b :
  Inv a -> Inv b ->
  (if content_nan_free a && content_nan_free b
   then match eq_res tb a b with
        | RetBool r => if Bool.eqb r (eq_spec a b) then [] else [5]
        | _ => [5]
        end
   else []) = @nil nat.
Proof.
  intros Ha Hb. destruct (content_nan_free a) eqn:Na; [|reflexivity].
  destruct (content_nan_free b) eqn:Nb; [|reflexivity]. cbn [andb].
  rewrite (eq_res_spec tb Htb a b Ha Hb Na Nb). rewrite eqb_reflx. reflexivity.
Qed.

(* one step of the model never breaks a clause *)
Theorem step_no_violation c o :
  Inv c -> accepted tb c = true ->
  match o with OEq o' | OEqRev o' => inv_b o' = true | _ => True end ->
  snd (step tb c o) <> Unmodelled ->
  step_violations (c_kind c) (c_rows c) (c_cols c) o (c_content c) (obs_of (step tb c o)) = [].
Proof.
  intros Hc Hacc Ho Hu. unfold step_violations. cbn [obs_of o_out o_state].
  rewrite rebuild, rebuild_step.
  (* clause 1 *)
  assert (H1 : inv_b (fst (step tb c o)) = true) by (apply (step_inv tb Htb); assumption).
  rewrite H1. rewrite andb_false_r. cbn [app].
  (* clause 2 *)
  assert (H2 : is_raise (snd (step tb c o)) && negb (state_eqb (c_content c) (c_content (fst (step tb c o)))) = false).
  { destruct (snd (step tb c o)) eqn:Eo; try reflexivity. cbn [is_raise andb].
    rewrite (step_raise_preserves tb Htb c o (fst (step tb c o)) e Hacc).
    - rewrite state_eqb_refl. reflexivity.
    - rewrite (surjective_pairing (step tb c o)), Eo. reflexivity. }
  rewrite H2. cbn [app].
  (* clause 6 *)
  rewrite (reset_ok_step c o Hu). rewrite andb_false_r. cbn [app].
  (* clauses 7, 8 *)
  rewrite assign_no_violation, !app_nil_r.
  (* clauses 3, 4, 5 *)
  destruct o as [a|a|oa|a|a| | | |o'|o'|o'|reset| ]; try reflexivity.
  - apply read_no_violation; auto.
  - apply read_no_violation; auto.
  - cbn [step snd]. apply eq_no_violation; assumption.
  - cbn [step snd]. rewrite andb_comm. apply eq_no_violation; assumption.
  - apply read_no_violation; auto.
Qed.

(* ... and so no sequence does *)
Theorem judge_accepts_model ops : forall c ci j,
  Inv c -> accepted tb c = true -> eq_operands_inv ops = true -> hits_unmodelled tb c ops = false ->
  case_violations (c_kind c) (c_rows c) (c_cols c) ops (model_obs tb c ops) (c_content c) ci j = [].
Proof.
  induction ops as [|o t IH]; intros c ci j Hc Hacc He Hu; [reflexivity|].
  cbn [model_obs case_violations]. cbn [eq_operands_inv forallb] in He. apply andb_prop in He. destruct He as [Ho Ht].
  cbn [hits_unmodelled] in Hu.
  assert (Hu1 : snd (step tb c o) <> Unmodelled) by (intro E; rewrite E in Hu; discriminate).
  assert (Hu2 : hits_unmodelled tb (fst (step tb c o)) t = false) by (destruct (snd (step tb c o)); try exact Hu; discriminate).
  rewrite step_no_violation; auto.
  - cbn [flat_map app obs_of o_state].
    destruct (step_kind tb c o) as [K1 [K2 K3]]. rewrite <- K1, <- K2, <- K3.
    apply IH; auto.
    + apply (step_inv tb Htb); assumption.
    + apply (step_accepted tb Htb); assumption.
  - destruct o; auto.
Qed.

End WithTables.
