(* Transfer: the state machine over regenerated source parameters (stepP, runP, read_afterP ... of
   Model/Charge.v) IS the fixed model whenever the parameters satisfy params_ok.  Every theorem about
   the fixed model therefore holds for the machine built from what the translator read in the source. *)
From Coq Require Import ZArith QArith Qround List Bool Lia.
From PyxelV Require Import Model.Charge.
Import ListNotations.
Open Scope Q_scope.

Section Transfer.
Variable P : srcparams.
Hypothesis HP : params_ok P.

Lemma centresP_eq g a : centresP P g a = centres g a.
Proof.
  destruct HP as [_ [_ [_ [Ht [Hv Hh]]]]].
  unfold centresP, centres. apply flat_map_ext; intros i. apply flat_map_ext; intros j.
  cbv zeta. rewrite Ht, Hv, Hh. reflexivity.
Qed.

Lemma ivP_eq g c : ivP P g c = pix (g_ph g) (c_v c).
Proof. destruct HP as [H _]. unfold ivP. apply H. Qed.
Lemma ihP_eq g c : ihP P g c = pix (g_pw g) (c_h c).
Proof. destruct HP as [_ [H _]]. unfold ihP. apply H. Qed.

Lemma keptP_eq g c : keptP P g c = kept g c.
Proof.
  destruct HP as [_ [_ [Hk _]]]. unfold keptP, kept, in_range. rewrite Hk, ivP_eq, ihP_eq. reflexivity.
Qed.

Lemma bin1P_eq g m c : bin1P P g m c = bin1 g m c.
Proof. unfold bin1P, bin1. rewrite ivP_eq, ihP_eq. reflexivity. Qed.

Lemma binP_eq g cs : forall m, binP P g m cs = bin g m cs.
Proof.
  induction cs as [|c t IH]; intros m; simpl; auto. rewrite bin1P_eq. destruct (bin1 g m c); auto.
Qed.

Lemma filter_ext' {A} (p q : A -> bool) l : (forall x, p x = q x) -> filter p l = filter q l.
Proof. intros H. induction l; simpl; auto. rewrite H, IHl. reflexivity. Qed.

Lemma to_arrayP_eq g cs : to_arrayP P g cs = to_array g cs.
Proof.
  unfold to_arrayP, to_array. rewrite binP_eq. f_equal. apply filter_ext'. intros c. apply keptP_eq.
Qed.

Lemma add_frameP_eq g s cs : add_frameP P g s cs = add_frame g s cs.
Proof. unfold add_frameP, add_frame. rewrite centresP_eq. reflexivity. Qed.

Lemma stepP_eq g s o : stepP P g s o = step g s o.
Proof.
  destruct o; simpl; try reflexivity.
  - rewrite centresP_eq, add_frameP_eq. reflexivity.
  - rewrite add_frameP_eq. reflexivity.
  - destruct (st_frame s); [reflexivity|]. rewrite to_arrayP_eq. reflexivity.
Qed.

Lemma exec1P_eq g s o : exec1P P g s o = exec1 g s o.
Proof. destruct s; simpl; auto. rewrite stepP_eq. reflexivity. Qed.

Lemma execP_eq g ops : forall s, execP P g s ops = exec g s ops.
Proof.
  unfold execP, exec. induction ops as [|o t IH]; intros s; simpl; auto. rewrite exec1P_eq. apply IH.
Qed.

Theorem read_afterP_eq g ops : read_afterP P g ops = read_after g ops.
Proof.
  unfold read_afterP, read_after. rewrite execP_eq. unfold read_ofP, read_of.
  destruct (exec g (Some (init g)) ops); auto. rewrite stepP_eq. reflexivity.
Qed.

Theorem frame_afterP_eq g ops : frame_afterP P g ops = frame_after g ops.
Proof. unfold frame_afterP, frame_after. rewrite execP_eq. reflexivity. Qed.

Theorem runP_eq g ops : forall s, runP P g s ops = run g s ops.
Proof.
  induction ops as [|o t IH]; intros s; simpl; auto.
  destruct s; [|rewrite IH; reflexivity]. rewrite stepP_eq, IH. reflexivity.
Qed.
End Transfer.

(* the fixed model's own parameters satisfy the predicate (non-vacuity of params_ok) *)
Lemma std_params_ok : params_ok std_params.
Proof. repeat split. Qed.
