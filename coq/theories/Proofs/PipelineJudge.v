(* C01 — what a "no violation" verdict of the correspondence leg means, in terms of the theorems. *)
From Coq Require Import List String ZArith Bool Arith PeanoNat Lia.
From PyxelV Require Import Model.Pipeline Proofs.Pipeline Proofs.PipelineSpec.
From PyxelV Require Import Proofs.PipelineEq.
Import ListNotations.
Open Scope list_scope.

(* one judged run: the recorded calls are literally the observable projection of what `run` makes *)
Lemma agrees_run_exposure faithful run prior p n debug t nodes :
  agrees_run faithful run prior p n (Exposure debug) (Ran t nodes) = true ->
  t = map obs_of (fst (run debug p n)).
Proof.
  unfold agrees_run. intro H. rewrite !andb_true_iff in H. destruct H as [H _].
  apply trace_eqb_eq in H. exact H.
Qed.

Lemma agrees_run_observation faithful run prior p n runs t nodes :
  agrees_run faithful run prior p n (Observation runs) (Ran t nodes) = true ->
  t = flat_map (fun os => map obs_of (fst (run false (apply_overrides p os) n))) runs.
Proof. unfold agrees_run. intro H. apply trace_eqb_eq in H. exact H. Qed.

Lemma agrees_run_never_failed faithful run prior p n m cls :
  agrees_run faithful run prior p n m (Failed cls) = false.
Proof. destruct m as [d| | |]; reflexivity. Qed.

(* the run function of the second accepted reading: no model can change its configuration *)
Definition frozen_run (debug : bool) (p : pipeline) (n : nat) : list call * list capture :=
  spec_run debug (freeze p) n.

Lemma spec_ok_cases c :
  spec_ok c = true -> agrees false spec_run c = true \/ agrees false frozen_run c = true.
Proof. unfold spec_ok. intro H. apply orb_true_iff in H. exact H. Qed.

(* what "no violation reported" means for an exposure case: the recorded calls are literally the
   observable projection of the trace of the theorems — of the configuration as written, or (second
   accepted reading, only different when a growing model is present) of its frozen form *)
Lemma judgement_sound_exposure c p debug t nodes :
  from_yaml (k_doc c) = Ok p -> k_mode c = Exposure debug -> k_observed c = Ran t nodes ->
  spec_ok c = true ->
  t = map obs_of (trace_of spec_order debug p (k_steps c)) \/
  t = map obs_of (trace_of spec_order debug (freeze p) (k_steps c)).
Proof.
  intros Hy Hm Ho H. apply spec_ok_cases in H. unfold agrees in H. rewrite Hy, Ho, Hm in H.
  destruct H as [H|H]; apply agrees_run_exposure in H; [left|right]; rewrite H; f_equal.
  - apply spec_run_is_trace.
  - unfold frozen_run. apply spec_run_is_trace.
Qed.

Lemma judgement_sound_observation c p runs t nodes :
  from_yaml (k_doc c) = Ok p -> k_mode c = Observation runs -> k_observed c = Ran t nodes ->
  spec_ok c = true ->
  t = flat_map (fun os => map obs_of (trace_of spec_order false (apply_overrides p os) (k_steps c))) runs \/
  t = flat_map (fun os => map obs_of (trace_of spec_order false (freeze (apply_overrides p os)) (k_steps c))) runs.
Proof.
  intros Hy Hm Ho H. apply spec_ok_cases in H. unfold agrees in H. rewrite Hy, Ho, Hm in H.
  destruct H as [H|H]; apply agrees_run_observation in H; [left|right]; rewrite H;
    apply flat_map_ext; intro os; f_equal.
  - apply spec_run_is_trace.
  - unfold frozen_run. apply spec_run_is_trace.
Qed.
