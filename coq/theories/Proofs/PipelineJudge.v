(* C01 — what a "no violation" verdict of the correspondence leg means, in terms of the theorems. *)
From Coq Require Import List String ZArith Bool Arith PeanoNat Lia.
From PyxelV Require Import Model.Pipeline Proofs.Pipeline Proofs.PipelineSpec.
From PyxelV Require Import Proofs.PipelineEq.
Import ListNotations.
Open Scope list_scope.

(* what "no violation reported" means for an exposure case: the recorded calls are literally the
   observable projection of the trace of the theorems *)
Lemma judgement_sound_exposure c p debug t nodes :
  from_yaml (k_doc c) = Ok p -> k_mode c = Exposure debug -> k_observed c = Ran t nodes ->
  agrees false spec_run c = true ->
  t = map obs_of (trace_of spec_order debug p (k_steps c)).
Proof.
  intros Hy Hm Ho. unfold agrees, expected_failure. rewrite Hy, Ho, Hm.
  assert (E : (if debug then (if false && is_nil (snd (spec_run true p (k_steps c))) then Some "RuntimeError"%string else None) else None) = @None string)
    by (destruct debug; reflexivity).
  destruct debug; simpl andb; cbv iota; intro H; apply andb_true_iff in H; destruct H as [H _];
    apply trace_eqb_eq in H; rewrite H; f_equal; apply spec_run_is_trace.
Qed.

Lemma judgement_sound_observation c p runs t nodes :
  from_yaml (k_doc c) = Ok p -> k_mode c = Observation runs -> k_observed c = Ran t nodes ->
  agrees false spec_run c = true ->
  t = flat_map (fun os => map obs_of (trace_of spec_order false (apply_overrides p os) (k_steps c))) runs.
Proof.
  intros Hy Hm Ho. unfold agrees, expected_failure. rewrite Hy, Ho, Hm. intro H.
  apply trace_eqb_eq in H. rewrite H. apply flat_map_ext. intro os. f_equal. apply spec_run_is_trace.
Qed.
