"""Driver-side helpers: build pyxel objects from plain JSON specs (import only inside drivers)."""
from __future__ import annotations

import numpy as np


def make_detector(kind="ccd", rows=3, cols=4, pixel_vert_size=10.0, pixel_horz_size=10.0, **char):
    from pyxel import detectors as d

    geo_kw = dict(row=rows, col=cols, total_thickness=40.0, pixel_vert_size=pixel_vert_size,
                  pixel_horz_size=pixel_horz_size)
    env = d.Environment(temperature=200.0)
    ch_kw = dict(quantum_efficiency=1.0, charge_to_volt_conversion=1.0e-6, pre_amplification=1.0,
                 full_well_capacity=100000, adc_bit_resolution=16, adc_voltage_range=(0.0, 10.0))
    ch_kw.update(char)
    if kind == "ccd":
        return d.CCD(geometry=d.CCDGeometry(**geo_kw), environment=env, characteristics=d.Characteristics(**ch_kw))
    if kind == "cmos":
        return d.CMOS(geometry=d.CMOSGeometry(**geo_kw), environment=env, characteristics=d.Characteristics(**ch_kw))
    if kind == "mkid":
        return d.MKID(geometry=d.MKIDGeometry(**geo_kw), environment=env, characteristics=d.Characteristics(**ch_kw))
    if kind == "apd":
        ch = d.APDCharacteristics(roic_gain=0.8, quantum_efficiency=1.0, full_well_capacity=100000,
                                  adc_bit_resolution=16, adc_voltage_range=(0.0, 10.0),
                                  avalanche_gain=1.0, pixel_reset_voltage=5.0)
        return d.APD(geometry=d.APDGeometry(**geo_kw), environment=env, characteristics=ch)
    raise ValueError(kind)


def make_pipeline(spec: dict):
    """spec: {group: [ {func, name, enabled(optional), arguments(optional)} , ...] | None}"""
    from pyxel.pipelines import DetectionPipeline, ModelFunction

    kw = {}
    for g, models in spec.items():
        if models is None:
            kw[g] = None
        else:
            kw[g] = [ModelFunction(func=m["func"], name=m["name"], arguments=m.get("arguments"),
                                   enabled=m.get("enabled", True)) for m in models]
    return DetectionPipeline(**kw)


def make_readout(times=(1.0,), start_time=0.0, non_destructive=False, **kw):
    from pyxel.exposure import Readout

    return Readout(times=list(times) if not isinstance(times, (str, float, int)) else times,
                   start_time=start_time, non_destructive=non_destructive, **kw)


def run_exposure(detector, pipeline, readout, debug=False, pipeline_seed=None, with_inherited_coords=True,
                 outputs=None):
    import pyxel
    from pyxel.exposure import Exposure

    mode = Exposure(readout=readout, outputs=outputs, pipeline_seed=pipeline_seed)
    return pyxel.run_mode(mode=mode, detector=detector, pipeline=pipeline, debug=debug,
                          with_inherited_coords=with_inherited_coords)


def pipeline_yaml(spec: dict, key_order=None) -> str:
    """YAML text of a pipeline section (group keys in the given order)."""
    import yaml

    keys = key_order or list(spec)
    doc = {}
    for g in keys:
        models = spec[g]
        doc[g] = None if models is None else [
            dict(name=m["name"], func=m["func"], enabled=m.get("enabled", True),
                 **({"arguments": m["arguments"]} if m.get("arguments") else {}))
            for m in models
        ]
    return yaml.safe_dump({"pipeline": doc}, sort_keys=False)


def exc_info(ex: BaseException) -> dict:
    chain = []
    c = ex.__cause__ or ex.__context__
    while c is not None and len(chain) < 5:
        chain.append(dict(cls=type(c).__name__, msg=str(c)[:300]))
        c = c.__cause__ or c.__context__
    return dict(cls=type(ex).__name__, mro=[k.__name__ for k in type(ex).__mro__][:6], msg=str(ex)[:500],
                notes=[str(n)[:500] for n in getattr(ex, "__notes__", [])], chain=chain)
