"""C10 — calibration candidates map to the right parameters, inside their bounds."""
from __future__ import annotations

import json

from translator.c10 import FALLBACK, translate

from .. import core
from ..core import Broken, Ctx, Violation

PROP_FILE = "Properties/C10.v"

TRUSTED = [
    "translator/c10.py (fail-closed python-ast reader of ParameterValues.__init__/.boundaries, _set_bound, "
    "convert_to_parameters, update_processor, __init__/get_bounds, fitness): what it extracts is believed; the "
    "description it emits is also run against the implementation on every case (mismatches_g, hist_mismatches)",
    "translator/c10_norm.py: behaviour-preserving source normalisations applied before the reader (helper calls of "
    "the same module / class / package inlined with their arguments, single-assignment aliases of pure expressions "
    "substituted, guard clauses / continue == nested if-else, match on literals == if/elif, list comprehension / "
    "sum() == loop, conditional expression == if/else, tuple pack/unpack, slice() == a:b, module-level literal "
    "constants). Assumed: attribute / property loads and len() are side-effect free (an attribute chain may be read "
    "once or several times), `self.m` resolves to the method of the class that is read (no overriding subclass)",
    "correspondence harness: harness/props/c10.py generators, harness/drivers/c10.py, probes/verif_probes_c10.py "
    "(thread-local capture of the arguments a model receives), float.hex() -> exact rationals",
    "modelled, not verified: numpy slicing/assignment semantics (a[..., s:t] = f(a[..., s:t]) clamps at the end), "
    "np.array(x) copies, np.power(10, x) / math.log10 / np.log10 are within 4 ulp (2^-50 relative) of the real "
    "functions (tolerance applied on the implementation-side comparison only, never in a theorem)",
    "pygmo: proposes only vectors inside get_bounds() (every logged evaluation is checked), champions/population "
    "are individuals that were evaluated (checked: every reported individual is matched to a logged evaluation)",
    "modelled by hand, tied by correspondence only: which objects ParameterValues.__init__ accepts for `values` and "
    "whether it types them Multi or Simple (pv_accepts, the n = 0 case of norm): \"_\" and what equals it are kept, an "
    "empty container is ParameterType.Simple and kept, a non-Sequence is refused, `values == \"_\"` on a numpy array "
    "with other than one element raises; python's isinstance relation between the containers driven (str, list, "
    "tuple, numpy.ndarray, collections.UserList, generator) and the classes the source names (isinst)",
]

CLAUSES = {1: "bounds_layout", 2: "conversion_log_slices", 3: "outside_declared_bounds", 4: "reported_not_applied",
           5: "decision_vector_modified", 6: "candidate_outside_box", 7: "refusal_rule",
           8: "declaration_modified", 9: "processor_modified", 10: "parameter_count", 0: "harness_case_malformed"}

# the container the placeholders of a vector variable are handed over in -> ckind of Model/DecisionKinds.v
CKIND = {"und": "KUnd", "list": "KList", "tuple": "KTuple", "str": "KStr", "ndarray": "KArr", "userlist": "KSeq",
         "gen": "KIter"}
CONTAINER_KINDS = ["list", "tuple", "str", "ndarray", "userlist", "gen"]
YAML_KINDS = ("list", "str")


def kind_name(v):
    return "und" if v["n"] is None else v.get("kind", "list")


def spec_n(v):
    """None: the declaration means a scalar ("_" or the one-element array equal to it), else the vector's width"""
    return None if v["n"] is None or v.get("kind") == "ndarray" else v["n"]


def h(x: float) -> str:
    return float(x).hex()


# ------------------------------------------------------------------------------------------ generators


def lin_pair(r):
    lo = r.randrange(-1024, 1024) / 16.0
    return lo, lo + r.randrange(1, 256) / 16.0


def log_pair(r):
    a = r.randrange(-9, 9)
    b = a + r.randrange(1, 6)
    return float(f"1e{a}"), float(f"1e{b}"), a, b


def gen_var(r, idx, shape=None, log=None, per=None, kind=None):
    """-> (payload var, box info [(kind, lo, hi)] per component in decision space)."""
    model = r.randrange(2)
    if shape is None:
        shape = "s" if r.random() < 0.4 else r.choice([1, 2, 2, 3, 3, 4])
    n = None if shape == "s" else int(shape)
    if kind == "str" and n == 1:
        kind = "list"             # "_" * 1 IS the scalar declaration
    if log is None:
        log = r.random() < 0.45
    if per is None:
        per = (n is not None) and r.random() < 0.55
    per = per and n is not None and n > 0
    w = 1 if n is None else n
    comps = []
    pairs = []
    for _ in range(w if per else 1):
        if log:
            lo, hi, a, b = log_pair(r)
            pairs.append((lo, hi))
            comps.append(("log", float(a), float(b)))
        else:
            lo, hi = lin_pair(r)
            pairs.append((lo, hi))
            comps.append(("lin", lo, hi))
    if per:
        bnd = ["per", [[h(lo), h(hi)] for lo, hi in pairs]]
    else:
        bnd = ["shared", h(pairs[0][0]), h(pairs[0][1])]
        comps = comps * w
    v = dict(key=f"m{model}.p{idx}", model=model, arg=f"p{idx}", n=n, log=bool(log), bnd=bnd)
    if kind not in (None, "list") and n is not None:
        v["kind"] = kind
    return v, comps


def point(r, comp, how):
    kind, lo, hi = comp
    if how == "lo":
        return lo
    if how == "hi":
        return hi
    if how == "out":
        return hi + (1.0 if kind == "log" else r.randrange(1, 64) / 16.0) if r.random() < 0.5 else \
            lo - (1.0 if kind == "log" else r.randrange(1, 64) / 16.0)
    if kind == "log":
        k = float(r.randrange(int(lo), int(hi) + 1))
        if how == "half" and k < hi:
            return k + 0.5          # 10**x is irrational: only bracketed by its decade in the comparison
        return k
    return lo + (hi - lo) * r.randrange(0, 9) / 8.0


def gen_xs(r, comps, n_inside=3, n_out=1):
    xs, evaluate = [], []
    for how in ["lo", "hi"] + ["in"] * n_inside + ["half"]:
        evaluate.append(len(xs))
        xs.append([point(r, c, how) for c in comps])
    for _ in range(n_out):
        x = [point(r, c, "in") for c in comps]
        if x:
            j = r.randrange(len(x))
            x[j] = point(r, comps[j], "out")
        xs.append(x)
    return [[h(v) for v in x] for x in xs], evaluate


FIXED_LAYOUTS = [
    # (shape, log, per) ... ; the layouts the property text names first
    [(3, False, False), ("s", False, False)],                 # vector before scalar
    [(3, True, False), ("s", False, False)],                  # log vector before linear scalar
    [(3, False, True), ("s", True, False)],                   # per-component vector before log scalar
    [("s", False, False), (4, True, True), ("s", True, False)],
    [(2, True, True), (2, False, True), ("s", False, False), (3, True, False)],
    [("s", True, False), ("s", False, False), ("s", True, False)],
    [(1, True, True), (1, False, False), ("s", True, False)],
    [(4, False, True)],
    [(2, False, False), (2, True, False), (2, False, False), (2, True, False)],
    [(0, False, False), ("s", True, False), (2, False, True)],  # empty list of placeholders (width 0)
    # as in tests/calibration: scalar first, then log vectors
    [("s", False, False), (4, True, False), (4, True, False)],
]


# layouts whose vector variables come in other containers than a list: (shape, log, per, container)
KIND_LAYOUTS = [
    [(3, True, False, "tuple"), ("s", False, False)],               # log vector in a tuple before a linear scalar
    [("s", False, False), (2, False, True, "tuple"), ("s", True, False)],
    [(2, True, False, "str"), ("s", False, False)],                 # values="__"
    [(1, True, False, "ndarray"), (2, False, False, "list")],       # np.array(["_"]) == "_": a scalar declaration
    [(2, False, True, "userlist"), ("s", True, False)],
    [(0, True, False, "tuple"), ("s", False, False)],               # C10-F2: an EMPTY container is kept as it is
    [(0, True, False, "str"), ("s", False, False)],
    [("s", True, False), (0, False, False, "userlist"), (2, True, False, "list")],
    [(2, False, False, "gen"), ("s", False, False)],                # a generator is not a Sequence
    [(2, True, False, "ndarray")],                                  # `values == "_"` is ambiguous
    [(3, False, False, "tuple"), (2, True, True, "tuple")],
    [(3, False, False, "list"), (0, True, False, "list"), ("s", True, False)],   # an empty list AFTER a vector
    [(2, True, True, "tuple"), (0, False, False, "tuple"), ("s", False, False)],
]
# written as YAML and loaded by pyxel.configuration.loads
YAML_LAYOUTS = [
    [(3, True, False, "list"), ("s", False, False)],
    [("s", True, False), (2, False, True, "list"), (2, True, False, "str")],
    [(0, False, False, "list"), ("s", True, False), (0, True, False, "str")],
]


def make_case(r, layout=None, mode="direct", p_kind=0.0, **extra):
    if layout is None:
        layout = [(None, None, None)] * r.choice([1, 2, 2, 3, 3, 4, 5])
    vars_, comps = [], []
    for i, entry in enumerate(layout):
        shape, log, per = entry[:3]
        kind = entry[3] if len(entry) > 3 else None
        if kind is None and p_kind and r.random() < p_kind:
            kind = r.choice(YAML_KINDS if extra.get("via") == "yaml" else ["tuple", "tuple", "str", "userlist", "ndarray"])
        v, c = gen_var(r, i, shape, log, per, kind)
        if v.get("kind") == "ndarray" and v["n"] == 1:
            c = c[:1]
        vars_.append(v)
        comps += c
    case = dict(mode=mode, vars=vars_, xs=[], evaluate=[], **extra)
    if mode == "direct":
        case["xs"], case["evaluate"] = gen_xs(r, comps)
    return case


def malformed_case(r):
    """Declarations the constructor must refuse (or, for control, nearly identical ones it must accept)."""
    layout = [(None, None, None)] * r.choice([1, 2, 3])
    case = make_case(r, layout)
    k = r.randrange(len(case["vars"]))
    v = case["vars"][k]
    kind = r.choice(["no_bounds", "per_on_scalar", "wrong_count", "log_nonpositive", "control"])
    if kind == "no_bounds":
        v["bnd"] = None
    elif kind == "per_on_scalar":
        v["n"] = None
        lo, hi = lin_pair(r)
        v["bnd"], v["log"] = ["per", [[h(lo), h(hi)]]], False
    elif kind == "wrong_count":
        v["n"] = r.choice([1, 2, 3])
        m = v["n"] + r.choice([-1, 1, 2])
        if m < 1:
            m = v["n"] + 1
        v["log"] = False
        v["bnd"] = ["per", [[h(a), h(b)] for a, b in (lin_pair(r) for _ in range(m))]]
    elif kind == "log_nonpositive":
        v["n"], v["log"] = None, True
        v["bnd"] = ["shared", h(r.choice([0.0, -1.0, -0.5])), h(10.0)]
    case["xs"], case["evaluate"] = [], []
    case["malformed"] = kind
    return case


KINDS = [("s", False, False), ("s", True, False), (2, False, False), (2, True, False), (2, False, True), (2, True, True)]


def small_scope_layouts(max_vars=3):
    """Every list of 1..max_vars variables over the six kinds (scalar / vector x linear / logarithmic x shared /
    per-component boundaries): 6 + 36 + 216 layouts."""
    import itertools
    out = []
    for n in range(1, max_vars + 1):
        out += [list(t) for t in itertools.product(KINDS, repeat=n)]
    return out


def container_scope_layouts(r):
    """Every list of 1..2 variables over: "_" and each container kind with 0, 1, 2 placeholders (19 shapes)."""
    import itertools
    shapes = [("s", None)] + [(n, k) for k in CONTAINER_KINDS for n in (0, 1, 2) if not (k == "str" and n == 1)]
    out = []
    for m in (1, 2):
        for t in itertools.product(shapes, repeat=m):
            out.append([(n, r.random() < 0.5, False if n in ("s", 0) else r.random() < 0.4, k) for n, k in t])
    return out


def gen_history(r, layout=None, n_ops=None, p_kind=0.0):
    """A history on shared objects: several problem constructions from the same ParameterValues objects and the
    same processor, interleaved with get_bounds / convert_to_parameters / fitness / update_processor on any of
    the problems built so far."""
    if layout is None:
        layout = [(None, None, None)] * r.choice([1, 2, 2, 3, 3, 4])
        if r.random() < 0.5:
            # the kind whose arrays are views on the kept boundaries: a logarithmic vector with its own pairs
            layout[r.randrange(len(layout))] = (r.choice([2, 3, 4]), True, True)
    case = make_case(r, layout, p_kind=p_kind)
    comps = []
    for v in case["vars"]:
        w = 1 if spec_n(v) is None else v["n"]
        b = v["bnd"]
        pairs = [(b[1], b[2])] * w if b[0] == "shared" else [tuple(x) for x in b[1]]
        for lo, hi in pairs:
            lo, hi = float.fromhex(lo), float.fromhex(hi)
            if v["log"]:
                import math
                comps.append(("log", float(round(math.log10(lo))), float(round(math.log10(hi)))))
            else:
                comps.append(("lin", lo, hi))

    def vec(how):
        return [h(point(r, c, how)) for c in comps]

    n_ops = n_ops or r.choice([4, 5, 6, 7, 8, 9])
    ops, built = [["build"]], 1
    while len(ops) < n_ops:
        k = r.random()
        if k < 0.28:
            ops.append(["build"])
            built += 1
        elif k < 0.40:
            ops.append(["bounds", r.randrange(built)])
        elif k < 0.55:
            ops.append(["convert", r.randrange(built), vec(r.choice(["lo", "hi", "in", "half"]))])
        elif k < 0.80:
            ops.append(["fitness", r.randrange(built), vec(r.choice(["lo", "hi", "in", "in"]))])
        else:
            ops.append(["update", r.randrange(built), vec(r.choice(["lo", "hi", "in"]))])
    if built < 2:
        ops.append(["build"])
        built += 1
    # the problem built last and the one built first are both used after every construction
    ops.append(["bounds", 0])
    ops.append(["fitness", built - 1, vec("in")])
    ops.append(["fitness", 0, vec("hi")])
    ops.append(["bounds", built - 1])
    return dict(mode="hist", vars=case["vars"], ops=ops)


def gen_calib2(r, layout, runs):
    case = make_case(r, layout, mode="calib2")
    return dict(mode="calib2", vars=case["vars"],
                runs=[dict(algo=a, seed=sd, islands=i, generations=2, pop=8, evolutions=2, num_best=3)
                      for a, sd, i in runs])


HIST_LAYOUTS = [FIXED_LAYOUTS[k] for k in (2, 3, 4, 6, 7, 1, 10, 8)]


def gen_histories(ctx: Ctx, n_hist: int, calib2s: list):
    r = ctx.rng("histories")
    cases = [gen_history(r, lay) for lay in HIST_LAYOUTS]
    if not ctx.quick:
        # exhaustive small scope: every list of 1..2 variables over the six kinds, one fixed-shape history each
        cases += [gen_history(r, lay, n_ops=5) for lay in small_scope_layouts(2)]
    # the same objects declared in other containers: a tuple kept for several constructions, a refused empty one
    cases += [gen_history(r, lay, n_ops=6) for lay in (KIND_LAYOUTS[0], KIND_LAYOUTS[4], KIND_LAYOUTS[5])]
    k = 0
    while len(cases) < n_hist:
        k += 1
        cases.append(gen_history(r, p_kind=0.5 if k % 3 == 0 else 0.0))
    for k, runs in enumerate(calib2s):
        cases.append(gen_calib2(r, HIST_LAYOUTS[k % len(HIST_LAYOUTS)], runs))
    return cases


def gen_cases(ctx: Ctx, n_direct: int, n_malformed: int, calibs: list):
    r = ctx.rng("cases")
    cases = []
    for f in sorted((core.VERIF / "harness" / "corpus" / "C10").glob("*.json")):
        cases.append(json.loads(f.read_text()))
    for lay in FIXED_LAYOUTS:
        cases.append(make_case(r, lay))
        cases.append(make_case(r, lay))
    for lay in KIND_LAYOUTS:
        cases.append(make_case(r, lay))
    for lay in YAML_LAYOUTS:
        cases.append(make_case(r, lay, via="yaml"))
    if not ctx.quick:
        # exhaustive small scope: every list of 1..3 variables over the six kinds
        cases += [make_case(r, lay) for lay in small_scope_layouts(3)]
        # ... and every list of 1..2 variables over "_" and every container with 0 / 1 / 2 placeholders
        cases += [make_case(r, lay) for lay in container_scope_layouts(r)]
    k = 0
    while len(cases) < n_direct:
        # one case in four hands some vectors over in another container, one in eight goes through YAML
        k += 1
        if k % 8 == 3:
            cases.append(make_case(r, p_kind=0.3, via="yaml"))
        else:
            cases.append(make_case(r, p_kind=0.5 if k % 4 == 1 else 0.0))
    for _ in range(n_malformed):
        cases.append(malformed_case(r))
    for k, (algo, seed, islands) in enumerate(calibs):
        lay = FIXED_LAYOUTS[[1, 2, 4, 3, 6, 8][k % 6]]
        extra = {}
        if k % 3 == 0:
            # the vector variables are handed over in a tuple (Python API) ...
            lay = [e if e[0] == "s" else (*e, "tuple") for e in lay]
        elif k % 3 == 1:
            # ... or the declaration comes from a YAML text
            extra["via"] = "yaml"
        cases.append(make_case(r, lay, mode="calib", algo=algo, seed=seed, islands=islands,
                               generations=2, pop=8, evolutions=2, num_best=3, **extra))
    # declarations of total width one (C10-F1: the island's row became a 0-d array in the final application)
    for k, lay in enumerate([] if ctx.quick else WIDTH_ONE_LAYOUTS):      # quick: the corpus case
        cases.append(make_case(r, lay, mode="calib", algo="sade", seed=20 + k, islands=1 + k % 2,
                               generations=1, pop=8, evolutions=1, num_best=2))
    return cases


WIDTH_ONE_LAYOUTS = [[("s", True, False)], [("s", False, False)], [(1, True, True)], [(1, False, False)]]


# ------------------------------------------------------------------------------------------ Coq emission


def q(hx: str) -> str:
    """Exact rational of a binary64 value.  Non-finite values (only a broken implementation produces them)
    become sentinels beyond the binary64 range, so that they equal nothing and lie in no box."""
    import math
    x = float.fromhex(hx)
    if math.isnan(x):
        return core.cq(2 ** 1101)
    if math.isinf(x):
        return core.cq(2 ** 1100 if x > 0 else -(2 ** 1100))
    return core.cq_of_float(x)


def raw(hx: str) -> str:
    return f"Raw {q(hx)}"


def emit_var(v) -> str:
    b = v["bnd"]
    if b is None:
        bnd = "NoB"
    elif b[0] == "shared":
        bnd = f"(Shared ({raw(b[1])}) ({raw(b[2])}))"
    else:
        bnd = "(PerComp " + core.clist(f"({raw(lo)}, {raw(hi)})" for lo, hi in b[1]) + ")"
    shape = "None" if spec_n(v) is None else f"(Some {core.cnat(v['n'])})"
    return f"mkVar {core.cstr(v['key'])} {shape} {core.cbool(v['log'])} {bnd}"


def emit_pval(kind, n) -> str:
    # an object of a kind the harness does not know equals no prediction
    return f"({CKIND.get(kind, 'KIter')}, {core.cnat(n if kind in CKIND else 99)})"


def emit_applied(a) -> str:
    if a is None:
        return "None"
    items = []
    for key, kind, vals in a:
        if kind == "s" and len(vals) == 1:
            items.append(f"({core.cstr(key)}, AScalar {q(vals[0])})")
        elif kind == "v":
            items.append(f"({core.cstr(key)}, AVector {core.clist(q(x) for x in vals)})")
        else:  # missing / wrong kind: a vector of impossible length so that no specification accepts it
            items.append(f"({core.cstr(key + '?' + kind)}, AVector nil)")
    return f"(Some {core.clist(items)})"


def emit_probe(p) -> str:
    conv = "None" if p["conv"] is None else f"(Some {core.clist(q(x) for x in p['conv'])})"
    return (f"{{| p_x := {core.clist(q(x) for x in p['x'])}; p_x_after := {core.clist(q(x) for x in p['x_after'])}; "
            f"p_conv := {conv}; p_applied := {emit_applied(p['applied'])} |}}")


def emit_case(case, obs) -> str:
    vs = core.clist(emit_var(v) for v in case["vars"])
    if "lb" in obs:
        bounds = f"(Some ({core.clist(q(x) for x in obs['lb'])}, {core.clist(q(x) for x in obs['ub'])}))"
    else:
        bounds = "None"
    probes = core.clist(emit_probe(strip_bystanders(p)) for p in obs.get("probes", []))
    inner = f"{{| c_vars := {vs}; c_bounds := {bounds}; c_probes := {probes} |}}"
    decl = core.clist(emit_pval(kind_name(v), 1 if v["n"] is None else v["n"]) for v in case["vars"])
    vals = "None" if obs.get("vals") is None else "(Some " + core.clist(emit_pval(k, n) for k, n in obs["vals"]) + ")"
    npar = "None" if obs.get("npar") is None else f"(Some {core.cnat(obs['npar'])})"
    return f"{{| kc_case := {inner}; kc_decl := {decl}; kc_vals := {vals}; kc_npar := {npar} |}}"


SEVEN = (7.0).hex()


def strip_bystanders(p):
    """The two `fixed` arguments must still be the number 7.0; that comparison is structural (the value is a
    constant of the harness), so it is folded into the applied list: a changed bystander turns the list
    into one that no specification accepts."""
    a = p.get("applied")
    if not a:
        return p
    core_part = [e for e in a if not e[0].endswith(".fixed")]
    by = [e for e in a if e[0].endswith(".fixed")]
    ok = all(kind == "s" and vals == [SEVEN] for _, kind, vals in by) and len(by) == 2
    if not ok:
        core_part = core_part + [["bystander_changed", "other", []]]
    return dict(p, applied=core_part)


def emit_file(pairs) -> str:
    body = ";\n  ".join(emit_case(c, o) for c, o in pairs)
    return ("From Coq Require Import ZArith QArith List String.\n"
            "From PyxelV Require Import Model.Decision Model.DecisionSrc Model.DecisionKinds.\n"
            "From PyxelGen Require Import Gen_C10.\n"
            "Import ListNotations.\nLocal Open Scope Q_scope.\n"
            f"Definition cases : list c10_kcase := [\n  {body}\n].\n"
            "Eval vm_compute in kmismatches src_kinds src_desc cases.\n"
            "Eval vm_compute in kviolation_details cases.\n")


# ---- histories


def emit_qvar(v) -> str:
    """An observed ParameterValues object as @var Q; anything of an unexpected kind becomes unmatchable."""
    key = v["key"]
    n, log, b = v["n"], v["log"], v["bnd"]
    if n == "other":
        key, n = key + "?values", None
    if log == "other":
        key, log = key + "?logarithmic", False
    if b is None:
        bnd = "NoB"
    elif b[0] == "shared":
        bnd = f"(Shared ({q(b[1])}) ({q(b[2])}))"
    elif b[0] == "per":
        bnd = "(PerComp " + core.clist(f"({q(lo)}, {q(hi)})" for lo, hi in b[1]) + ")"
    else:
        key, bnd = key + "?boundaries", "NoB"
    shape = "None" if n is None else f"(Some {core.cnat(n)})"
    return f"mkVar {core.cstr(key)} {shape} {core.cbool(log)} {bnd}"


def emit_config(a) -> str:
    items = []
    for key, kind, vals in a:
        if kind == "s" and len(vals) == 1:
            items.append(f"({core.cstr(key)}, AScalar {q(vals[0])})")
        elif kind == "v":
            items.append(f"({core.cstr(key)}, AVector {core.clist(q(x) for x in vals)})")
        else:
            items.append(f"({core.cstr(key + '?' + kind)}, AVector nil)")
    return core.clist(items)


def emit_snapshot(sn) -> str:
    return (f"{{| sn_vars := {core.clist(emit_qvar(v) for v in sn['vars'])}; sn_proc := {emit_config(sn['proc'])}; "
            f"sn_own := {core.clist(emit_config(c) for c in sn['own'])} |}}")


def initial_config(case):
    cfg = []
    for v in case["vars"]:
        z = (0.0).hex()
        cfg.append([v["key"], "s", [z]] if spec_n(v) is None else [v["key"], "v", [z] * v["n"]])
    return cfg + [["m0.fixed", "s", [SEVEN]], ["m1.fixed", "s", [SEVEN]]]


def declared_snapshot(case):
    return dict(vars=[dict(key=v["key"], n=spec_n(v), log=v["log"], bnd=v["bnd"]) for v in case["vars"]],
                proc=initial_config(case), own=[])


PKIND = {"convert": "PConvert", "fitness": "PFitness", "update": "PUpdate"}


def hist_steps(case, obs):
    """The observed steps; a refusal of the ParameterValues objects themselves is a refused first build."""
    if "steps" in obs:
        return obs["steps"]
    return [dict(op="build", refused=obs.get("refused_objects", "?"), snap=declared_snapshot(case))]


def emit_hist(case, obs, snaps: dict) -> str:
    steps = []
    for st in hist_steps(case, obs):
        txt = emit_snapshot(st["snap"])
        name = snaps.setdefault(txt, f"sn_{len(snaps)}")
        if st["op"] == "build":
            hop = "HBuild None" if "lb" not in st else \
                f"HBuild (Some ({core.clist(q(x) for x in st['lb'])}, {core.clist(q(x) for x in st['ub'])}))"
        elif st["op"] == "bounds":
            hop = f"HBounds {core.cnat(st['pid'])} ({core.clist(q(x) for x in st['lb'])}, {core.clist(q(x) for x in st['ub'])})"
        else:
            hop = f"HProbe {core.cnat(st['pid'])} {PKIND[st['op']]} ({emit_probe(strip_bystanders(st))})"
        steps.append(f"{{| h_op := {hop}; h_snap := {name} |}}")
    vs = core.clist(emit_var(v) for v in case["vars"])
    decl = core.clist(emit_pval(kind_name(v), 1 if v["n"] is None else v["n"]) for v in case["vars"])
    return (f"({decl}, {{| hc_vars := {vs}; hc_proc := {emit_config(initial_config(case))}; "
            f"hc_steps := {core.clist(steps)} |}})")


def emit_hist_file(pairs) -> str:
    snaps: dict = {}
    body = ";\n  ".join(emit_hist(c, o, snaps) for c, o in pairs)
    defs = "".join(f"Definition {name} : snapshot := {txt}.\n" for txt, name in snaps.items())
    return ("From Coq Require Import ZArith QArith List String.\n"
            "From PyxelV Require Import Model.Decision Model.DecisionSrc Model.DecisionKinds.\n"
            "From PyxelGen Require Import Gen_C10.\n"
            "Import ListNotations.\nLocal Open Scope Q_scope.\n"
            + defs +
            f"Definition hists : list (list pval * c10_hist) := [\n  {body}\n].\n"
            "Eval vm_compute in khist_mismatches src_desc hists.\n"
            "Eval vm_compute in khist_details hists.\n")


# ------------------------------------------------------------------------------------------ decision inputs


def layout_class(case):
    vs = case["vars"]
    first_vec = next((i for i, v in enumerate(vs) if v["n"] is not None), None)
    vec_before_scalar = first_vec is not None and any(v["n"] is None for v in vs[first_vec + 1:])
    odd = sorted({("empty " if v["n"] == 0 else "") + v["kind"] for v in vs if v.get("kind", "list") != "list"
                  and v["n"] is not None})
    return dict(vector_before_scalar=vec_before_scalar, any_log=any(v["log"] for v in vs),
                any_per_component=any(v["bnd"] and v["bnd"][0] == "per" for v in vs),
                total_width_one=sum(1 if v["n"] is None else v["n"] for v in vs) == 1,
                containers="+".join(odd) if odd else "list")


def to_violation(case, obs, clauses, pb) -> Violation:
    clause = CLAUSES.get(clauses[0], f"clause{clauses[0]}")
    small = dict(case)
    observed = {k: obs[k] for k in ("lb", "ub", "refused", "msg") if k in obs}
    tag = None
    if 0 <= pb < len(obs.get("probes", [])):
        p = obs["probes"][pb]
        tag = p["tag"]
        observed["probe"] = p
        observed["x_float"] = [repr(float.fromhex(v)) for v in p["x"]]
        if p.get("conv"):
            observed["conv_float"] = [repr(float.fromhex(v)) for v in p["conv"]]
        if case.get("mode", "direct") == "direct":
            small["xs"] = [p["x"]]
            small["evaluate"] = [0] if p["applied"] is not None else []
    sig = dict(clause=clause, tag=tag, **layout_class(case))
    if "malformed" in case:
        sig["malformed"] = case["malformed"]
    what = (f"{clause} ({', '.join(CLAUSES.get(c, str(c)) for c in clauses)}) on "
            f"{[(v['key'], 'scalar' if v['n'] is None else (v['n'] if v.get('kind', 'list') == 'list' else (v['kind'], v['n'])), 'log' if v['log'] else 'lin') for v in case['vars']]}"
            + (" declared in YAML" if case.get("via") == "yaml" else "")
            + (f" via {tag}" if tag else ""))
    return Violation(clause=clause, case=small, observed=observed,
                     expected="bounds, conversion and assignment use the declared slices; log only on log slices; "
                              "parameters inside the declared boundaries; reported == applied; x unchanged",
                     what=what, sig=sig)


def parse_details(text):
    """flat [index, locus, n, clause...]* -> {index: (clauses, locus)}"""
    flat = core.parse_int_list(text)
    det, i = {}, 0
    while i < len(flat):
        idx, loc, n = flat[i], flat[i + 1], flat[i + 2]
        det[idx] = (flat[i + 3:i + 3 + n], loc)
        i += 3 + n
    return det


def chunked(pairs, weight_of, cap, tag, emit):
    files, chunks = {}, {}
    cur, weight, k = [], 0, 0
    for c, o in pairs:
        wgt = weight_of(c, o)
        if cur and weight + wgt > cap:
            files[f"{tag}_{k:03d}"], chunks[f"{tag}_{k:03d}"] = emit(cur), cur
            cur, weight, k = [], 0, k + 1
        cur.append((c, o))
        weight += wgt
    if cur:
        files[f"{tag}_{k:03d}"], chunks[f"{tag}_{k:03d}"] = emit(cur), cur
    return files, chunks


def is_hist(c):
    return c.get("mode") in ("hist", "calib2")


def correspondence(ctx: Ctx, cases, tag="c", workers=8):
    """Direct / calibration cases and histories together: one driver pool, one batch of case files.
    -> (mism, viol, pairs, hmism, hviol, hpairs)"""
    obs = core.run_driver(ctx, "c10", cases, workers=workers)
    pairs, hpairs = [], []
    for c, o in zip(cases, obs):
        if "crash" in o or "driver_error" in o or "calib_error" in o:
            ctx.broken.append(Broken("correspondence", "implementation driver failed", json.dumps(o)[:700], c))
            continue
        (hpairs if is_hist(c) else pairs).append((c, o))
    files, chunks = chunked(pairs, lambda c, o: 1 + len(o.get("probes", [])), 500, tag, emit_file)
    hfiles, hchunks = chunked(hpairs, lambda c, o: 2 + len(hist_steps(c, o)), 90, tag + "h", emit_hist_file)
    res = core.coq_eval_many(ctx, {**files, **hfiles}, timeout=900, par=workers)
    mism, viol, hmism, hviol = [], [], [], []
    for name in sorted(files):
        ok, evals, se = res[name]
        chunk = chunks[name]
        if not ok or len(evals) != 2:
            ctx.broken.append(Broken("correspondence", f"case file {name}.v did not evaluate", core.tail(se, 15)))
            continue
        codes = core.parse_int_list(evals[0])
        for i, code in zip(codes[0::2], codes[1::2]):
            if code & 1:
                mism.append(chunk[i])
            if code & 2:
                ctx.gen_mismatch.append(chunk[i])
            if code & 4:
                ctx.kind_mismatch.append(chunk[i])
        for i, (cl, pb) in sorted(parse_details(evals[1]).items()):
            viol.append((chunk[i][0], chunk[i][1], cl, pb))
    for name in sorted(hfiles):
        ok, evals, se = res[name]
        chunk = hchunks[name]
        if not ok or len(evals) != 2:
            ctx.broken.append(Broken("correspondence", f"case file {name}.v did not evaluate", core.tail(se, 15)))
            continue
        hmism += [chunk[i] for i in core.parse_int_list(evals[0])]
        for i, (cl, st) in sorted(parse_details(evals[1]).items()):
            hviol.append((chunk[i][0], chunk[i][1], st, cl))
    for c, o in pairs:
        n = len(o.get("probes", []))
        ctx.count("evaluations", max(n, 1))
        ctx.count("cases")
        ctx.dist("mode", c.get("malformed") and "malformed" or c.get("mode", "direct"))
        ctx.dist("declared_via", c.get("via", "python api"))
        for v in c["vars"]:
            ctx.dist("container", ("empty " if v["n"] == 0 else "") + kind_name(v))
        ctx.dist("refused_at", o.get("stage", "-") if "refused" in o else "built")
        ctx.dist("n_vars", len(c["vars"]))
        ctx.dist("outcome", "refused" if "refused" in o else "built")
        for p in o.get("probes", []):
            ctx.dist("probe", p["tag"])
        lc = layout_class(c)
        ctx.dist("containers_of_case", lc["containers"])
        ctx.dist("vector_before_scalar", lc["vector_before_scalar"])
        for v in c["vars"]:
            ctx.dist("var_kind", ("scalar" if v["n"] is None else "vector") + ("/log" if v["log"] else "/lin")
                     + ("/per" if v["bnd"] and v["bnd"][0] == "per" else "/shared"))
    for c, o in hpairs:
        steps = hist_steps(c, o)
        ctx.count("evaluations", len(steps))
        ctx.count("histories")
        ctx.dist("mode", c["mode"])
        ctx.dist("history_builds", sum(1 for st in steps if st["op"] == "build"))
        ctx.dist("history_containers", layout_class(c)["containers"])
        ctx.dist("history_has_log_vector_per_component",
                 any(v["n"] is not None and v["log"] and v["bnd"] and v["bnd"][0] == "per" for v in c["vars"]))
        ctx.dist("history_reuses_earlier_problem_after_later_build", any(
            st["op"] != "build" and st.get("pid", 0) < sum(1 for t in steps[:k] if t["op"] == "build") - 1
            for k, st in enumerate(steps)))
        ctx.dist("history_steps", min(len(steps), 14) if c["mode"] == "hist" else "calibration runs")
        for st in steps:
            ctx.dist("history_op", st.get("tag") or st["op"])
        for v in c["vars"]:
            ctx.dist("history_var_kind", ("scalar" if v["n"] is None else "vector") + ("/log" if v["log"] else "/lin")
                     + ("/per" if v["bnd"] and v["bnd"][0] == "per" else "/shared"))
    return mism, viol, pairs, hmism, hviol, hpairs


def hist_layout_class(case, steps):
    return dict(layout_class(case), builds=sum(1 for st in steps if st["op"] == "build"))


def to_violation_hist(case, obs, k, clauses) -> Violation:
    """k = index of the first offending step."""
    steps = hist_steps(case, obs)
    clause = CLAUSES.get(clauses[0], f"clause{clauses[0]}")
    small = dict(case)
    if case["mode"] == "hist" and "steps" in obs:
        small["ops"] = case["ops"][:k + 1]        # the history up to the offending operation
    st = steps[k] if 0 <= k < len(steps) else {}
    observed = dict(step=k, op=st.get("op"), tag=st.get("tag"), pid=st.get("pid"))
    for key in ("lb", "ub", "refused", "msg", "x", "conv", "applied", "error"):
        if key in st:
            observed[key] = st[key]
    for key in ("lb", "ub", "x", "conv"):
        if st.get(key):
            observed[key + "_float"] = [repr(float.fromhex(v)) for v in st[key]]
    if st.get("snap"):
        observed["objects_after"] = st["snap"]
    builds_before = sum(1 for t in steps[:k + 1] if t["op"] == "build")
    sig = dict(clause=clause, tag=st.get("tag") or st.get("op"), history=True, builds=min(builds_before, 2),
               **layout_class(case))
    what = (f"{clause} ({', '.join(CLAUSES.get(c, str(c)) for c in clauses)}) at step {k} "
            f"({st.get('tag') or st.get('op')}) of a history with {builds_before} problem construction(s) on the same "
            f"objects: {[(v['key'], 'scalar' if v['n'] is None else v['n'], 'log' if v['log'] else 'lin', (v['bnd'] or ['none'])[0]) for v in case['vars']]}")
    return Violation(clause=clause, case=small, observed=observed,
                     expected="after any history on the same ParameterValues / processor objects the declared boundaries, "
                              "placeholders and configured values are unchanged and every problem, conversion and "
                              "assignment is what the declaration alone prescribes",
                     what=what, sig=sig)


def run(ctx: Ctx):
    ctx.gen_mismatch = []
    ctx.kind_mismatch = []
    ctx.trusted += TRUSTED
    ctx.assumptions += [
        "boundaries of logarithmic variables are positive (enforced by the code for scalars; hypothesis of "
        "C10_in_bounds for vectors, where np.log10 yields NaN/-inf that pygmo refuses later)",
        "decision vectors have the dimension of get_bounds() (pygmo guarantees it; len(x) = total width is a "
        "hypothesis of the theorems)",
        "distinct keys for distinct variables",
        "nobody but the modelled operations writes to the shared objects during a history (the caller does not edit the "
        "list returned by get_bounds, the ParameterValues or the arrays it handed over)",
    ]
    try:
        gen = {"Gen_C10.v": translate(ctx.repo)}
    except core.TranslationError as ex:
        ctx.broken.append(Broken("translation", "translator/c10.py (walks of fitting_datatree.py / parameter_values.py)",
                                 str(ex)))
        ctx.log(f"translation failed (continuing with the description of the unchanged tree): {ex}")
        gen = {"Gen_C10.v": FALLBACK}
    # the source normalisations the translator relies on: normalised == as written, on functions exercising every rule
    try:
        from translator.c10_norm import selftest
        ctx.cov["normaliser_selftest_comparisons"] = selftest()
    except Exception as ex:  # noqa: BLE001
        ctx.broken.append(Broken("translation", "translator/c10_norm.py (self-test of the source normalisations)",
                                 f"{type(ex).__name__}: {ex}"[:600]))
    core.proof_leg(ctx, gen, PROP_FILE)
    # the case files need the generated description even when the property file no longer compiles
    gdir = ctx.build / "gen"
    if not (gdir / "Gen_C10.vo").exists():
        gdir.mkdir(parents=True, exist_ok=True)
        (gdir / "Gen_C10.v").write_text(gen["Gen_C10.v"])
        core.coqc(ctx, gdir / "Gen_C10.v", [(gdir, "PyxelGen")], 300)

    calibs = [("sade", 1, 1), ("sga", 2, 1)] if ctx.quick else \
        [(a, s, i) for a in ("sade", "sga", "nlopt") for s in (1, 2) for i in (1, 2)][:12]
    cases = gen_cases(ctx, ctx.budget(150, 900), ctx.budget(30, 150), calibs)
    calib2s = [[("sade", 1, 2), ("sga", 2, 2)]] if ctx.quick else \
        [[("sade", 1, 1), ("sga", 2, 1)], [("sga", 3, 2), ("sade", 4, 2), ("nlopt", 5, 1)],
         [("nlopt", 6, 1), ("sade", 7, 1)], [("sade", 8, 2), ("sade", 8, 2)]]
    hcases = gen_histories(ctx, ctx.budget(40, 300), calib2s)
    # the slow payloads (real calibrations) first, so that the pool is busy to the end
    allc = sorted(cases + hcases, key=lambda c: 0 if c.get("mode") in ("calib", "calib2") else 1)
    mism, viol, pairs, hmism, hviol, hpairs = correspondence(ctx, allc)
    seen = set()
    for c, o in pairs:
        if len(c["vars"]) >= 2 or any(v["n"] is not None for v in c["vars"]):
            seen.add(json.dumps([(v["n"], v["log"], v["bnd"]) for v in c["vars"]], sort_keys=True))
    ctx.cov["distinct_nontrivial"] = len(seen)
    ctx.cov["rule"] = ("one case = one declaration (list of variables) driven through the real ModelFittingDataTree with "
                       "both corners, interior dyadic points, decade points for logarithmic slices, one vector outside "
                       "the box (conversion only), via convert_to_parameters (1-D, 2-D, DataArray), fitness (probe model "
                       "arguments) and update_processor; plus real calibrations whose every logged evaluation, champion "
                       "and best individual is checked. distinct = distinct declarations; non-trivial = at least two "
                       "variables or one vector variable")
    hseen = set()
    for c, o in hpairs:
        hseen.add(json.dumps([c["vars"], c.get("ops") or c.get("runs")], sort_keys=True))
    ctx.cov["distinct_histories"] = len(hseen)
    ctx.cov["history_rule"] = ("one history = the SAME ParameterValues objects and processor used for >= 2 problem "
                               "constructions interleaved with get_bounds / convert_to_parameters / fitness / "
                               "update_processor on any problem built so far, or Calibration.run_calibration called "
                               "several times on the same Calibration; after every operation the objects are read back "
                               "(boundaries, placeholders, flags, configured values of the caller's processor and of every "
                               "problem's own processor) and judged in Coq against the declaration")
    ctx.cov["traces_validated_against_impl"] = len(pairs) + len(hpairs)
    ctx.cov["disagreements_checked"] = len(mism) + len(hmism) + len(ctx.gen_mismatch) + len(ctx.kind_mismatch)
    ctx.cov["log_tolerance"] = "2^-50 relative (4 ulp) on np.power(10, x), math.log10, np.log10; exact elsewhere"
    for c, o in pairs[:3]:
        ctx.sample(dict(vars=c["vars"], bounds=[o.get("lb"), o.get("ub")],
                        first_probe=(o.get("probes") or [None])[0]))
    for c, o, cl, pb in viol:
        ctx.violations.append(to_violation(c, o, cl, pb))
    for c, o, st, cl in hviol:
        ctx.violations.append(to_violation_hist(c, o, st, cl))
    (ctx.build / "mismatches.json").write_text(json.dumps(
        [dict(case=c, observed=o) for c, o in (mism + hmism + ctx.gen_mismatch + ctx.kind_mismatch)][:20], indent=1))
    for c, o in mism:
        ctx.broken.append(Broken("correspondence", "Model/Decision.v vs implementation",
                                 f"model and implementation differ on {[v['key'] for v in c['vars']]}",
                                 dict(case=c)))
    for c, o in ctx.gen_mismatch:
        ctx.broken.append(Broken("correspondence", "walks of the generated description (Gen_C10.v) vs implementation",
                                 f"the description read from the source and the implementation differ on "
                                 f"{[v['key'] for v in c['vars']]}", dict(case=c)))
    for c, o in ctx.kind_mismatch:
        ctx.broken.append(Broken("correspondence", "type tests + walks of the generated description (src_kinds, src_desc) "
                                 "vs implementation",
                                 f"the type tests read from the source and the implementation differ on "
                                 f"{[(v['key'], kind_name(v), v['n']) for v in c['vars']]}", dict(case=c)))
    for c, o in hmism:
        ctx.broken.append(Broken("correspondence", "object-store model (generated description) vs implementation",
                                 f"model and implementation differ on a history over {[v['key'] for v in c['vars']]}",
                                 dict(case=c)))
    if ctx.broken and not new_violations(ctx):
        search(ctx)


def new_violations(ctx: Ctx):
    fs = core.load_findings(ctx.prop)
    return [v for v in ctx.violations if not any(core.finding_matches(e, v) for e in fs)]


def search(ctx: Ctx):
    """A proof obligation or the correspondence broke: look harder for a concrete failing input."""
    ctx.log("searching for a concrete failing input (more declarations, more calibrations)")
    r = ctx.rng("search")
    cases = [make_case(r, lay) for lay in FIXED_LAYOUTS for _ in range(3)]
    cases += [make_case(r) for _ in range(200)]
    cases += [make_case(r, lay) for lay in KIND_LAYOUTS for _ in range(2)]
    cases += [make_case(r, lay) for lay in container_scope_layouts(r)]
    cases += [make_case(r, p_kind=0.6) for _ in range(100)] + [make_case(r, p_kind=0.4, via="yaml") for _ in range(40)]
    for k, (algo, seed, islands) in enumerate([("sade", 3, 2), ("sga", 4, 2), ("sade", 5, 1), ("nlopt", 6, 1)]):
        cases.append(make_case(r, FIXED_LAYOUTS[(k + 1) % 6], mode="calib", algo=algo, seed=seed, islands=islands,
                               generations=3, pop=8, evolutions=2, num_best=4))
    hcases = [gen_history(r, lay, n_ops=10) for lay in FIXED_LAYOUTS[:9] + FIXED_LAYOUTS[10:] for _ in range(2)]
    hcases += [gen_history(r) for _ in range(120)]
    hcases.append(gen_calib2(r, FIXED_LAYOUTS[4], [("sade", 11, 1), ("sade", 12, 1), ("sga", 13, 1)]))
    mism, viol, pairs, hmism, hviol, hpairs = correspondence(ctx, cases + hcases, tag="s")
    for c, o, cl, pb in viol:
        ctx.violations.append(to_violation(c, o, cl, pb))
    for c, o, st, cl in hviol:
        ctx.violations.append(to_violation_hist(c, o, st, cl))
    ctx.cov["search_cases"] = len(pairs) + len(hpairs)


def replay(ctx: Ctx, rp: dict) -> int:
    case = rp.get("case")
    if rp.get("kind") != "input" or not case:
        print(f"replay names a {rp.get('kind')} that no longer checks: {rp.get('no_longer_checks')}")
        print(rp.get("detail", ""))
        return 1
    try:
        gen_text = translate(ctx.repo)
    except core.TranslationError:
        gen_text = FALLBACK
    obs = core.run_driver(ctx, "c10", [case], workers=1)[0]
    print("case:", json.dumps({k: case[k] for k in case if k != "xs"})[:1500])
    if case.get("mode") in ("hist", "calib2"):
        return replay_hist(ctx, case, obs, gen_text)
    for x in case.get("xs", []):
        print("decision vector:", [float.fromhex(v) for v in x])
    if "probes" not in obs and "refused" not in obs:
        print("implementation driver failed:", json.dumps(obs)[:800])
        return 1
    print("implementation: bounds", [float.fromhex(v) for v in obs.get("lb", [])],
          [float.fromhex(v) for v in obs.get("ub", [])], obs.get("refused", ""))
    prepare_gen(ctx, gen_text)
    print("containers:", [(kind_name(v), v["n"]) for v in case["vars"]], "->", obs.get("vals"),
          "| parameters counted:", obs.get("npar"), "| declared via", case.get("via", "python api"))
    ok, evals, se = core.coq_eval(ctx, "replay", emit_file([(case, obs)]))
    if not ok or len(evals) != 2:
        print("case file did not evaluate:", core.tail(se, 10))
        return 1
    bad = core.parse_int_list(evals[1]) != []
    if bad:
        flat = core.parse_int_list(evals[1])
        cl, pb = flat[3:3 + flat[2]], flat[1]
        print("clauses violated:", [CLAUSES.get(c, c) for c in cl])
        if 0 <= pb < len(obs.get("probes", [])):
            p = obs["probes"][pb]
            print("offending probe:", p["tag"], "x =", [float.fromhex(v) for v in p["x"]],
                  "parameters =", None if p["conv"] is None else [float.fromhex(v) for v in p["conv"]],
                  "applied =", p["applied"], p.get("error") or "")
    print("specification (evaluated in Coq):", "VIOLATED" if bad else "holds")
    return 1 if bad else 0


def prepare_gen(ctx: Ctx, gen_text: str):
    core.ensure_lib(ctx, targets=core.lib_targets_of([emit_file([])]))
    gdir = ctx.build / "gen"
    gdir.mkdir(parents=True, exist_ok=True)
    (gdir / "Gen_C10.v").write_text(gen_text)
    core.coqc(ctx, gdir / "Gen_C10.v", [(gdir, "PyxelGen")], 300)


def replay_hist(ctx: Ctx, case, obs, gen_text) -> int:
    if "steps" not in obs and "refused_objects" not in obs:
        print("implementation driver failed:", json.dumps(obs)[:800])
        return 1
    steps = hist_steps(case, obs)
    for k, st in enumerate(steps[:40]):
        line = f"  step {k}: {st.get('tag') or st['op']}"
        if "pid" in st:
            line += f" on problem {st['pid']}"
        if "lb" in st:
            line += f"  bounds {[float.fromhex(v) for v in st['lb']]} .. {[float.fromhex(v) for v in st['ub']]}"
        if "refused" in st:
            line += f"  refused: {st['refused']}"
        if st.get("x"):
            line += f"  x = {[float.fromhex(v) for v in st['x']]}"
        print(line)
    prepare_gen(ctx, gen_text)
    ok, evals, se = core.coq_eval(ctx, "replay", emit_hist_file([(case, obs)]))
    if not ok or len(evals) != 2:
        print("case file did not evaluate:", core.tail(se, 10))
        return 1
    bad = core.parse_int_list(evals[1]) != []
    if bad:
        flat = core.parse_int_list(evals[1])
        k, cl = flat[1], flat[3:3 + flat[2]]
        print(f"first offending step: {k}; clauses violated:", [CLAUSES.get(c, c) for c in cl])
        if 0 <= k < len(steps):
            sn = steps[k].get("snap") or {}
            for v, d in zip(sn.get("vars", []), case["vars"]):
                if v.get("bnd") != d["bnd"]:
                    def fl(b):
                        if not b or b[0] not in ("shared", "per"):
                            return b
                        return [float.fromhex(x) for x in b[1:]] if b[0] == "shared" else \
                            [[float.fromhex(lo), float.fromhex(hi)] for lo, hi in b[1]]
                    print(f"  ParameterValues {v['key']}: boundaries now {fl(v['bnd'])}, declared {fl(d['bnd'])}")
    print("specification (evaluated in Coq):", "VIOLATED" if bad else "holds")
    return 1 if bad else 0


META = dict(
    level_text=(
        "Coq theorems, for every list of calibrated variables (any mix of scalar/vector, linear/logarithmic, "
        "shared/per-component boundaries), every decision vector and every element type: the functions that walk the "
        "decision vector (_set_bound, convert_to_parameters, update_processor), modelled as coded with their running "
        "offsets, use the same consecutive disjoint slices in declaration order; the conversion touches exactly the "
        "slices of logarithmic variables; what is reported equals what is handed to Processor.set; refusal rule of the "
        "constructor; over the reals a vector inside the optimiser's box yields parameters inside the declared "
        "boundaries. These theorems are re-proved on every run over a DESCRIPTION of the loops that a fail-closed "
        "translator reads from the current source (iteration order, per class of variable which element/column of the "
        "boundaries goes to the lower/upper list and whether log10 is applied by rebinding or in place, the slice "
        "[start, stop) that gets 10** and the new offset as linear forms, the index/slice handed to Processor.set, which "
        "copies are taken): C10_source_as_modelled + C10_src_*. Over an explicit object store (the ParameterValues "
        "objects, a heap of processors, the problems built so far) C10_history_independent proves for EVERY history "
        "of problem constructions, get_bounds, convert_to_parameters, fitness and update_processor calls on the same "
        "objects that the declaration and every existing processor are unchanged and every observation is the "
        "history-free function of the declaration (C10_builds_idempotent: a problem built after any history has the "
        "box of the first). What the translator does not read (numpy/pygmo/xarray behaviour, Processor.set, deepcopy) "
        "and the translator's own reading are tied by correspondence, i.e. by testing: the real ModelFittingDataTree "
        "is driven directly and through histories on shared objects (objects read back after every operation), real "
        "tiny calibrations and Calibration.run_calibration called twice on the same Calibration are run, and every "
        "logged evaluation, champion, best individual and final application of the champions' parameters is judged "
        "inside Coq against the specification; the generated description is run inside Coq against the same "
        "observations. Containers: the translator also reads, for _set_bound, the parameter count of __init__, "
        "convert_to_parameters and update_processor, the if/elif chain on var.values as a decision tree over the type "
        "tests the source makes, labels every leaf by executing its path (scalar / vector / raise / other), and reads "
        "which outer container convert_values returns; C10_same_type_tests (vm_compute over 7 kinds of container x 0/1/2 "
        "placeholders) + C10_containers_classified_alike / _same_variables / _walks_agree prove for EVERY container with "
        "ANY number of placeholders and every list of variables that the four walks take the same branch - the one the "
        "declaration means - or the declaration is refused. The declarations driven through the implementation come "
        "as \"_\", list, tuple, str, numpy array, UserList and generator through the Python API and as YAML text "
        "through pyxel.configuration.loads."),
    level_note=(
        "Trusted: Coq kernel + vm_compute; real-number axioms + classic for C10_in_bounds / C10_src_in_bounds only (the "
        "structural and history theorems are closed); translator/c10.py (fail-closed; its output is also evaluated "
        "against the implementation); the correspondence harness and probe; numpy slicing/copy/view semantics as "
        "modelled (a column of a 2-D array is a view, np.array copies, x = f(x) rebinds, f(x, out=x) writes); np.power/"
        "log10 within 4 ulp (tolerance on the implementation-side comparison only); copy.deepcopy and Processor.set as "
        "modelled (values by value); pygmo proposes vectors inside the box and reports evaluated individuals (checked "
        "on every logged evaluation, not proved). Float rounding of 10**log10(lo) is not carried by the theorem over "
        "R. Problems with several processors (result_input_arguments) are not driven."),
    technique="Coq proof by induction over the variable list / over histories (generic element type, explicit object "
              "store) + fail-closed python-ast translator of the loops with the theorems re-proved over the generated "
              "description + real-analysis bound + in-Coq correspondence/spec evaluation on the real problem object, on "
              "histories over shared objects and on real calibrations",
    design_ref="DESIGN.md section 6, C10",
)
