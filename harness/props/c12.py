"""C12 — a configuration file means what it says, and nonsense is refused."""
from __future__ import annotations

import json
import math
from fractions import Fraction

from .. import core
from ..core import Broken, Ctx, Violation

PROP_FILE = "Properties/C12.v"

TRUSTED = [
    "translator/c12.py (constructor and setter guards of Geometry/Characteristics/Environment/APDCharacteristics -> "
    "Gen_C12.src_guards; what they store of the value -> src_stores; count checks of _build_configuration and "
    "Configuration.__post_init__ with the way each counts a section -> src_checks_doc / src_checks_built; the order of "
    "the two if/elif chains -> src_mode_dispatch / src_detector_dispatch; shape checks of the to_* builders; fails "
    "closed on any other shape)",
    "the LITERAL table Model.Config.documented (documented ranges, from the property text, docstrings, error messages) "
    "and Model.Config.readout_settings",
    "translator/c12.py on pyxel/exposure/readout.py: constructor parameters of Readout and the settings Readout.replace "
    "carries over (Gen_C12.src_readout_params, src_replace_carried)",
    "correspondence harness: harness/props/c12.py generators, harness/drivers/c12.py (values as exact rationals), "
    "the defaults table DEFAULTS in harness/props/c12.py (what an absent key means)",
    "modelled, not verified: PyYAML parsing, numpy.arange (its value list is re-derived as a + i*s, ceil((b-a)/s) "
    "elements, on dyadic inputs), Processor.set -> setattr, python float comparison = comparison of the exact rationals",
]

CLS = {"Geometry": "CGeometry", "Characteristics": "CCharacteristics", "Environment": "CEnvironment",
       "APDCharacteristics": "CAPDCharacteristics"}
# "obsrun": the value is one point of a REAL observation (pyxel.run_mode on an Observation that sweeps the field,
# sequentially or with dask); accepted = the run completes.  It is the sweep path of the model.
PATH = {"ctor": "PCtor", "yaml": "PYaml", "attr": "PAttr", "sweep": "PSweep", "obsrun": "PSweep",
        "fromdict": "PFromDict"}

# used ONLY to aim the generator and to classify a failing value; the decision is taken inside Coq against
# Model.Config.documented.  (cls, field, lo, hi, integer-ish, sequence length)
FIELDS = [
    ("Geometry", "row", 0, None, True, None), ("Geometry", "col", 0, None, True, None),
    ("Geometry", "total_thickness", 0, 10000, False, None), ("Geometry", "pixel_vert_size", 0, 1000, False, None),
    ("Geometry", "pixel_horz_size", 0, 1000, False, None), ("Geometry", "pixel_scale", 0, 1000, False, None),
    ("Characteristics", "quantum_efficiency", 0, 1, False, None),
    ("Characteristics", "charge_to_volt_conversion", 0, 100, False, None),
    ("Characteristics", "pre_amplification", 0, 10000, False, None),
    ("Characteristics", "full_well_capacity", 0, 10000000, False, None),
    ("Characteristics", "adc_bit_resolution", 4, 64, True, None),
    ("Characteristics", "adc_voltage_range", None, None, False, 2),
    ("Environment", "temperature", 0, 1000, False, None), ("Environment", "wavelength", 0, None, False, None),
    ("APDCharacteristics", "quantum_efficiency", 0, 1, False, None),
    ("APDCharacteristics", "full_well_capacity", 0, 10000000, False, None),
    ("APDCharacteristics", "adc_bit_resolution", 4, 64, True, None),
    ("APDCharacteristics", "adc_voltage_range", None, None, False, 2),
    ("APDCharacteristics", "avalanche_gain", 1, 1000, False, None),
]


# ------------------------------------------------------------------------------------------ values


def vf(x: float):
    return {"t": "float", "v": float(x).hex()}


def vi(n: int):
    return {"t": "int", "v": int(n)}


NAN, NONE = {"t": "nan"}, {"t": "none"}
PINF, NINF = {"t": "inf", "pos": True}, {"t": "inf", "pos": False}


def npi(n: int, dt="int64"):
    """a number carried by a numpy integer scalar (not an instance of int | float)"""
    return {"t": "npint", "v": int(n), "dt": dt}


def npf(x: float, dt="float32"):
    """a number carried by a numpy float scalar; float64 IS a python float (subclass), float32 is not"""
    return {"t": "npfloat", "v": float(x).hex(), "dt": dt}


def npnan(dt="float32"):
    return {"t": "npnan", "dt": dt}


def exact_f32(x: float) -> bool:
    import struct
    try:
        return struct.unpack("f", struct.pack("f", x))[0] == x
    except OverflowError:
        return False


def is_np_carrier(x) -> bool:
    return x["t"] in ("npint", "npfloat", "npnan") and x.get("dt") != "float64"


def value_q(x):
    if x["t"] in ("int", "npint"):
        return Fraction(x["v"])
    if x["t"] in ("float", "npfloat"):
        return Fraction(float.fromhex(x["v"]))
    return None


def cvalue(x) -> str:
    t = x["t"]
    if t == "none":
        return "VNone"
    if t == "nan":
        return "VNaN"
    if t == "seq":
        return f"(VSeq {x['n']}%nat)"
    if t == "inf":
        return f"(VInf {core.cbool(x['pos'])})"
    if t == "npnan":
        return "VNpNaN" if is_np_carrier(x) else "VNaN"
    q = value_q(x)
    ctor = "VNpNum" if is_np_carrier(x) else "VNum"
    return f"({ctor} {core.cq(q.numerator, q.denominator)})"


def np_values(r, lo, hi, seqlen, small):
    """the same numbers carried by numpy scalars, and +-inf"""
    idt = lambda: r.choice(["int64", "int32", "int64"])
    if seqlen is not None:
        return [npi(0, idt()), npi(2, idt()), npf(5.0), npf(0.0), npnan(), npf(2.0, "float64"), PINF]
    if small:
        return [npi(-1, idt()), npi(0, idt()), npi(3, idt()), npi(r.randrange(1, 9), idt()), npnan(), PINF, NINF,
                npf(0.5), npf(r.randrange(1, 8) + 0.25), npf(0.75, "float64"), npf(-0.5)]
    vs = [npnan(), npnan("float64"), PINF, NINF, npi(0, idt()), npf(0.0)]
    for b in [b for b in (lo, hi) if b is not None]:
        vs += [npi(b, idt()), npi(b - 1, idt()), npi(b + 1, idt())]
        for f in (b - 0.5, b + 0.5, b + 0.25):
            if exact_f32(f):
                vs.append(npf(f))
        vs.append(npf(b + 0.5, "float64"))
    if hi is not None:
        mid = (lo + hi) // 2 if hi - lo >= 2 else None
        if mid is not None:
            vs += [npi(mid, idt())]
        vs += [npf((lo + hi) / 2), npi(10 * hi + 7, idt()), npi(lo - 5, idt())]
    else:
        vs += [npi(lo + 7, idt()), npf(lo + 2.5), npi(lo - 5, idt())]
    return vs


def gen_values(r, lo, hi, integer, seqlen, small, n_random):
    if seqlen is not None:
        vs = [{"t": "seq", "n": n} for n in range(0, 5)] + [vi(0), vf(0.0), vf(5.0), vi(2), NAN, NONE]
        return vs
    vs = [NAN, NONE]
    pts = set()
    bounds = [b for b in (lo, hi) if b is not None]
    for b in bounds:
        pts |= {float(b), math.nextafter(float(b), -math.inf), math.nextafter(float(b), math.inf),
                float(b) - 1.0, float(b) + 1.0, float(b) - 0.5, float(b) + 0.5}
        vs += [vi(b), vi(b - 1), vi(b + 1)]
    if hi is not None:
        pts |= {float(hi) * 2, float(hi) * 10, float(hi) * 1.0000001, (float(lo) + float(hi)) / 2}
        for _ in range(n_random):
            pts.add(r.choice([r.uniform(lo, hi), r.uniform(hi, 11 * hi + 10), r.uniform(lo - 10 - abs(hi), lo),
                              float(r.randrange(int(lo) - 3, int(hi) + 4))]))
    else:
        pts |= {float(lo) + 7.0, float(lo) + 600.0}
        for _ in range(n_random):
            pts.add(r.choice([r.uniform(lo, lo + 50), r.uniform(lo - 50, lo), float(r.randrange(int(lo) - 3, int(lo) + 40))]))
    pts |= {0.0, -0.0, 2.0 ** -80, -(2.0 ** -80), -1.0, 1.0}
    if integer:
        # integer-like quantities (array sizes, ADC bits): values that are NOT whole numbers - strictly between 0 and 1,
        # and between each bound and the next integer on both sides; a conversion to int on the way in (before or
        # after the check) shows on exactly these
        pts |= {0.5, 0.25, 0.75, 0.125, 1.0 - 2.0 ** -40, 1.5, -0.5, -0.25}
        for b in bounds:
            pts |= {float(b) + 0.25, float(b) + 0.75, float(b) - 0.25, float(b) - 0.75, float(b) + 1.5,
                    float(b) + 1.0 - 2.0 ** -30}
        for _ in range(max(2, n_random)):
            pts.add(r.randrange(-2, 9 if small else int(hi) + 3) + r.choice([0.125, 0.25, 0.5, 0.75, 0.875]))
    if not small:
        pts |= {2.0 ** 90, -(2.0 ** 90)}
    if small:
        # array sizes: small numbers only (the detector allocates row x col frames later on); whole numbers as python
        # ints, the fractional ones (and a whole number carried by a float) as floats
        frac = sorted(p for p in pts if -10 < p < 12 and (p != int(p) or p in (2.0, 7.0)))
        return ([NAN, NONE] + [vi(n) for n in (-7, -1, 0, 1, 2, 5, 9)]
                + [vi(r.randrange(-20, 30)) for _ in range(n_random)] + [vf(p) for p in frac])
    vs += [vf(p) for p in sorted(pts, key=lambda z: (z, math.copysign(1, z)))]
    return vs


def corpus_guard_cases():
    """the formerly failing inputs of the repaired findings (harness/corpus/C12), run first on every run"""
    out = []
    d = core.VERIF / "harness" / "corpus" / "C12"
    for f in sorted(d.glob("*.json")) if d.exists() else []:
        for c in json.loads(f.read_text()).get("cases", []):
            if c.get("k") == "guard":
                out.append({k: c[k] for k in ("k", "cls", "field", "path", "det", "x")})
    return out


def gen_guard_cases(ctx: Ctx, n_random: int, n_obsrun: int = 6):
    r = ctx.rng("guards")
    cases = corpus_guard_cases()
    ctx.cov["corpus_cases"] = len(cases)
    for cls, field, lo, hi, integer, seqlen in FIELDS:
        small = field in ("row", "col")
        for path in ("ctor", "yaml", "attr", "sweep"):
            dets = ["apd"] if cls == "APDCharacteristics" else (
                ["ccd", "cmos", "mkid"] if cls == "Characteristics" else ["ccd", "cmos", "mkid", "apd"])
            seen = set()
            for x in gen_values(r, lo, hi, integer, seqlen, small, n_random):
                key = json.dumps(x, sort_keys=True)
                if key in seen:
                    continue
                seen.add(key)
                if path == "sweep" and x["t"] == "none":
                    continue  # Processor.set has no notion of None (TypeError before any setter)
                if path == "yaml" and small and x["t"] == "inf":
                    continue  # accepted by the guard (an extended real > 0), refused later by the frame allocation
                cases.append(dict(k="guard", cls=cls, field=field, path=path, det=r.choice(dets), x=x))
            for x in np_values(r, lo, hi, seqlen, small):
                key = json.dumps(x, sort_keys=True)
                if key in seen:
                    continue
                seen.add(key)
                if path == "yaml" and (x["t"] != "inf" or small):
                    continue  # a YAML document cannot carry a numpy scalar
                cases.append(dict(k="guard", cls=cls, field=field, path=path, det=r.choice(dets), x=x))
        # <Class>.from_dict: python numbers, NaN, None and sequences (what a file can hold)
        if cls != "Environment":
            seen = set()
            for x in gen_values(r, lo, hi, integer, seqlen, small, max(1, n_random // 2)):
                key = json.dumps(x, sort_keys=True)
                if key in seen or x["t"] == "inf":
                    continue
                seen.add(key)
                cases.append(dict(k="guard", cls=cls, field=field, path="fromdict", det=r.choice(dets), x=x))
        # real observation runs over the field: a few values per field, sequential and dask
        plain_vals = [x for x in gen_values(r, lo, hi, integer, seqlen, small, 2)
                      if x["t"] in ("int", "float", "nan") or (x["t"] == "seq" and seqlen is not None)]
        if seqlen is not None:
            plain_vals = [x for x in plain_vals if x["t"] == "seq"]
        uniq = {json.dumps(x, sort_keys=True): x for x in plain_vals}
        pick = r.sample(sorted(uniq), min(n_obsrun, len(uniq)))
        if seqlen is None and json.dumps(NAN, sort_keys=True) not in pick:
            pick.append(json.dumps(NAN, sort_keys=True))
        for i, key in enumerate(pick):
            cases.append(dict(k="guard", cls=cls, field=field, path="obsrun", det=r.choice(dets), x=uniq[key],
                              dask=bool(i % 2)))
    return cases


def classify_value(c):
    cls, field, x = c["cls"], c["field"], c["x"]
    row = next(f for f in FIELDS if f[0] == cls and f[1] == field)
    _, _, lo, hi, _, seqlen = row
    t = x["t"]
    if t in ("nan", "none"):
        return t
    if t == "npnan":
        return "nan"
    if seqlen is not None:
        if t == "seq":
            return "sequence" if x["n"] else "empty-sequence"
        if t == "inf":
            return "number"
        return "number" if value_q(x) != 0 else "zero-number"
    if t == "inf":
        return "above" if x["pos"] else "below"
    q = value_q(x)
    if row[4] and q.denominator != 1:
        return "fractional-" + ("below" if q < lo or (q == lo and field in ("row", "col")) else
                                "above" if hi is not None and q > hi else "inside")
    if q == 0 and lo > 0:
        return "zero"
    if q < lo or (q == lo and field in ("row", "col", "temperature", "wavelength")):
        return "below"
    if hi is not None and q > hi:
        return "above"
    return "inside"


def cstored(o) -> str:
    """what the field holds after an accepted value, as read back by the driver (None: not read back / not a value of
    the domain)"""
    sv = o.get("stored_v") if o.get("accepted") else None
    if not sv or sv.get("t") == "other":
        return "None"
    return f"(Some {cvalue(sv)})"


def emit_guard_file(pairs) -> str:
    rows = []
    for c, o in pairs:
        is_int = c["x"]["t"] in ("int", "npint")
        rows.append(f"GCase ({CLS[c['cls']]}, {core.cstr(c['field'])}) {PATH[c['path']]} {cvalue(c['x'])} "
                    f"{core.cbool(is_int)} {core.cbool(o['accepted'])} {cstored(o)}")
    body = ";\n  ".join(rows)
    return (HEAD + f"Definition cases : list gcase := [\n  {body}\n].\n"
            "Eval vm_compute in g_mismatches src_guards src_stores cases.\nEval vm_compute in g_violations cases.\n")


HEAD = ("From Coq Require Import QArith ZArith List String.\nFrom PyxelV Require Import Model.Config.\n"
        "From PyxelGen Require Import Gen_C12.\nImport ListNotations.\nOpen Scope Z_scope.\n")


def coq_sees_stored(o) -> bool:
    """is the value read back one that Model.Config.gcase_violates judges (a number, NaN, inf, None)"""
    sv = o.get("stored_v") or {}
    return sv.get("t") in ("int", "float", "nan", "inf", "none", "npint", "npfloat", "npnan")


def stored_violation(c, o) -> Violation:
    sv = o.get("stored_v")
    holds = f": the field then holds {show_value(sv)}" if sv and sv.get("t") != "other" else ""
    return Violation(
        clause="stored", case=c, observed=o,
        expected="an accepted value is the value of the setting (so the setting satisfies the documented limit)",
        what=f"{c['cls']}.{c['field']} via {c['path']}: value {show_value(c['x'])} ({classify_value(c)}) accepted but not "
             f"stored{holds}",
        sig=dict(clause="stored", field=f"{c['cls']}.{c['field']}", path=c["path"]))


def guard_violation(c, o) -> Violation:
    kind = classify_value(c)
    acc = o["accepted"]
    if acc and not o.get("stored", True) and kind in ("inside", "fractional-inside", "none", "sequence"):
        return stored_violation(c, o)
    what = (f"{c['cls']}.{c['field']} via {c['path']}: value {show_value(c['x'])} ({kind}) is "
            f"{'accepted' if acc else 'refused'}, the documented range says the opposite")
    sig = dict(clause="same_limits", field=f"{c['cls']}.{c['field']}", path=c["path"], value=kind,
               outcome="accepted" if acc else "refused", carrier="numpy" if is_np_carrier(c["x"]) else "python")
    return Violation(clause="same_limits", case=c, observed=o,
                     expected="accepted iff inside the documented range (None: iff the field is optional)",
                     what=what, sig=sig)


def show_value(x):
    t = x["t"]
    if t == "float":
        return repr(float.fromhex(x["v"]))
    if t == "int":
        return str(x["v"])
    if t == "seq":
        return f"sequence of {x['n']}"
    if t == "inf":
        return "inf" if x["pos"] else "-inf"
    if t == "npint":
        return f"numpy.{x['dt']}({x['v']})"
    if t == "npfloat":
        return f"numpy.{x['dt']}({float.fromhex(x['v'])!r})"
    if t == "npnan":
        return f"numpy.{x['dt']}('nan')"
    return t


# ------------------------------------------------------------------------------------------ exactly one

MODES = ["exposure", "observation", "calibration"]
DETS = ["ccd_detector", "cmos_detector", "mkid_detector", "apd_detector"]


STATES = ["absent", "filled", "null", "empty"]     # nothing | a filled section | `key:` | `key: {}`
SSTATE = {"filled": "SFilled", "null": "SNull", "empty": "SEmptyMap"}


def key_case(r, states: dict, order=None):
    """a document that holds `states[k]` under each key k (absent keys left out) plus a pipeline, the sections in the
    given order (default: shuffled - the order of the sections in the file must not matter)"""
    body = [k for k in MODES + DETS if states.get(k, "absent") != "absent"]
    if order == "reversed":
        body.reverse()
    elif order != "listed":
        r.shuffle(body)
    present = ["pipeline"] + body if r.random() < 0.5 else body + ["pipeline"]
    return dict(k="keys", present=present, states={k: states[k] for k in body if states[k] != "filled"})


def state_tuples(keys):
    import itertools
    return [dict(zip(keys, t)) for t in itertools.product(STATES, repeat=len(keys))]


def gen_key_cases(ctx: Ctx):
    """(a) all 128 subsets of the 3 mode and 4 detector keys, every section filled;
    (b) EVERY assignment of {absent, filled, `key:`, `key: {}`} to the three mode keys next to one filled detector, and
        to the four detector keys next to one filled mode - an empty section beside a filled one, two empty ones, an
        empty one alone ... - each document with two or more keys of the group in both orders;
    (c) empty sections in both groups at once (sampled; thorough tier: the full product 64 x 256)."""
    r = ctx.rng("keys")
    cases = []
    d = core.VERIF / "harness" / "corpus" / "C12"
    for f in sorted(d.glob("*.json")) if d.exists() else []:      # corpus first
        for c in json.loads(f.read_text()).get("cases", []):
            if c.get("k") == "keys":
                cases.append(dict(k="keys", present=list(c["present"]), states=dict(c.get("states") or {})))
    for m in range(8):
        for d in range(16):
            st = {MODES[i]: "filled" for i in range(3) if m >> i & 1}
            st.update({DETS[i]: "filled" for i in range(4) if d >> i & 1})
            cases.append(key_case(r, st))
    mode_sts, det_sts = state_tuples(MODES), state_tuples(DETS)
    for i, ms in enumerate(mode_sts):
        if all(v in ("absent", "filled") for v in ms.values()):
            continue        # in (a)
        st = dict(ms, **{DETS[i % 4]: "filled"})
        n = sum(v != "absent" for v in ms.values())
        for order in (("listed", "reversed") if n >= 2 else (None,)):
            cases.append(key_case(r, st, order))
    for i, ds in enumerate(det_sts):
        if all(v in ("absent", "filled") for v in ds.values()):
            continue
        st = dict(ds, **{MODES[i % 3]: "filled"})
        n = sum(v != "absent" for v in ds.values())
        for order in (("listed", "reversed") if n >= 2 else (None,)):
            cases.append(key_case(r, st, order))
    # one mode key x one detector key, each filled / `key:` / `key: {}` (the documents that may load)
    for mk in MODES:
        for dk in DETS:
            for msv in STATES[1:]:
                for dsv in STATES[1:]:
                    cases.append(key_case(r, {mk: msv, dk: dsv}))
    if ctx.tier == "thorough":
        for ms in mode_sts:
            for ds in det_sts:
                cases.append(key_case(r, dict(ms, **ds)))
    else:
        for _ in range(120):
            cases.append(key_case(r, dict(r.choice(mode_sts), **r.choice(det_sts))))
    seen, out = set(), []
    for c in cases:
        key = json.dumps([c["present"], c["states"]], sort_keys=True)
        if key not in seen:
            seen.add(key)
            out.append(c)
    return out


def case_states(c) -> dict:
    """key -> state of a keys case (cases of older replay files have no 'states': every present section is filled)"""
    st = c.get("states") or {}
    return {k: st.get(k, "filled") for k in c["present"]}


def emit_keys_file(pairs) -> str:
    rows = []
    for c, o in pairs:
        doc = core.clist(f"({core.cstr(k)}, {SSTATE[v]})" for k, v in case_states(c).items())
        rows.append(f"ECase {doc} {core.cbool(o['loaded'])} {core.clist(core.cstr(k) for k in o.get('used', []))}")
    body = ";\n  ".join(rows)
    return (HEAD + f"Definition cases : list ecase := [\n  {body}\n].\n"
            "Eval vm_compute in e_mismatches src_checks_doc src_checks_built src_mode_dispatch src_detector_dispatch cases.\n"
            "Eval vm_compute in e_violations cases.\n")


def key_counts(c):
    st = case_states(c)
    return (sum(k in MODES for k in st), sum(k in DETS for k in st),
            sum(k in MODES and v == "filled" for k, v in st.items()),
            sum(k in DETS and v == "filled" for k, v in st.items()))


def show_doc(c) -> str:
    w = {"filled": "{...}", "null": "", "empty": "{}"}
    return ", ".join(f"{k}: {w[v]}".rstrip() for k, v in case_states(c).items())


def keys_violation(c, o) -> Violation:
    nm, nd, fm, fd = key_counts(c)
    sig = dict(clause="exactly_one", modes=min(nm, 2), detectors=min(nd, 2), filled_modes=min(fm, 2),
               filled_detectors=min(fd, 2), loaded=bool(o.get("loaded")))
    return Violation(clause="exactly_one", case=c, observed=o,
                     expected="loaded only if the document holds exactly one running-mode key and exactly one detector key "
                              "(with several keys: at the very least never as another section than the only filled one); "
                              "the sections that are present are the ones used; one filled mode + one filled detector loads",
                     what=f"document with {nm} running-mode key(s) ({fm} filled) and {nd} detector key(s) ({fd} filled) "
                          f"[{show_doc(c)}]: loaded={o.get('loaded')} used={o.get('used')}"
                          + (f" ({o.get('exc')}: {o.get('msg')})" if not o.get("loaded") else ""), sig=sig)


def gen_direct_cases(ctx: Ctx):
    """every set of running-mode / detector objects handed to Configuration(...) directly"""
    r = ctx.rng("direct")
    cases = []
    for m in range(8):
        for d in range(16):
            given = [MODES[i] for i in range(3) if m >> i & 1] + [DETS[i] for i in range(4) if d >> i & 1]
            r.shuffle(given)
            cases.append(dict(k="direct", given=given))
    return cases


def emit_direct_file(pairs) -> str:
    rows = [f"CCase {core.clist(core.cstr(k) for k in c['given'])} {core.cbool(o['accepted'])}" for c, o in pairs]
    body = ";\n  ".join(rows)
    return (HEAD + f"Definition cases : list ccase := [\n  {body}\n].\n"
            "Eval vm_compute in c_mismatches src_checks_built cases.\nEval vm_compute in c_violations cases.\n")


def direct_violation(c, o) -> Violation:
    nm = sum(k in MODES for k in c["given"])
    nd = sum(k in DETS for k in c["given"])
    return Violation(clause="exactly_one_built", case=c, observed=o,
                     expected="Configuration(...) takes the objects iff exactly one running mode and exactly one detector "
                              "are given, and then holds exactly these",
                     what=f"Configuration(pipeline, {', '.join(c['given'])}) with {nm} running mode(s) and {nd} detector(s): "
                          f"{'accepted' if o.get('accepted') else 'refused'}"
                          + ("" if o.get("holds_given", True) else " but does not hold the given objects"),
                     sig=dict(clause="exactly_one_built", modes=min(nm, 2), detectors=min(nd, 2),
                              accepted=bool(o.get("accepted"))))


def run_direct(ctx: Ctx, cases):
    obs = run_driver(ctx, cases, workers=8)
    pairs = []
    for c, o in zip(cases, obs):
        if "accepted" not in o:
            ctx.broken.append(Broken("correspondence", "direct Configuration(...) driver: unexpected exception / crash",
                                     str(o)[:400], c))
            continue
        pairs.append((c, o))
    ev = eval_files(ctx, {"c_000": emit_direct_file(pairs)})["c_000"]
    mism, viol = [], []
    if ev is not None:
        mism = [pairs[i] for i in core.parse_int_list(ev[0])]
        viol = [pairs[i] for i in core.parse_int_list(ev[1])]
    # accepted, but the configuration does not hold the objects it was given
    viol += [(c, o) for c, o in pairs if o["accepted"] and not o.get("holds_given", True)
             and not any(c is c2 for c2, _ in viol)]
    for c, o in pairs:
        ctx.count("evaluations")
        ctx.count("direct_constructions")
    return pairs, mism, viol


# ------------------------------------------------------------------------------------------ settings

# what an absent key means (constructor defaults of the documented API); key templates by prefix
GEO_OPT = ["total_thickness", "pixel_vert_size", "pixel_horz_size", "pixel_scale"]
CHAR_STD = ["quantum_efficiency", "charge_to_volt_conversion", "pre_amplification", "full_well_capacity",
            "adc_bit_resolution", "adc_voltage_range"]
CHAR_APD = ["quantum_efficiency", "full_well_capacity", "adc_bit_resolution", "adc_voltage_range", "avalanche_gain",
            "pixel_reset_voltage", "common_voltage"]
PIPE_GROUPS = ["scene_generation", "photon_collection", "phasing", "charge_generation", "charge_collection",
               "charge_transfer", "charge_measurement", "signal_transfer", "readout_electronics", "data_processing"]


def dy(r, lo, hi, k=3):
    """a dyadic number in [lo, hi] with k fractional bits"""
    return r.randrange(int(lo * 2 ** k), int(hi * 2 ** k) + 1) / 2 ** k


class TimesFile:
    """readout times given through a file: the document holds the file name, the times are the file's content"""

    def __init__(self, values, name):
        self.values, self.name = list(values), name


class Expr:
    """a range expression written as text in the document"""

    def __init__(self, a, b, s):
        self.a, self.b, self.s = Fraction(a), Fraction(b), Fraction(s)

    def text(self):
        def f(q):
            return str(q.numerator) if q.denominator == 1 else repr(float(q))
        return f"numpy.arange({f(self.a)}, {f(self.b)}, {f(self.s)})"

    def n(self):
        return max(0, math.ceil((self.b - self.a) / self.s))


def gen_times(r):
    k = r.random()
    if k < 0.3:
        t0 = dy(r, 0.5, 3)
        ts = [t0]
        for _ in range(r.randrange(0, 4)):
            ts.append(ts[-1] + dy(r, 0.25, 4))
        return ts
    if k < 0.55:
        a = r.randrange(1, 4)
        return Expr(a, a + r.randrange(1, 6), r.randrange(1, 3))
    if k < 0.8:
        a = dy(r, 0.5, 2, 2)
        s = r.choice([0.25, 0.5, 0.75, 1.5])
        return Expr(Fraction(a), Fraction(a) + Fraction(s) * r.randrange(1, 7) - Fraction(r.choice([0, 1]), 8), Fraction(s))
    return r.choice([2, 5, 0.5, 3.25])


def gen_readout(r):
    if r.random() < 0.15:
        return None
    ro = {}
    t = gen_times(r)
    first = t[0] if isinstance(t, list) else (float(t.a) if isinstance(t, Expr) else float(t))
    k = r.random()
    if k < 0.75:
        ro["times"] = t
    elif k < 0.87:
        t0 = dy(r, 0.5, 3)
        ts = [t0]
        for _ in range(r.randrange(0, 4)):
            ts.append(ts[-1] + dy(r, 0.25, 4))
        ro["times_from_file"] = TimesFile(ts, "c12_times_%d.npy" % r.randrange(10 ** 6))
        first = t0
    else:
        first = 1.0
    if r.random() < 0.5:
        ro["start_time"] = r.choice([0.0, first / 2, first / 4, 0.125 if first > 0.125 else 0.0])
    if r.random() < 0.6:
        ro["non_destructive"] = r.random() < 0.5
    return ro


MODELS = [
    ("photon_collection", "pyxel.models.photon_collection.illumination", lambda r: {"level": r.randrange(1, 500)}),
    ("charge_generation", "pyxel.models.charge_generation.simple_conversion", lambda r: None),
    ("charge_collection", "pyxel.models.charge_collection.simple_collection", lambda r: None),
    ("charge_measurement", "pyxel.models.charge_measurement.simple_measurement", lambda r: None),
    ("readout_electronics", "pyxel.models.readout_electronics.simple_adc", lambda r: None),
]


def gen_pipeline(r, runnable):
    p = {}
    for g, func, argf in MODELS:
        k = r.random()
        if not runnable and k < 0.15:
            p[g] = None
            continue
        if not runnable and k < 0.25:
            continue
        m = {"name": func.rsplit(".", 1)[1] + (r.choice(["", "_a", "_1"]) if g != "photon_collection" else ""),
             "func": func}
        a = argf(r)
        if a is not None:
            m["arguments"] = a
        if r.random() < 0.6 or runnable:
            m["enabled"] = True if runnable else r.random() < 0.7
        models = [m]
        if r.random() < 0.35:
            models.append({"name": "probe" + str(r.randrange(9)), "func": "verif_probes.record",
                           "enabled": r.random() < 0.5,
                           "arguments": {"tag": r.choice(["a", "b", "zz"]), "with_clock": r.random() < 0.5}})
            if r.random() < 0.5:
                models.reverse()
        p[g] = models
    if not runnable:
        # the groups no real model of the sample belongs to: probe models (a document that is only loaded)
        for g in ("scene_generation", "phasing", "charge_transfer", "signal_transfer", "data_processing"):
            k = r.random()
            if k < 0.25:
                p[g] = [{"name": f"{g}_probe{i}", "func": "verif_probes.record", "enabled": r.random() < 0.6,
                         "arguments": {"tag": r.choice(["s", "t"]), "with_clock": r.random() < 0.5}}
                        for i in range(r.randrange(1, 3))]
            elif k < 0.35:
                p[g] = None
    if r.random() < 0.5:
        items = list(p.items())
        r.shuffle(items)        # group order in the file must not matter
        p = dict(items)
    return p


def gen_detector(r, det):
    geo = {"row": r.randrange(1, 7), "col": r.randrange(1, 7)}
    if geo["row"] == geo["col"]:
        geo["col"] += 1
    for k, hi in (("total_thickness", 100), ("pixel_vert_size", 30), ("pixel_horz_size", 30), ("pixel_scale", 5)):
        if r.random() < 0.6:
            geo[k] = dy(r, 0.5, hi)
    env = {}
    if r.random() < 0.8:
        env["temperature"] = r.choice([dy(r, 50, 350), r.randrange(50, 350)])
    k = r.random()
    if k < 0.3:
        env["wavelength"] = r.choice([600, 650.5, dy(r, 300, 900)])
    elif k < 0.45:
        env["wavelength"] = {"cut_on": r.randrange(300, 500), "cut_off": r.randrange(600, 900), "resolution": r.randrange(5, 50)}
    if det == "apd":
        ch = {"roic_gain": dy(r, 0.5, 1), "avalanche_gain": dy(r, 1, 20)}
        ch[r.choice(["pixel_reset_voltage", "common_voltage"])] = dy(r, 3, 8)
        opt = [("quantum_efficiency", lambda: dy(r, 0.125, 1)), ("full_well_capacity", lambda: r.randrange(1000, 200000)),
               ("adc_bit_resolution", lambda: r.randrange(8, 33)), ("adc_voltage_range", lambda: [0.0, dy(r, 1, 12)])]
    else:
        ch = {}
        opt = [("quantum_efficiency", lambda: dy(r, 0.125, 1)), ("charge_to_volt_conversion", lambda: dy(r, 1, 64) / 2 ** 20),
               ("pre_amplification", lambda: dy(r, 1, 100)), ("full_well_capacity", lambda: r.randrange(1000, 200000)),
               ("adc_bit_resolution", lambda: r.randrange(8, 33)), ("adc_voltage_range", lambda: [dy(r, 0, 1), dy(r, 2, 12)])]
    for k, f in opt:
        if r.random() < 0.7:
            ch[k] = f()
    return {"geometry": geo, "environment": env or None, "characteristics": ch or None}


def complete_for_run(det, sec, r):
    """a runnable detector needs every characteristic the models read"""
    ch = dict(sec["characteristics"] or {})
    ch.setdefault("quantum_efficiency", 0.5)
    ch.setdefault("full_well_capacity", 100000)
    ch.setdefault("adc_bit_resolution", 16)
    ch.setdefault("adc_voltage_range", [0.0, 8.0])
    if det != "apd":
        ch.setdefault("charge_to_volt_conversion", 2.0 ** -16)
        ch.setdefault("pre_amplification", 4.0)
    sec["characteristics"] = ch
    env = dict(sec["environment"] or {})
    env.setdefault("temperature", 150)
    sec["environment"] = env
    for k in ("total_thickness", "pixel_vert_size", "pixel_horz_size"):
        sec["geometry"].setdefault(k, 10.0)
    return sec


def gen_param(r, calibration):
    if calibration:
        k = r.random()
        p = {"key": r.choice(["detector.characteristics.quantum_efficiency",
                              "pipeline.photon_collection.illumination.arguments.level"]),
             "values": "_" if k < 0.6 else ["_", "_"], "logarithmic": r.random() < 0.3}
        p["boundaries"] = [dy(r, 0.125, 0.5), dy(r, 0.75, 1)] if p["values"] == "_" else \
            [[dy(r, 0.125, 0.5), dy(r, 0.75, 1)], [dy(r, 1, 2), dy(r, 3, 4)]]
        return p
    key = r.choice(["detector.environment.temperature", "detector.characteristics.quantum_efficiency",
                    "pipeline.photon_collection.illumination.arguments.level"])
    if "temperature" in key:
        vals = r.choice([[100, 150.5, 200], Expr(100, 100 + 25 * r.randrange(1, 4), 25), [80, 90]])
    elif "quantum" in key:
        vals = r.choice([[0.25, 0.5], Expr(Fraction(1, 4), 1, Fraction(1, 4)), [0.125, 0.5, 1.0]])
    else:
        vals = r.choice([[10, 20, 30], Expr(1, r.randrange(3, 6), 1), [5, 7.5]])
    p = {"key": key, "values": vals}
    if r.random() < 0.5:
        p["enabled"] = True
    if r.random() < 0.3:
        p["logarithmic"] = r.random() < 0.5
    return p


BUCKETS = ["detector.photon.array", "detector.charge.array", "detector.pixel.array", "detector.signal.array",
           "detector.image.array"]
FORMATS = ["fits", "npy", "txt", "csv", "png", "jpg"]
DATA_KEY = {"exposure": "save_exposure_data", "observation": "save_observation_data",
            "calibration": "save_calibration_data"}

# constructor defaults of pyxel.calibration.Algorithm as documented (stopval is left out: None is stored as -inf)
ALGO_DEFAULTS = dict(type="sade", generations=1, population_size=1, variant=2, variant_adptv=1, ftol=1e-06, xtol=1e-06,
                     memory=False, cr=0.9, eta_c=1.0, m=0.02, param_m=1.0, param_s=2, crossover="exponential",
                     mutation="polynomial", selection="tournament", nlopt_solver="neldermead", maxtime=0, maxeval=0,
                     xtol_rel=1e-08, xtol_abs=0.0, ftol_rel=0.0, ftol_abs=0.0, replacement="best",
                     nlopt_selection="best")


def gen_outputs(r, kind):
    o = {"output_folder": r.choice(["c12_out", "c12_out/sub", "out_" + str(r.randrange(9))])}
    if r.random() < 0.5:
        o["custom_dir_name"] = r.choice(["run_", "c12_", "x"])
    if r.random() < 0.6:
        names = r.sample(BUCKETS, r.randrange(1, 4))
        o["save_data_to_file"] = [{n: r.sample(FORMATS, r.randrange(1, 3))} for n in names]
    if r.random() < 0.3:
        o[DATA_KEY[kind]] = [{"dataset": ["nc"]}] if kind != "calibration" else [{"dataset": ["nc"]}, {"logs": ["csv"]}]
    return o


def gen_algorithm_extras(r):
    cand = dict(variant_adptv=lambda: r.choice([1, 2]), ftol=lambda: 2.0 ** -r.randrange(10, 30),
                xtol=lambda: 2.0 ** -r.randrange(10, 30), memory=lambda: r.random() < 0.5, cr=lambda: dy(r, 0, 1),
                eta_c=lambda: dy(r, 1, 8), m=lambda: dy(r, 0, 1, 5), param_m=lambda: dy(r, 1, 4),
                param_s=lambda: r.randrange(2, 6), crossover=lambda: r.choice(["single", "exponential", "binomial", "sbx"]),
                mutation=lambda: r.choice(["uniform", "gaussian", "polynomial"]),
                selection=lambda: r.choice(["tournament", "truncated"]),
                nlopt_solver=lambda: r.choice(["cobyla", "bobyqa", "neldermead", "sbplx"]),
                maxtime=lambda: r.randrange(0, 100), maxeval=lambda: r.randrange(0, 1000),
                xtol_rel=lambda: 2.0 ** -r.randrange(10, 40), xtol_abs=lambda: dy(r, 0, 1, 6),
                ftol_rel=lambda: dy(r, 0, 1, 6), ftol_abs=lambda: dy(r, 0, 1, 6), stopval=lambda: dy(r, 0, 10),
                replacement=lambda: r.choice(["best", "worst", "random"]),
                nlopt_selection=lambda: r.choice(["best", "worst", "random"]))
    return {k: f() for k, f in cand.items() if r.random() < 0.3}


def gen_mode(r, kind, runnable):
    m = {}
    ro = gen_readout(r)
    if ro is not None:
        m["readout"] = ro
    if r.random() < 0.5:
        m["pipeline_seed"] = r.randrange(0, 10000)
    if not runnable and r.random() < 0.5:
        m["outputs"] = gen_outputs(r, kind)
    if not runnable and kind != "calibration" and r.random() < 0.25 and "times_from_file" not in (ro or {}):
        m["working_directory"] = r.choice(["c12_wd", "c12_wd/deeper"])
    if kind == "exposure":
        if r.random() < 0.4:
            m["result_type"] = r.choice(["all", "image", "signal", "pixel"])
    elif kind == "observation":
        m["parameters"] = [gen_param(r, False)]
        if r.random() < 0.5:
            p2 = gen_param(r, False)
            if p2["key"] != m["parameters"][0]["key"]:
                m["parameters"].append(p2)
        if r.random() < 0.7:
            m["mode"] = r.choice(["product", "sequential"])
            if m["mode"] == "sequential" and len(m["parameters"]) > 1 and runnable:
                m["mode"] = "product"
        if r.random() < 0.5:
            m["with_dask"] = r.random() < 0.6      # the runnable documents of this stream run sequentially (popped below)
        if r.random() < 0.3:
            m["result_type"] = r.choice(["all", "image"])
    else:
        m.update({"target_data_path": ["c12_target_%d.txt" % r.randrange(3)],
                  "fitness_function": {"func": "pyxel.calibration.fitness." +
                                       r.choice(["sum_of_abs_residuals", "sum_of_squared_residuals"])},
                  "algorithm": {"type": r.choice(["sade", "sga"]), "generations": r.randrange(1, 9),
                                "population_size": r.randrange(2, 20)},
                  "parameters": [gen_param(r, True)]})
        if r.random() < 0.5:
            m["algorithm"]["variant"] = r.randrange(1, 10)
        m["algorithm"].update(gen_algorithm_extras(r))
        if r.random() < 0.4:
            m["fitness_function"] = {"func": "verif_probes_c12.fitness",
                                     "arguments": r.choice([{}, {"scale": dy(r, 1, 4)},
                                                            {"scale": dy(r, 1, 4), "offset": r.randrange(5), "tag": "t"}])}
        if r.random() < 0.3:
            m["type_islands"] = r.choice(["multiprocessing", "multithreading"])
        k = r.random()
        if k < 0.3:
            m["weights"] = [dy(r, 0.5, 4)]
        elif k < 0.5:
            m["weights_from_file"] = ["c12_weights_%d.txt" % r.randrange(3)]
        if r.random() < 0.3:
            m["result_input_arguments"] = [{"key": "pipeline.photon_collection.illumination.arguments.level",
                                            "values": r.choice([[1, 2], [10, 20, 30], Expr(1, r.randrange(3, 6), 1)])}]
        for k, f in (("mode", lambda: r.choice(["pipeline", "single_model"])),
                     ("result_type", lambda: r.choice(["image", "signal", "pixel"])),
                     ("result_fit_range", lambda: [0, 2, 0, 3]), ("target_fit_range", lambda: [0, 2, 0, 3]),
                     ("pygmo_seed", lambda: r.randrange(0, 100000)), ("num_islands", lambda: r.randrange(1, 5)),
                     ("num_evolutions", lambda: r.randrange(1, 5)), ("num_best_decisions", lambda: r.randrange(0, 5)),
                     ("topology", lambda: r.choice(["unconnected", "ring", "fully_connected"]))):
            if r.random() < 0.55:
                m[k] = f()
    return m


def gen_settings_cases(ctx: Ctx, n: int, n_run: int):
    r = ctx.rng("settings")
    cases = []
    combos = [(d, m) for d in ("ccd", "cmos", "mkid", "apd") for m in MODES]
    i = 0
    while len(cases) < n:
        det, kind = combos[i % len(combos)]
        i += 1
        runnable = len([c for c in cases if c.get("run")]) < n_run and kind != "calibration"
        sec = gen_detector(r, det)
        if runnable:
            sec = complete_for_run(det, sec, r)
        ch = sec.get("characteristics") or {}
        if not runnable and ch.get("adc_voltage_range") and r.random() < 0.3:
            ch["adc_voltage_range"] = list(reversed(ch["adc_voltage_range"]))   # the file's order is the setting
        doc = {kind: gen_mode(r, kind, runnable), det + "_detector": sec, "pipeline": gen_pipeline(r, runnable)}
        if runnable and kind == "observation":
            doc[kind].pop("with_dask", None)
        items = list(doc.items())
        r.shuffle(items)
        case = dict(k="settings", doc=dict(items), run=bool(runnable), det=det, kind=kind)
        case["derive"] = gen_derive_ops(r, case)
        case["sweeps"] = gen_sweep_ops(r, case)
        cases.append(case)
    return cases


def collect_files(doc):
    out = {}
    if isinstance(doc, TimesFile):
        out[doc.name] = doc.values
    elif isinstance(doc, dict):
        for v in doc.values():
            out.update(collect_files(v))
    elif isinstance(doc, list):
        for v in doc:
            out.update(collect_files(v))
    return out


def to_yaml_doc(doc):
    """replace Expr objects by their text"""
    if isinstance(doc, Expr):
        return doc.text()
    if isinstance(doc, TimesFile):
        return doc.name
    if isinstance(doc, dict):
        return {k: to_yaml_doc(v) for k, v in doc.items()}
    if isinstance(doc, list):
        return [to_yaml_doc(v) for v in doc]
    return doc


def flatten(case):
    """(entries written in the document, defaults for the keys it leaves out) with the driver's key names"""
    doc, det, kind = case["doc"], case["det"], case["kind"]
    ent, dfl = [], []
    sec = doc[det + "_detector"]
    for k, v in sec["geometry"].items():
        ent.append((f"detector.geometry.{k}", v))
    dfl += [(f"detector.geometry.{k}", None) for k in GEO_OPT]
    env = sec.get("environment") or {}
    for k, v in env.items():
        if isinstance(v, dict):
            ent += [(f"detector.environment.{k}.{kk}", vv) for kk, vv in v.items()]
        else:
            ent.append((f"detector.environment.{k}", v))
    dfl.append(("detector.environment.temperature", None))
    ch = sec.get("characteristics") or {}
    for k, v in ch.items():
        ent.append((f"detector.characteristics.{k}", v))
    dfl += [(f"detector.characteristics.{k}", None) for k in (CHAR_APD if det == "apd" else CHAR_STD)]
    m = doc[kind] or {}
    ent.append(("mode.kind", kind))
    for k, v in (m.get("readout") or {}).items():
        if k == "times_from_file":
            ent.append(("mode.readout.times", list(v.values)))     # the setting is the content of the file
        else:
            ent.append((f"mode.readout.{k}", v))
    dfl += [("mode.readout.times", [1]), ("mode.readout.start_time", 0), ("mode.readout.non_destructive", False),
            ("mode.pipeline_seed", None), ("mode.result_type", "image" if kind == "calibration" else "all"),
            ("mode.working_directory", None)]
    if "outputs" in m:
        o = m["outputs"]
        ent.append(("mode.outputs.present", True))
        for kk, vv in o.items():
            ent.append((f"mode.outputs.{kk}", canon_save(vv) if kk.startswith("save_") else vv))
        dfl += [("mode.outputs.custom_dir_name", ""), ("mode.outputs.save_data_to_file", [["detector.image.array", ["fits"]]]),
                (f"mode.outputs.{DATA_KEY[kind]}", None)]
    else:
        dfl.append(("mode.outputs.present", False))
    for k, v in m.items():
        if k in ("readout", "outputs"):
            continue
        if k in ("parameters", "result_input_arguments"):
            ent.append((f"mode.{k}.count", len(v)))
            for i, p in enumerate(v):
                for kk, vv in p.items():
                    ent.append((f"mode.{k}.{i}.{kk}", vv))
                dfl += [(f"mode.{k}.{i}.enabled", True), (f"mode.{k}.{i}.logarithmic", False),
                        (f"mode.{k}.{i}.boundaries", None)]
        elif k == "algorithm":
            for kk, vv in v.items():
                ent.append((f"mode.{k}.{kk}", vv))
        elif k == "fitness_function":
            ent.append(("mode.fitness_function.func", v["func"]))
            if "arguments" in v:
                ent.append(("mode.fitness_function.arguments.count", len(v["arguments"])))
                for a, av in v["arguments"].items():
                    ent.append((f"mode.fitness_function.arguments.{a}", av))
        elif k == "target_data_path":
            ent.append(("mode.target_data_path", list(v)))
        else:
            ent.append((f"mode.{k}", v))
    if kind == "observation":
        dfl += [("mode.mode", "product"), ("mode.with_dask", False)]
    if kind == "calibration":
        dfl += [("mode.mode", "pipeline"), ("mode.result_fit_range", []), ("mode.target_fit_range", []),
                ("mode.num_islands", 1), ("mode.num_evolutions", 1), ("mode.num_best_decisions", None),
                ("mode.topology", "unconnected"), ("mode.type_islands", "multiprocessing"), ("mode.weights", None),
                ("mode.weights_from_file", None), ("mode.result_input_arguments.count", 0),
                ("mode.fitness_function.arguments.count", None)]
        dfl += [(f"mode.algorithm.{a}", v) for a, v in ALGO_DEFAULTS.items()]
    p = doc.get("pipeline") or {}
    for g in PIPE_GROUPS:
        if g not in p or p[g] is None:
            if g in p:
                ent.append((f"pipeline.{g}.count", None))
            else:
                dfl.append((f"pipeline.{g}.count", None))
            continue
        ent.append((f"pipeline.{g}.count", len(p[g])))
        for i, mdl in enumerate(p[g]):
            pre = f"pipeline.{g}.{i}"
            for kk, vv in mdl.items():
                if kk == "arguments":
                    ent.append((pre + ".arguments.count", len(vv or {})))
                    for a, av in (vv or {}).items():
                        ent.append((f"{pre}.arguments.{a}", av))
                else:
                    ent.append((f"{pre}.{kk}", vv))
            dfl += [(pre + ".enabled", True), (pre + ".arguments.count", 0)]
    return ent, dfl


def canon_save(v):
    """[{name: [formats]}, ...] -> [[name, [formats]], ...]  (the form the driver reads back)"""
    if v is None:
        return None
    return [[k, list(f)] for d in v for k, f in d.items()]


def cleaf(v) -> str:
    if isinstance(v, Expr):
        return (f"(LArange {core.cq(v.a.numerator, v.a.denominator)} {core.cq(v.b.numerator, v.b.denominator)} "
                f"{core.cq(v.s.numerator, v.s.denominator)} {v.n()}%nat)")
    if v is None:
        return "LNone"
    if isinstance(v, bool):
        return f"(LBool {core.cbool(v)})"
    if isinstance(v, int):
        return f"(LNum {core.cq(v, 1)})"
    if isinstance(v, float):
        q = Fraction(v)
        return f"(LNum {core.cq(q.numerator, q.denominator)})"
    if isinstance(v, str):
        return f"(LStr {core.cstr(v)})"
    if isinstance(v, dict):
        if set(v) == {"f"}:
            q = Fraction(float.fromhex(v["f"]))
            return f"(LNum {core.cq(q.numerator, q.denominator)})"
        return f"(LStr {core.cstr('<' + json.dumps(v, sort_keys=True)[:60].replace(chr(34), '') + '>')})"
    if isinstance(v, (list, tuple)):
        return f"(LList {core.clist(cleaf(e) for e in v)})"
    raise TypeError(type(v))


def centries(items) -> str:
    return core.clist(f"({core.cstr(k)}, {cleaf(v)})" for k, v in items)


def emit_settings_file(triples) -> str:
    rows = []
    for c, o in triples:
        ent, dfl = flatten(c)
        want = set(expected_keys(c))
        obs = sorted((k, v) for k, v in o["settings"].items() if k in want)
        rows.append(f"SCase {centries(ent)}\n    {centries(dfl)}\n    {centries(obs)}")
    body = ";\n  ".join(rows)
    return (HEAD + "Open Scope string_scope.\n" + f"Definition cases : list scase := [\n  {body}\n].\n"
            "Eval vm_compute in s_mismatches cases.\nEval vm_compute in s_details cases.\n")


def expected_keys(case):
    ent, dfl = flatten(case)
    have = {k for k, _ in ent}
    return [k for k, _ in ent] + [k for k, _ in dfl if k not in have]


def key_class(k: str) -> str:
    parts = [p for p in k.split(".") if not p.isdigit()]
    return ".".join(parts[:3] if parts[0] != "pipeline" else ["pipeline"] + parts[2:3])


def parse_details(text: str):
    import re
    inner = text.strip()
    out = []
    for m in re.finditer(r"\[([^\[\]]*)\]|nil", inner[1:-1]):
        g = m.group(1)
        out.append([int(x) for x in re.findall(r"-?\d+", (g or "").replace("%Z", ""))])
    return out



# ------------------------------------------------------------------------------------------ derived readouts

RO_KEYS = ["mode.readout.times", "mode.readout.start_time", "mode.readout.non_destructive"]
DOP = {"replace": "DReplace", "setter": "DSetter", "copy": "DCopy", "sweep": "DSweep"}


def gen_sweep_ops(r, case):
    """points of a sweep over one detector setting (in-range dyadic values)"""
    cands = [("detector.environment.temperature", dy(r, 60, 400)), ("detector.geometry.pixel_scale", dy(r, 0.5, 5)),
             ("detector.geometry.total_thickness", dy(r, 1, 100)),
             ("detector.characteristics.quantum_efficiency", dy(r, 0.125, 1)),
             ("detector.characteristics.full_well_capacity", r.randrange(1000, 90000))]
    if case["det"] != "apd":
        cands += [("detector.characteristics.pre_amplification", dy(r, 1, 50)),
                  ("detector.characteristics.adc_bit_resolution", r.randrange(8, 33))]
    return [dict(key=k, value=v) for k, v in r.sample(cands, 2)]


def sweep_rows(c, o):
    rows = []
    for op, d in zip(c.get("sweeps") or [], o.get("swept") or []):
        keys = sorted(d["before"])
        before = [(k, d["before"][k]) for k in keys]
        obs = None if "settings" not in d else sorted(d["settings"].items())
        rows.append((dict(op="sweep", changes={op["key"]: op["value"]}), before, [(op["key"], op["value"])], obs, d))
        rows.append((dict(op="sweep", changes={}, of=dict(op="sweep", changes={op["key"]: op["value"]})), before, [],
                     sorted(d["after"].items()), d))
    return rows


def readout_facts(case):
    """(first readout time, start_time, non_destructive) the document means"""
    ro = (case["doc"][case["kind"]] or {}).get("readout") or {}
    t = ro["times_from_file"].values if "times_from_file" in ro else ro.get("times", [1])
    first = t[0] if isinstance(t, list) else (float(t.a) if isinstance(t, Expr) else float(t))
    return float(first), float(ro.get("start_time", 0.0)), bool(ro.get("non_destructive", False))


def gen_derive_ops(r, case):
    """derivations of the loaded readout; new times are always valid for the start time that is kept"""
    first, start, nd = readout_facts(case)
    base = max(start, 0.0)

    def new_times():
        a = base + dy(r, 0.25, 3, 2)
        k = r.random()
        if k < 0.35:
            return a
        ts = [a]
        for _ in range(r.randrange(0, 3)):
            ts.append(ts[-1] + dy(r, 0.25, 2, 2))
        return ts

    s2 = r.choice([first / 2, first / 4, first / 8, 0.0])
    if s2 == start:
        s2 = first * 3 / 4
    ops = [dict(op="replace", changes={"times": new_times()}),
           dict(op="setter", changes={"times": new_times()}),
           dict(op="replace", changes={"start_time": s2}),
           dict(op="replace", changes={"non_destructive": not nd}),
           dict(op="replace", changes={"times": new_times(), "non_destructive": not nd}),
           dict(op="setter", changes={"start_time": s2}),
           dict(op="setter", changes={"non_destructive": not nd}),
           dict(op="copy", changes={})]
    return ops


def derive_rows(c, o):
    """[(op, settings of the loaded readout, changes, observed | None)] for one settings case"""
    rows = []
    for op, d in zip(c.get("derive") or [], o.get("derived") or []):
        before = [(k, d["before"][k]) for k in RO_KEYS]
        ch = []
        for k, v in op["changes"].items():
            if k == "times":
                v = v if isinstance(v, list) else [v]
            ch.append((f"mode.readout.{k}", v))
        obs = None if "settings" not in d else [(k, d["settings"][k]) for k in RO_KEYS]
        rows.append((op, before, ch, obs, d))
        # the loaded readout itself must not change under a derivation
        rows.append((dict(op="copy", changes={}, of=op), before, [], [(k, d["after"][k]) for k in RO_KEYS], d))
    return rows


def emit_derive_file(rows) -> str:
    out = []
    for op, before, ch, obs, _ in rows:
        o = "None" if obs is None else f"(Some {centries(obs)})"
        out.append(f"DCase {DOP[op['op']]} {centries(before)}\n    {centries(ch)}\n    {o}")
    body = ";\n  ".join(out)
    return (HEAD + "Open Scope string_scope.\n" + f"Definition cases : list dcase := [\n  {body}\n].\n"
            "Eval vm_compute in d_mismatches src_replace_carried cases.\nEval vm_compute in d_violations cases.\n")


def plain(v):
    """message-only normal form of a leaf ({'f': hex} -> float)"""
    if isinstance(v, dict) and set(v) == {"f"}:
        return float.fromhex(v["f"])
    if isinstance(v, (list, tuple)):
        return [plain(e) for e in v]
    if isinstance(v, bool) or v is None or isinstance(v, str):
        return v
    return float(v)


def derive_violation(c, row) -> Violation:
    op, before, ch, obs, d = row
    of = op.get("of")
    changed = sorted(k for k, _ in ch)
    if of is not None:
        what = (f"{c['det']}/{c['kind']}: {of['op']}({of['changes']}) on the loaded readout changed the loaded readout "
                f"itself: before {dict(before)}, after {dict(obs)}")
        sig = dict(clause="derived_keeps", op=of["op"], aspect="original-modified")
    elif obs is None:
        what = (f"{c['det']}/{c['kind']}: readout.{op['op']}({op['changes']}) on the loaded readout {dict(before)} raised "
                f"{d.get('raised')}: {d.get('msg')}")
        sig = dict(clause="derived_keeps", op=op["op"], changed=changed, aspect="valid-change-refused")
    else:
        want = dict(before)
        want.update(dict(ch))
        differs = sorted(k for k in want if plain(dict(obs).get(k, "<missing>")) != plain(want[k]))
        what = (f"{c['det']}/{c['kind']}: {op['op']}({op['changes']}) on the loaded "
                f"{'detector' if op['op'] == 'sweep' else 'readout'} "
                f"{ {k: plain(v) for k, v in before if k in differs or op['op'] != 'sweep'} } gives "
                f"{ {k: plain(v) for k, v in obs if k in differs or op['op'] != 'sweep'} }: {differs} differ from "
                f"<unchanged settings kept, changed settings set>")
        sig = dict(clause="derived_keeps", op=op["op"], changed=changed, aspect="setting-lost")
    only = dict(derive=[of or op], sweeps=None) if (of or op)["op"] != "sweep" else \
        dict(derive=None, sweeps=[dict(key=k, value=v) for k, v in (of or op)["changes"].items()])
    return Violation(clause="derived_keeps", case=dict(jcase(c), **only), observed=d,
                     expected="a derived readout keeps every setting that was not changed and has the new value of "
                              "the changed ones; the loaded readout is left alone",
                     what=what, sig=sig)


def run_derived(ctx: Ctx, pairs, tag="d"):
    rows = []
    for c, o in pairs:
        for row in derive_rows(c, o) + sweep_rows(c, o):
            rows.append((c, row))
    if not rows:
        return [], []
    per = 200
    files = {f"{tag}_{k // per:03d}": emit_derive_file([r for _, r in rows[k:k + per]]) for k in range(0, len(rows), per)}
    ev = eval_files(ctx, files)
    mism, viol = [], []
    for k, name in enumerate(sorted(files)):
        if ev[name] is None:
            continue
        chunk = rows[k * per:(k + 1) * per]
        mism += [chunk[i] for i in core.parse_int_list(ev[name][0])]
        viol += [chunk[i] for i in core.parse_int_list(ev[name][1])]
    for c, row in rows:
        if row[0].get("of") is None:
            ctx.count("evaluations")
            ctx.count("derived_readouts")
            ctx.dist("derive_op", row[0]["op"] + "(" + ",".join(sorted(row[0]["changes"])) + ")")
            ctx.dist("derive_outcome", "raised" if row[3] is None else "derived")
    return mism, viol


# ------------------------------------------------------------------------------------------ sweep over the readout times


def gen_sweep_cases(ctx: Ctx, n: int):
    """observations that sweep 'observation.readout.times' with readout settings other than the defaults"""
    r = ctx.rng("sweep")
    cases = []
    dets = ["ccd", "cmos", "mkid", "apd"]
    r.shuffle(dets)
    for i in range(n):
        det = dets[i % 4]
        sec = complete_for_run(det, gen_detector(r, det), r)
        sec["characteristics"]["quantum_efficiency"] = 1.0
        t0 = dy(r, 1, 3, 2)
        start = r.choice([t0 / 2, t0 / 4, 0.125, 0.5])
        vals, t = [], start
        for _ in range(r.randrange(2, 4)):
            t = t + dy(r, 0.25, 2, 2)
            vals.append(t)
        ro = {"times": [t0], "start_time": start}
        if r.random() < 0.5:
            ro["non_destructive"] = r.random() < 0.5
        obs = {"with_dask": True if i % 3 != 2 else False, "readout": ro,
               "parameters": [{"key": "observation.readout.times", "values": vals}]}
        if r.random() < 0.4:
            obs["pipeline_seed"] = r.randrange(1000)
        pipe = {
            "photon_collection": [{"name": "illumination", "func": "pyxel.models.photon_collection.illumination",
                                   "enabled": True, "arguments": {"level": r.randrange(8, 400), "time_scale": 1.0}}],
            "charge_generation": [{"name": "simple_conversion", "func": "pyxel.models.charge_generation.simple_conversion",
                                   "enabled": True, "arguments": {"binomial_sampling": False}}],
            "charge_collection": [{"name": "simple_collection", "func": "pyxel.models.charge_collection.simple_collection",
                                   "enabled": True}],
            "charge_measurement": [{"name": "simple_measurement",
                                    "func": "pyxel.models.charge_measurement.simple_measurement", "enabled": True}],
            "readout_electronics": [{"name": "simple_adc", "func": "pyxel.models.readout_electronics.simple_adc",
                                     "enabled": True}],
        }
        doc = {"observation": obs, det + "_detector": sec, "pipeline": pipe}
        cases.append(dict(k="sweeprun", doc=doc, det=det, kind="observation"))
    return cases


def run_sweeps(ctx: Ctx, cases):
    obs = run_driver(ctx, cases, workers=min(8, max(1, len(cases))))
    for c, o in zip(cases, obs):
        if "loaded" not in o:
            ctx.broken.append(Broken("correspondence", "sweep driver crashed", str(o)[:600], c))
            continue
        ctx.count("evaluations")
        ctx.count("sweep_runs")
        dask = bool(c["doc"]["observation"].get("with_dask"))
        ctx.dist("sweep", ("dask" if dask else "sequential") + ("/ran" if o.get("ran") else "/raised"))
        if not o["loaded"] or not o.get("ran"):
            ctx.violations.append(Violation(
                clause="sweep_run_equal", case=c, observed=o, expected="a valid sweep over the readout times loads and runs",
                what=f"{c['det']}: observation sweeping observation.readout.times does not run: {o.get('exc')}: {o.get('msg')}",
                sig=dict(clause="sweep_run_equal", aspect="does-not-run", dask=dask)))
            continue
        if dask and not o.get("same_points"):
            ctx.violations.append(Violation(
                clause="sweep_run_equal", case=c, observed=o,
                expected="every point of the sweep = an Exposure built in Python with Readout(times=[t], start_time and "
                         "non_destructive as written in the file)",
                what=f"{c['det']}: dask sweep over observation.readout.times with readout "
                     f"{c['doc']['observation']['readout']}: {o.get('diff')}",
                sig=dict(clause="sweep_run_equal", aspect="point-differs-from-python-built-exposure", dask=dask)))
        if not o.get("same_built"):
            ctx.violations.append(Violation(
                clause="sweep_run_equal", case=c, observed=o,
                expected="run_mode on the loaded observation = run_mode on the same observation built in Python",
                what=f"{c['det']}: sweep over observation.readout.times: loaded and Python-built observation differ in "
                     f"{o.get('diff_built')}",
                sig=dict(clause="sweep_run_equal", aspect="loaded-differs-from-built", dask=dask)))
    return obs


# ------------------------------------------------------------------------------------------ legs


def run_driver(ctx, payloads, workers=8):
    """core.run_driver; payloads whose worker process was lost (machine load, a timeout) are run once more in small
    chunks.  An answer of the implementation - a violation included - is never retried."""
    obs = core.run_driver(ctx, "c12", payloads, workers=workers)
    lost = [i for i, o in enumerate(obs) if isinstance(o, dict) and "crash" in o]
    if lost:
        ctx.count("driver_payloads_retried", len(lost))
        again = core.run_driver(ctx, "c12", [payloads[i] for i in lost], workers=min(4, len(lost)), chunk=max(1, len(lost) // 16))
        for i, o in zip(lost, again):
            obs[i] = o
    return obs


def eval_files(ctx, files, n_evals=2):
    res = core.coq_eval_many(ctx, files, timeout=600, par=8)
    out = {}
    for name in files:
        ok, evals, se = res[name]
        if not ok or len(evals) != n_evals:
            ctx.broken.append(Broken("correspondence", f"case file {name}.v did not evaluate", core.tail(se, 15)))
            out[name] = None
        else:
            out[name] = evals
    return out


def run_guards(ctx: Ctx, cases, tag="g"):
    obs = run_driver(ctx, cases, workers=8)
    ctx.log("guard driver done")
    pairs = []
    for c, o in zip(cases, obs):
        if "accepted" not in o:
            ctx.broken.append(Broken("correspondence", "guard driver: unexpected exception class / crash",
                                     str(o)[:400], c))
            continue
        pairs.append((c, o))
        if o["accepted"] and not o.get("stored", True) and not coq_sees_stored(o):
            # a sequence is compared element by element here; numbers are judged inside Coq (gcase_violates)
            ctx.violations.append(stored_violation(c, o))
    per = 400
    files = {f"{tag}_{k // per:03d}": emit_guard_file(pairs[k:k + per]) for k in range(0, len(pairs), per)}
    ev = eval_files(ctx, files)
    mism, viol = [], []
    for k, name in enumerate(sorted(files)):
        if ev[name] is None:
            continue
        chunk = pairs[k * per:(k + 1) * per]
        mism += [chunk[i] for i in core.parse_int_list(ev[name][0])]
        viol += [chunk[i] for i in core.parse_int_list(ev[name][1])]
    for c, o in pairs:
        ctx.count("evaluations")
        ctx.dist("guard_path", c["path"])
        ctx.dist("guard_value", classify_value(c))
        ctx.dist("guard_outcome", "accepted" if o["accepted"] else o.get("exc"))
    return pairs, mism, viol


def run_keys(ctx: Ctx, cases):
    obs = run_driver(ctx, cases, workers=8)
    pairs = []
    for c, o in zip(cases, obs):
        if "loaded" not in o:
            ctx.broken.append(Broken("correspondence", "keys driver crashed", str(o)[:400], c))
            continue
        pairs.append((c, o))
    per = 400
    files = {f"e_{k // per:03d}": emit_keys_file(pairs[k:k + per]) for k in range(0, len(pairs), per)}
    ev = eval_files(ctx, files)
    mism, viol = [], []
    for k, name in enumerate(sorted(files)):
        if ev[name] is None:
            continue
        chunk = pairs[k * per:(k + 1) * per]
        mism += [chunk[i] for i in core.parse_int_list(ev[name][0])]
        viol += [chunk[i] for i in core.parse_int_list(ev[name][1])]
    for c, o in pairs:
        ctx.count("evaluations")
        nm, nd, fm, fd = key_counts(c)
        ctx.dist("keys_modes_x_detectors", f"{min(nm, 2)}x{min(nd, 2)}")
        ctx.dist("keys_filled_modes_of_present", f"{min(fm, 2)}/{min(nm, 2)}")
        ctx.dist("keys_filled_detectors_of_present", f"{min(fd, 2)}/{min(nd, 2)}")
        ctx.dist("keys_outcome", "loaded" if o["loaded"] else str(o.get("exc")))
    return pairs, mism, viol


def run_settings(ctx: Ctx, cases, tag="s"):
    payloads = [dict(k="settings", doc=to_yaml_doc(c["doc"]), run=c["run"], derive=c.get("derive"),
                     sweeps=c.get("sweeps"), files=collect_files(c["doc"])) for c in cases]
    obs = run_driver(ctx, payloads, workers=8)
    ctx.log("settings driver done")
    pairs = []
    for c, o in zip(cases, obs):
        if "loaded" not in o:
            ctx.broken.append(Broken("correspondence", "settings driver crashed", str(o)[:600], jcase(c)))
            continue
        if not o["loaded"]:
            ctx.violations.append(Violation(
                clause="valid_document_refused", case=jcase(c), observed=o, expected="a valid document loads",
                what=f"a valid {c['det']}/{c['kind']} document is refused: {o.get('exc')}: {o.get('msg')}",
                sig=dict(clause="valid_document_refused", det=c["det"], kind=c["kind"], exc=o.get("exc"))))
            continue
        pairs.append((c, o))
        bd = o.get("built_diff") or {}
        if bd.get("keys") or bd.get("raised"):
            ctx.violations.append(Violation(
                clause="loaded_equals_built", case=jcase(c), observed=bd,
                expected="every setting of the loaded objects = the setting of the same objects built in Python",
                what=(f"{c['det']}/{c['kind']}: the Python-built objects cannot be built: {bd.get('raised')}: {bd.get('msg')}"
                      if bd.get("raised") else
                      f"{c['det']}/{c['kind']}: settings {bd['keys'][:4]} of the loaded objects differ from the same objects "
                      f"built in Python: loaded {json.dumps(bd.get('loaded'), default=str)[:200]}, built "
                      f"{json.dumps(bd.get('built'), default=str)[:200]}"),
                sig=dict(clause="loaded_equals_built",
                         keys=sorted({key_class(k) for k in bd.get("keys", [])})[:3] or ["<raised>"])))
    per = 6
    files = {f"{tag}_{k // per:03d}": emit_settings_file(pairs[k:k + per]) for k in range(0, len(pairs), per)}
    ev = eval_files(ctx, files)
    bad = []
    for k, name in enumerate(sorted(files)):
        if ev[name] is None:
            continue
        chunk = pairs[k * per:(k + 1) * per]
        idx = core.parse_int_list(ev[name][0])
        det = parse_details(ev[name][1])
        for i in idx:
            c, o = chunk[i]
            keys = expected_keys(c)
            pos = det[i] if i < len(det) else []
            bad.append((c, o, [keys[p] if 0 <= p < len(keys) else "<malformed case>" for p in pos]))
    for c, o in pairs:
        ctx.count("evaluations", len(expected_keys(c)))
        ctx.count("documents")
        written = {key_class(k) for k, _ in flatten(c)[0]}
        for kc in written:
            ctx.dist("setting_written_in_documents", kc)
        ctx.dist("settings_det_x_mode", f"{c['det']}/{c['kind']}")
        if c["run"]:
            ctx.count("runs_compared")
            rr = o.get("run") or {}
            ctx.dist("run", "ran" if rr.get("ran") else "both-raised" if rr.get("same") else "differ")
            if not rr.get("same"):
                ctx.violations.append(Violation(
                    clause="run_equal", case=jcase(c), observed=rr,
                    expected="run_mode on the loaded objects = run_mode on the same objects built in Python",
                    what=f"{c['det']}/{c['kind']}: results differ in {rr.get('diff')}",
                    sig=dict(clause="run_equal", det=c["det"], kind=c["kind"])))
    return pairs, bad


def jcase(c):
    return dict(k="settings", doc=to_yaml_doc(c["doc"]), run=c["run"], det=c["det"], kind=c["kind"],
                exprs=collect_exprs(c["doc"]), derive=c.get("derive"), sweeps=c.get("sweeps"),
                files=collect_files(c["doc"]))


def collect_exprs(doc, path=""):
    out = {}
    if isinstance(doc, Expr):
        out[path] = [str(doc.a), str(doc.b), str(doc.s)]
    elif isinstance(doc, dict):
        for k, v in doc.items():
            out.update(collect_exprs(v, f"{path}/{k}"))
    elif isinstance(doc, list):
        for i, v in enumerate(doc):
            out.update(collect_exprs(v, f"{path}/{i}"))
    return out


def restore_exprs(doc, exprs, path="", files=None):
    files = files or {}
    if path in exprs:
        a, b, s = exprs[path]
        return Expr(Fraction(a), Fraction(b), Fraction(s))
    if path.endswith("/times_from_file") and isinstance(doc, str) and doc in files:
        return TimesFile(files[doc], doc)
    if isinstance(doc, dict):
        return {k: restore_exprs(v, exprs, f"{path}/{k}", files) for k, v in doc.items()}
    if isinstance(doc, list):
        return [restore_exprs(v, exprs, f"{path}/{i}", files) for i, v in enumerate(doc)]
    return doc


def settings_violation(c, o, keys) -> Violation:
    obs = {k: o["settings"].get(k, "<missing>") for k in keys[:8]}
    ent, dfl = flatten(c)
    want = dict(dfl)
    want.update(dict(ent))
    exp = {k: (want[k].text() if isinstance(want.get(k), Expr) else want.get(k)) for k in keys[:8]}
    return Violation(clause="settings_preserved", case=jcase(c), observed=obs, expected=exp,
                     what=f"{c['det']}/{c['kind']}: setting(s) {keys[:4]} differ from the document: "
                          f"read back {json.dumps(obs, default=str)[:200]}, written {json.dumps(exp, default=str)[:200]}",
                     sig=dict(clause="settings_preserved", keys=sorted({key_class(k) for k in keys})[:3]))


def run(ctx: Ctx):
    from translator import c12 as tr

    ctx.trusted += TRUSTED
    ctx.assumptions += [
        "values range over None, finite numbers (as exact rationals), NaN, +-inf and sequences by length, carried by a "
        "python int/float or by a numpy scalar (int64/int32/float32: not an instance of int | float); bool, strings, "
        "numpy arrays and numpy +-inf as field values are outside the quantifier",
        "+-inf is judged as an extended real: inside exactly the documented intervals that have no bound on that side",
        "for a number carried by a numpy scalar the statement is one-directional (an out-of-range value is refused); a "
        "guard may be type-strict about an in-range one (Environment.wavelength setter)",
        "integrality of row / col / adc_bit_resolution is not part of the documented range that is checked: a fractional "
        "value inside the range may be accepted, but then it must be the value the field holds",
        "a float in row / col through YAML may be refused by the frame allocation downstream of the guard "
        "(Model.Config.alloc_strict): there the guard is compared one-directionally",
        "an empty section (`key:` / `key: {}`) that is the only one of its group may be refused by its builder or loaded "
        "with defaults (not judged); it must never be skipped in favour of, or hide, another section",
        "None is 'not specified': the constructor must take it iff the field is optional; no claim for setters",
        "row / col = +inf is not driven through YAML (the guard takes it as a number > 0, the frame allocation refuses it)",
        "documents use dyadic numbers so that every float operation of the loader is exact",
    ]
    gen = {}
    try:
        gen["Gen_C12.v"] = tr.translate(ctx.repo)
    except core.TranslationError as ex:
        ctx.broken.append(Broken("translation", "range guards / exactly-one checks", str(ex)))
        ctx.log("translation failed:", ex)
        gen["Gen_C12.v"] = tr.FALLBACK
    core.proof_leg(ctx, gen, PROP_FILE)

    gcases = gen_guard_cases(ctx, ctx.budget(4, 25))
    ctx.log(f"proof leg done; {len(gcases)} guard cases")
    gp, gm, gv = run_guards(ctx, gcases)
    ctx.log("guard leg done")
    for c, o in sorted(gv, key=lambda co: len(show_value(co[0]["x"]))):      # the simplest failing value first
        ctx.violations.append(guard_violation(c, o))
    for c, o in gm:
        ctx.broken.append(Broken("correspondence", "regenerated guard vs implementation",
                                 f"{c['cls']}.{c['field']} via {c['path']} on {show_value(c['x'])}: implementation "
                                 f"{'accepts' if o['accepted'] else 'refuses'}, the translated guard says otherwise",
                                 dict(case=c, observed=o)))
    kp, km, kv = run_keys(ctx, gen_key_cases(ctx))
    for c, o in kv:
        ctx.violations.append(keys_violation(c, o))
    for c, o in km:
        ctx.broken.append(Broken("correspondence", "regenerated exactly-one checks vs pyxel.load",
                                 f"document [{show_doc(c)}]: loaded={o.get('loaded')} used={o.get('used')}; the "
                                 f"translated loader says otherwise", dict(case=c, observed=o)))
    cp, cm, cv = run_direct(ctx, gen_direct_cases(ctx))
    for c, o in cv:
        ctx.violations.append(direct_violation(c, o))
    for c, o in cm:
        ctx.broken.append(Broken("correspondence", "regenerated Configuration.__post_init__ checks vs Configuration(...)",
                                 f"objects {c['given']}: accepted={o.get('accepted')}; the translated checks say otherwise",
                                 dict(case=c, observed=o)))
    ctx.log("key leg done")
    scases = gen_settings_cases(ctx, ctx.budget(48, 240), ctx.budget(10, 40))
    sp, sbad = run_settings(ctx, scases)
    ctx.log("settings leg done")
    for c, o, keys in sbad:
        ctx.violations.append(settings_violation(c, o, keys))
    dm, dv = run_derived(ctx, sp)
    for c, row in dv:
        ctx.violations.append(derive_violation(c, row))
    for c, row in dm:
        ctx.broken.append(Broken("correspondence", "regenerated Readout.replace vs implementation",
                                 f"replace({row[0]['changes']}) on {dict(row[1])} gives {row[3]}; the translated "
                                 f"replace() says otherwise", dict(case=jcase(c), op=row[0], observed=row[4])))
    sw = run_sweeps(ctx, gen_sweep_cases(ctx, ctx.budget(4, 16)))
    ctx.log("derived-readout and sweep legs done")

    seen = {json.dumps([c["cls"], c["field"], c["path"], c["x"]], sort_keys=True) for c, _ in gp
            if c["x"]["t"] != "none"}
    ctx.cov["distinct_nontrivial"] = len(seen) + len(kp) + len(cp) + len(sp)
    ctx.cov["rule"] = ("guard cases: distinct (field, path, value) with a value other than None (corpus of the formerly "
                       "failing inputs first; boundaries +-1 ulp, +-1, x2, x10, 0, -0, subnormal, 1e308, NaN, +-inf, integers "
                       "around the bounds, random; the same numbers carried by numpy int64/int32/float32/float64 scalars; "
                       "sequences of length 0..4; for the integer-like quantities row / col / adc_bit_resolution also values "
                       "that are not whole numbers - strictly between 0 and 1 and between each bound and the next integer) "
                       "for all 19 documented fields x 4 paths, the value read back from the field compared inside Coq; "
                       "key cases: all 128 subsets of the 3 mode and 4 detector keys with filled sections, every assignment "
                       "of {absent, filled, `key:`, `key: {}`} to the mode keys (64) and to the detector keys (256) next to "
                       "one filled section of the other group in both orders, and sampled (thorough: all 16384) "
                       "assignments to both groups; settings: distinct generated documents (4 detector types x 3 modes, "
                       "optional keys present/absent, range expressions, times from a file, outputs, algorithm parameters, "
                       "probes and real models in the pipeline), each with 8 derived readouts and 2 sweep points")
    ctx.cov["traces_validated_against_impl"] = len(gp) + len(kp) + len(cp) + len(sp)
    ctx.cov["disagreements_checked"] = len(gm) + len(km) + len(cm)
    ctx.cov["exhaustive"] = {"top_level_key_subsets": 128, "mode_section_state_assignments": 64,
                             "detector_section_state_assignments": 256}
    if ctx.tier == "thorough":
        ctx.cov["exhaustive"]["mode_x_detector_section_state_assignments"] = 16384
    for c, o in gp[:2] + kp[5:6]:
        ctx.sample(dict(case=c, observed=o))
    for c, o in sp[:1]:
        ctx.sample(dict(doc=to_yaml_doc(c["doc"]), n_settings=len(o["settings"]), run=o.get("run")))
    (ctx.build / "violations.json").write_text(json.dumps(
        [dict(sig=v.sig, what=v.what) for v in ctx.violations], indent=1, default=str))
    (ctx.build / "broken.json").write_text(json.dumps(
        [dict(kind=b.kind, name=b.name, detail=b.detail) for b in ctx.broken], indent=1, default=str))
    if ctx.broken and not new_violations(ctx):
        search(ctx)


def new_violations(ctx: Ctx):
    fs = core.load_findings(ctx.prop)
    return [v for v in ctx.violations if not any(core.finding_matches(e, v) for e in fs)]


def search(ctx: Ctx):
    """A proof obligation or the correspondence broke without a new failing input: look harder."""
    ctx.log("searching for a concrete failing input (denser values, more documents)")
    gp, gm, gv = run_guards(ctx, gen_guard_cases(ctx, 60), tag="sg")
    for c, o in gv:
        ctx.violations.append(guard_violation(c, o))
    r = ctx.rng("search")
    scases = gen_settings_cases(ctx, 120, 12)
    sp, sbad = run_settings(ctx, scases, tag="ss")
    for c, o, keys in sbad:
        ctx.violations.append(settings_violation(c, o, keys))
    dm, dv = run_derived(ctx, sp, tag="sd")
    for c, row in dv:
        ctx.violations.append(derive_violation(c, row))
    sw = gen_sweep_cases(ctx, 8)
    run_sweeps(ctx, sw)
    ctx.cov["search_cases"] = len(gp) + len(sp) + len(sw)


def replay(ctx: Ctx, rp: dict) -> int:
    case = rp.get("case")
    if rp.get("kind") != "input" or not case:
        print(f"replay names a {rp.get('kind')} that no longer checks: {rp.get('no_longer_checks')}")
        print(rp.get("detail", ""))
        return 1
    from translator import c12 as tr
    gen = ctx.build / "gen"
    gen.mkdir(parents=True, exist_ok=True)
    try:
        text = tr.translate(ctx.repo)
    except core.TranslationError:
        text = tr.FALLBACK
    (gen / "Gen_C12.v").write_text(text)
    core.ensure_lib(ctx, targets=["theories/Model/Config.vo"])
    core.coqc(ctx, gen / "Gen_C12.v", [(gen, "PyxelGen")])
    print("case:", json.dumps(case)[:1500])
    k = case.get("k")
    if k == "guard":
        o = core.run_driver(ctx, "c12", [case], workers=1)[0]
        print("implementation now returns:", o)
        if "accepted" not in o:
            return 1
        ok, ev, se = core.coq_eval(ctx, "replay", emit_guard_file([(case, o)]))
        bad = (ok and core.parse_int_list(ev[1]) != []) or bool(o["accepted"] and not o.get("stored", True))
    elif k == "keys":
        o = core.run_driver(ctx, "c12", [case], workers=1)[0]
        print("implementation now returns:", o)
        ok, ev, se = core.coq_eval(ctx, "replay", emit_keys_file([(case, o)]))
        bad = ok and core.parse_int_list(ev[1]) != []
    elif k == "direct":
        o = core.run_driver(ctx, "c12", [case], workers=1)[0]
        print("implementation now returns:", o)
        if "accepted" not in o:
            return 1
        ok, ev, se = core.coq_eval(ctx, "replay", emit_direct_file([(case, o)]))
        bad = (ok and core.parse_int_list(ev[1]) != []) or (o["accepted"] and not o.get("holds_given", True))
    elif k == "sweeprun":
        o = core.run_driver(ctx, "c12", [case], workers=1)[0]
        print("implementation now returns:", json.dumps(o)[:1500])
        dask = bool(case["doc"]["observation"].get("with_dask"))
        bad = not (o.get("loaded") and o.get("ran") and o.get("same_built") and (o.get("same_points") or not dask))
    else:
        c = dict(doc=restore_exprs(case["doc"], case.get("exprs", {}), files=case.get("files")),
                 run=case.get("run", False), det=case["det"], kind=case["kind"], derive=case.get("derive"),
                 sweeps=case.get("sweeps"))
        o = core.run_driver(ctx, "c12", [dict(k="settings", doc=case["doc"], run=c["run"], derive=c["derive"],
                                              sweeps=c["sweeps"], files=case.get("files"))], workers=1)[0]
        print("implementation now returns:", json.dumps(o)[:1500])
        if not o.get("loaded"):
            bad = True
        elif rp.get("clause") == "derived_keeps":
            rows = derive_rows(c, o) + sweep_rows(c, o)
            ok, ev, se = core.coq_eval(ctx, "replay", emit_derive_file(rows))
            idx = core.parse_int_list(ev[1]) if ok else []
            bad = ok and idx != []
            for i in idx:
                print("derived readout that breaks the specification:", derive_violation(c, rows[i]).what)
        else:
            ok, ev, se = core.coq_eval(ctx, "replay", emit_settings_file([(c, o)]))
            bad = (ok and core.parse_int_list(ev[0]) != []) or (c["run"] and not (o.get("run") or {}).get("same"))
            if ok and core.parse_int_list(ev[0]) != []:
                keys = expected_keys(c)
                print("settings that differ:", [keys[p] for p in parse_details(ev[1])[0] if 0 <= p < len(keys)])
    how = "results compared by the driver" if k == "sweeprun" else "evaluated in Coq"
    print(f"specification ({how}):", "VIOLATED" if bad else "holds")
    return 1 if bad else 0


META = dict(
    level_text=(
        "Coq theorems over tables regenerated from the source on every run. REFUSAL, at full strength and without exception "
        "list (C12_same_limits): for every documented field of Geometry(+subclasses)/Characteristics/Environment/"
        "APDCharacteristics, the constructor guard and the setter guard accept a value carried by a python int/float "
        "exactly when it is inside the documented range - for ALL rationals, NaN, +-inf and all sequence lengths - and "
        "refuse every out-of-range number whatever carries it (numpy.int64/int32/float32 scalars included); decided by a "
        "reflective checker over half-lines proved sound for all inputs (the 28 defects of the unrepaired tree that refuted "
        "this statement were repaired by fix: commits; a regression makes the theorem fail and is reported with a concrete "
        "input). STORED (C12_stored_is_written, C12_accepted_is_kept_in_range): what each constructor / setter keeps of the "
        "value is regenerated too (`self._f = f`, `float(f)`, `int(f)` ...); for every documented field and every value, the "
        "value that is kept is the value that was given, hence inside the documented range (a truncating store fails the "
        "theorem). EXACTLY-ONE (C12_exactly_one, _two_sections_refused, _uses_it, _built): for EVERY assignment of "
        "{absent, `key:`, `key: {}`, filled} to the top-level keys, the regenerated loader (count checks WITH their way of "
        "counting a section, order of the if/elif chains, checks of Configuration.__post_init__) hands sections m, d to their "
        "builders iff m is the only mode key and d the only detector key present - an empty section is never skipped in "
        "favour of, and never hides, another one; Configuration(...) called directly takes the objects iff exactly one of "
        "each is given. SETTINGS: the document->settings map is lossless and derived objects "
        "(Readout.replace, regenerated list of carried settings; setters; sweep points) keep every setting that was not "
        "changed - theorems about a structural MODEL. That the code behaves like the tables/model is established by "
        "correspondence (= testing): every field x 6 paths (constructor, from_dict, YAML, attribute, Processor.set, a real "
        "observation run) on boundary/out-of-range/NaN/inf/None/numpy-carried values and - for row/col/adc_bit_resolution - "
        "values that are not whole numbers, the value read back from the field compared inside Coq; all 128 subsets of "
        "mode/detector keys and every assignment of section states to the mode keys and to the detector keys through "
        "pyxel.load (both file orders), all 128 sets of objects through Configuration(...); generated "
        "documents over 4 detectors x 3 modes (readout incl. times_from_file, outputs, parameters, every Algorithm parameter, "
        "fitness arguments ...) read back leaf by leaf and compared inside Coq and with the same objects built in Python, "
        "derived readouts / sweep points compared inside Coq, run_mode on YAML-built vs Python-built objects, and dask "
        "sweeps over observation.readout.times against one Python-built Exposure per point."),
    level_note=(
        "Trusted: Coq kernel + vm_compute; translator/c12.py; the literal table of documented ranges, of readout settings and "
        "of defaults; the correspondence harness and driver; PyYAML; numpy.arange on dyadic inputs. The loading half (settings "
        "preserved, derived objects, run equality) is testing of pyxel.load / Readout.replace / Processor.replace against a "
        "proved model, not a proof about the code. The checker is sound but incomplete (a guard written as a union of "
        "intervals would be reported as unchecked). Integrality of row/col/adc_bit_resolution is not part of the checked "
        "range (a fractional value inside the range may be accepted or refused; if accepted it must be what the field "
        "holds); a guard may be type-strict about in-range numpy scalars. An empty section that is the only one of its "
        "group may be refused by its builder or loaded with defaults (not judged)."),
    technique="Coq proof over regenerated guard tables (reflective interval checker) + in-Coq correspondence/spec evaluation",
    design_ref="DESIGN.md section 6, C12",
)
