"""C19 — output files are complete, correctly attributed and never clobbered."""
from __future__ import annotations

import json

from .. import core
from ..core import Broken, Ctx, Violation

PROP_FILE = "Properties/C19.v"
TS = "20240102_030405"
BUCKETS = ["photon", "charge", "pixel", "signal", "image"]
BCOQ = {b: b.capitalize() for b in BUCKETS}
FMTS = ["fits", "hdf", "npy", "txt", "csv", "png", "jpg", "jpeg"]
FCOQ = {f: f.capitalize() for f in FMTS}
OLD_EXT = {"fits": "fits", "hdf": "h5", "npy": "npy", "txt": "txt", "csv": "csv", "png": "png", "jpg": "jpg",
           "jpeg": "jpg"}
WRITERS = [("to_fits", "fits"), ("to_hdf", "h5"), ("to_npy", "npy"), ("to_txt", "txt"), ("to_csv", "csv"),
           ("to_png", "png"), ("to_jpg", "jpg"), ("write_to_fits", None), ("write_to_jpg", None),
           ("write_to_npy", None)]
MODE = {"exposure": "MExposure", "seq": "MSeq", "dask": "MDask"}

TRUSTED = [
    "translator/c19.py (mkdir retry-loop shape and exist_ok flag; exists-behaviour of every to_*/write_to_* writer; "
    "the format dispatch tables of save_to_files and Outputs.save_to_file; extension templates; build_filenames reads "
    "only self.save_data_to_file; first-item/all-items and replace/merge shape of Outputs.save_to_file; the outputs "
    "argument of run_pipeline in Observation._run_single_pipeline; the outputs entry of the dask kwargs) - fails closed",
    "correspondence harness: harness/props/c19.py generators, harness/drivers/c19.py (frozen datetime installed from "
    "outside, gated Path.mkdir for forced interleavings, pre-population wrapper around create_output_folder, file "
    "decoding into integer tokens, histories on one running-mode object with in-place / assigned edits), "
    "probes/verif_probes_c19.py",
    "modelled, not verified: atomicity of os.mkdir (one attempt = one step of the interleaving semantics), "
    "numpy/astropy/PIL/pandas file codecs, xarray construction of the /output node, dask scheduling",
]

HEADER = ("From Coq Require Import List String ZArith.\nFrom PyxelV Require Import Model.Outputs Model.OutputsHist.\n"
          "From PyxelGen Require Import Gen_C19.\nImport ListNotations.\nOpen Scope string_scope.\n")


# ------------------------------------------------------------------------------------------ generators


def gen_pre(r, bases, extra=3):
    """Names already in the parent folder: a random subset of the first candidates of each base."""
    pre = []
    for b in bases:
        ks = [k for k in range(0, 7) if r.random() < 0.45]
        if r.random() < 0.3:
            ks = list(range(0, r.randrange(1, 6)))      # a dense prefix: many retries
        for k in ks:
            pre.append(b if k == 0 else f"{b}_{k}")
    for _ in range(r.randrange(0, extra)):
        pre.append(r.choice(["other", "run_20240102_030404", "pyxel.log", f"run_{TS}_x", f"run_{TS}_01"]))
    pre = list(dict.fromkeys(pre))
    r.shuffle(pre)
    return pre


def base_of(prefix):
    return (prefix or "run_") + TS


def gen_dirs(ctx: Ctx, r, n_seq, n_sched, n_conc, max_n):
    cases = []
    for _ in range(n_seq):
        n = r.randrange(1, 7)
        prefixes = [r.choice(["", "", "", "foo_"]) for _ in range(n)]
        pre = gen_pre(r, sorted({base_of(p) for p in prefixes}))
        cases.append(dict(kind="dirs_seq", ts=TS, pre=pre, prefixes=prefixes))
    for _ in range(n_sched):
        n = r.randrange(2, max_n + 1)
        prefixes = [r.choice(["", "", "", "", "foo_"]) for _ in range(n)]
        pre = gen_pre(r, sorted({base_of(p) for p in prefixes}))
        sched = [r.randrange(n) for _ in range(r.randrange(0, 3 * n + len(pre) + 2))]
        if r.random() < 0.3:    # lock-step: everybody tries the same candidate before anybody succeeds
            sched = list(range(n)) * r.randrange(1, 4) + sched
        cases.append(dict(kind="dirs_sched", ts=TS, pre=pre, prefixes=prefixes, sched=sched))
    for k in range(n_conc):
        n = 2 + k % (max_n - 1)
        pre = gen_pre(r, [base_of("")]) if k % 2 else []
        cases.append(dict(kind="dirs_conc", ts=TS, pre=pre, prefixes=[""] * n,
                          how="threads" if k % 2 == 0 else "processes"))
    return cases


def gen_writers():
    return [dict(kind="writer", writer=w, ext=e, exists=ex) for w, e in WRITERS for ex in (True, False)]


def gen_req(r, mode, clean=False):
    common = ["fits", "npy", "fits", "npy", "jpg", "jpeg"]
    rare = ["txt", "csv", "png", "hdf"]
    req = []
    for _ in range(r.choice([1, 1, 2, 2, 3])):
        dct, used = [], set()
        for _ in range(r.choice([1, 1, 2, 3])):
            b = r.choice(BUCKETS)
            if b in used:
                continue
            used.add(b)
            k = r.choice([1, 1, 2, 3])
            pool = common if (clean or r.random() < 0.85) else common + rare
            fl = [r.choice(pool) for _ in range(k)]
            if mode == "seq" and b != "image":
                fl = [f if f not in ("jpg", "jpeg", "png") or r.random() < 0.1 else "npy" for f in fl]
            if clean or r.random() < 0.8:
                fl = list(dict.fromkeys(fl))
            dct.append((b, fl))
        req.append(dct)
    return req


def rendered_names(mode, req, nruns):
    names = []
    for dct in req:
        for b, fl in dct:
            for f in fl:
                if mode == "exposure":
                    names.append(f"detector_{b}.{f}")
                elif mode == "dask":
                    names += [f"detector_{b}_{i}.{f}" for i in range(nruns)]
                else:
                    names.append(f"detector_{b}.{f}")
                    names += [f"detector_{b}_array_{i + 1}.{OLD_EXT[f]}" for i in range(nruns)]
    return list(dict.fromkeys(names))


def gen_flow(r, mode, scheduler="threads"):
    nruns = 1 if mode == "exposure" else r.randrange(1, 5)
    clean = r.random() < 0.5
    req = gen_req(r, mode, clean)
    pre = []
    if r.random() < 0.55:
        cand = rendered_names(mode, req, nruns)
        pre = r.sample(cand, min(len(cand), r.choice([1, 1, 2])))
    if r.random() < 0.25:
        pre.append(r.choice(["notes.txt", "detector_image_9.npy.bak", "detector_.npy"]))
    c = dict(kind="flow", mode=mode, req=req, nruns=nruns, pre=pre, ts=TS)
    if mode == "exposure" and r.random() < 0.3:
        c["times"] = [1.0, 2.0, 4.0]
    if mode == "dask":
        c["scheduler"] = scheduler
    return c


# ------------------------------------------------------------------------------------------ histories


def py_apply_edit(cfg, e):
    """Python mirror of OutputsHist.apply_edit — used ONLY to generate valid edits and to describe a failing
    case; the judgement uses the Coq definition."""
    import copy

    cfg = copy.deepcopy(cfg)
    k = e["op"]
    req = cfg["req"]
    if k == "folder":
        cfg["folder"] = e["name"]
    elif k == "prefix":
        cfg["prefix"] = e["name"]
    elif k == "set":
        cfg["req"] = copy.deepcopy(e["req"])
    elif k == "append_dict":
        req.append(copy.deepcopy(e["dict"]))
    elif k == "remove_dict":
        del req[e["i"]]
    else:
        dct = req[e["i"]]
        idx = [j for j, (b, _) in enumerate(dct) if b == e["b"]]
        if k == "set_bucket":
            if idx:
                dct[idx[0]] = (e["b"], list(e["fmts"]))
            else:
                dct.append((e["b"], list(e["fmts"])))
        elif k == "remove_bucket":
            del dct[idx[0]]
        elif k == "append_fmt":
            dct[idx[0]] = (e["b"], list(dct[idx[0]][1]) + [e["f"]])
        elif k == "remove_fmt":
            fl = list(dct[idx[0]][1])
            fl.remove(e["f"])
            dct[idx[0]] = (e["b"], fl)
        else:
            raise ValueError(k)
    cfg["req"] = [[(b, list(fl)) for b, fl in dct] for dct in cfg["req"]]
    return cfg


def gen_edit(r, cfg, mode, request_only=False, only=None):
    """One valid edit of the current configuration."""
    req = cfg["req"]
    fmts = ["fits", "npy", "fits", "npy", "jpg"] if mode != "seq" else ["fits", "npy"]
    kinds = ["append_dict", "append_fmt", "append_fmt", "set", "set_bucket"]
    if not request_only:
        kinds += ["folder", "prefix", "prefix"]
    if only:
        kinds = list(only)
    if len(req) > 1:
        kinds.append("remove_dict")
    if any(len(d) > 1 for d in req):
        kinds.append("remove_bucket")
    if any(len(fl) > 1 for d in req for _, fl in d):
        kinds += ["remove_fmt", "remove_fmt"]
    k = r.choice(kinds)
    inplace = r.random() < 0.65
    if k == "folder":        # always a real change
        return dict(op="folder", name=r.choice([x for x in ("A", "B", "C") if x != cfg["folder"]]))
    if k == "prefix":
        return dict(op="prefix", name=r.choice([x for x in ("", "foo_", "bar_") if x != cfg["prefix"]]))
    if k == "set":
        return dict(op="set", req=gen_req(r, mode, clean=True))
    if k == "append_dict":
        b = r.choice(BUCKETS)
        return dict(op="append_dict", dict=[(b, [r.choice(fmts if b == "image" or mode != "seq" else ["fits", "npy"])])],
                    inplace=inplace)
    if k == "remove_dict":
        return dict(op="remove_dict", i=r.randrange(len(req)), inplace=inplace)
    if not req:
        return dict(op="set", req=gen_req(r, mode, clean=True))
    i = r.randrange(len(req))
    if k == "set_bucket":
        b = r.choice(BUCKETS)
        return dict(op="set_bucket", i=i, b=b, fmts=[r.choice(["fits", "npy"])], inplace=inplace)
    if k == "remove_bucket":
        i = r.choice([j for j, d in enumerate(req) if len(d) > 1])
        return dict(op="remove_bucket", i=i, b=r.choice(req[i])[0], inplace=inplace)
    if k == "remove_fmt":
        cands = [(j, b, fl) for j, d in enumerate(req) for b, fl in d if len(fl) > 1]
        j, b, fl = r.choice(cands)
        return dict(op="remove_fmt", i=j, b=b, f=r.choice(fl), inplace=inplace)
    # append_fmt
    if not req[i]:
        return dict(op="set_bucket", i=i, b="image", fmts=["npy"], inplace=inplace)
    b, fl = r.choice(req[i])
    pool = [f for f in (fmts if (b == "image" or mode != "seq") else ["fits", "npy"]) if f not in fl] or ["txt"]
    return dict(op="append_fmt", i=i, b=b, f=r.choice(pool), inplace=inplace)


def gen_hist(r, mode, scheduler="threads", deferred=False, snapshot=False):
    """`snapshot` = what the regenerated tables say about the lazy graph of a dask observation (does it hold its
    own copy of the outputs?).  Without one, the request is not edited while a lazy result is pending: what the
    code then reports is ill-formed (names under a stale format coordinate) and is covered by fixed cases."""
    nruns = 1 if mode == "exposure" else r.choice([1, 2, 2, 3])
    cfg = dict(req=gen_req(r, mode, clean=True), folder="A", prefix=r.choice(["", "", "foo_"]))
    world = []
    if r.random() < 0.6:
        b = ("A/" + (cfg["prefix"] or "run_") + TS)
        world.append([b, ["keep.txt"] + (["detector_image.npy"] if r.random() < 0.5 else [])])
        if r.random() < 0.4:
            world.append([b + "_1", []])
        if r.random() < 0.3:
            world.append(["B/run_" + TS, ["detector_pixel_0.npy"]])
    ops, cur = [], cfg
    pending = []

    def edits(n, request_only=False):
        nonlocal cur
        for _ in range(n):
            e = gen_edit(r, cur, mode, request_only)
            if pending and not snapshot and e["op"] not in ("folder", "prefix"):
                e = gen_edit(r, dict(cur, req=[]), mode, only=("folder", "prefix"))
            cur = py_apply_edit(cur, e)
            ops.append(["edit", e])

    def pre_of():
        if r.random() < 0.15:
            cand = rendered_names(mode, cur["req"], nruns)
            if cand:
                return [r.choice(cand)]
        return []

    nsim = r.choice([2, 3, 3, 4])
    for k in range(nsim):
        if k:
            edits(r.choice([1, 1, 2, 3]))
        if deferred and mode == "dask" and r.random() < 0.7:
            ops.append(["start", nruns, pre_of()])
            pending.append(len([o for o in ops if o[0] in ("run", "start")]) - 1)
            if r.random() < 0.4:
                edits(1)
            if r.random() < 0.5 and pending:
                ops.append(["compute", pending.pop(r.randrange(len(pending)))])
        else:
            ops.append(["run", nruns, pre_of()])
    r.shuffle(pending)
    for i in pending:
        ops.append(["compute", i])
    c = dict(kind="hist", mode=mode, ts=TS, nruns=nruns, cfg=cfg, world=world, ops=ops)
    if mode == "dask":
        c["scheduler"] = scheduler
    return c


def gen_hist_exhaustive(modes, both_ways, snapshot, scheduler="threads"):
    """Small-scope enumeration: run, ONE edit, run — for every kind of edit (in place and by assignment), every
    mode; for the parallel observation also start, edit, start, compute, compute."""
    base = [[("image", ["fits", "npy"]), ("pixel", ["npy"])], [("signal", ["npy"])]]
    edits = [
        dict(op="set", req=[[("charge", ["npy"])]]),
        dict(op="append_dict", dict=[("photon", ["npy"])]),
        dict(op="remove_dict", i=1),
        dict(op="set_bucket", i=0, b="charge", fmts=["fits"]),
        dict(op="set_bucket", i=0, b="image", fmts=["npy"]),
        dict(op="remove_bucket", i=0, b="pixel"),
        dict(op="append_fmt", i=0, b="pixel", f="fits"),
        dict(op="remove_fmt", i=0, b="image", f="fits"),
        dict(op="folder", name="B"),
        dict(op="prefix", name="foo_"),
    ]
    out = []
    for mode in modes:
        nruns = 1 if mode == "exposure" else 2
        for e in edits:
            ways = [True, False] if (both_ways and e["op"] not in ("set", "folder", "prefix")) else [True]
            for inplace in ways:
                ed = dict(e) if e["op"] in ("set", "folder", "prefix") else dict(e, inplace=inplace)
                shapes = [[["run", nruns, []], ["edit", ed], ["run", nruns, []]]]
                if mode == "dask" and (snapshot or e["op"] in ("folder", "prefix")):
                    shapes.append([["start", nruns, []], ["edit", ed], ["start", nruns, []], ["compute", 0],
                                   ["compute", 1]])
                for ops in shapes:
                    c = dict(kind="hist", mode=mode, ts=TS, nruns=nruns,
                             cfg=dict(req=[[(b, list(fl)) for b, fl in d] for d in base], folder="A", prefix=""),
                             world=[["A/run_" + TS, ["keep.txt"]]], ops=ops)
                    if mode == "dask":
                        c["scheduler"] = scheduler
                    out.append(c)
    return out


def sims_of(c):
    """Python mirror of OutputsHist.sims (description of failing cases only)."""
    cur, out, ep = c["cfg"], [], 0
    for o in c["ops"]:
        if o[0] == "edit":
            cur = py_apply_edit(cur, o[1])
        elif o[0] in ("run", "start"):
            out.append(dict(ep=ep, req=cur["req"], folder=cur["folder"], prefix=cur["prefix"], pre=o[2],
                            lazy=o[0] == "start"))
            ep += 1
    return out


HIST_ADVERSARIAL = [
    # the request grows in place between two runs of one configuration
    dict(kind="hist", mode="exposure", ts=TS, nruns=1, cfg=dict(req=[[("image", ["fits"])]], folder="A", prefix=""),
         world=[], ops=[["run", 1, []],
                        ["edit", dict(op="append_dict", dict=[("pixel", ["npy"])], inplace=True)],
                        ["edit", dict(op="append_fmt", i=0, b="image", f="npy", inplace=True)],
                        ["run", 1, []],
                        ["edit", dict(op="set", req=[[("signal", ["npy", "fits"])]])],
                        ["run", 1, []]]),
    # ... and shrinks in place
    dict(kind="hist", mode="exposure", ts=TS, nruns=1,
         cfg=dict(req=[[("image", ["fits", "npy"]), ("pixel", ["npy"])]], folder="A", prefix=""),
         world=[["A/run_" + TS, ["keep.txt"]]],
         ops=[["run", 1, []], ["edit", dict(op="remove_fmt", i=0, b="image", f="fits", inplace=True)],
              ["edit", dict(op="remove_bucket", i=0, b="pixel", inplace=True)], ["run", 1, []]]),
    dict(kind="hist", mode="dask", ts=TS, nruns=2, cfg=dict(req=[[("image", ["npy"])]], folder="A", prefix=""),
         world=[], scheduler="threads",
         ops=[["run", 2, []], ["edit", dict(op="append_dict", dict=[("charge", ["npy"])], inplace=True)],
              ["run", 2, []], ["edit", dict(op="folder", name="B")], ["edit", dict(op="prefix", name="foo_")],
              ["run", 2, []]]),
    dict(kind="hist", mode="seq", ts=TS, nruns=2, cfg=dict(req=[[("image", ["npy"])]], folder="A", prefix="foo_"),
         world=[], ops=[["run", 2, []], ["edit", dict(op="append_fmt", i=0, b="image", f="fits", inplace=True)],
                        ["run", 2, []], ["edit", dict(op="append_dict", dict=[("signal", ["npy"])], inplace=False)],
                        ["run", 2, []]]),
    # folder and prefix changed and changed back
    dict(kind="hist", mode="exposure", ts=TS, nruns=1, cfg=dict(req=[[("image", ["npy"])]], folder="A", prefix="foo_"),
         world=[["A/run_" + TS, ["keep.txt"]]],
         ops=[["run", 1, []], ["edit", dict(op="prefix", name="")], ["run", 1, []],
              ["edit", dict(op="folder", name="B")], ["edit", dict(op="prefix", name="bar_")], ["run", 1, []],
              ["edit", dict(op="folder", name="A")], ["edit", dict(op="prefix", name="foo_")], ["run", 1, []]]),
    # two dask observations started on one object before either is computed
    dict(kind="hist", mode="dask", ts=TS, nruns=2, cfg=dict(req=[[("image", ["npy"])]], folder="A", prefix=""),
         world=[], scheduler="threads", ops=[["start", 2, []], ["start", 2, []], ["compute", 0], ["compute", 1]]),
    dict(kind="hist", mode="dask", ts=TS, nruns=1, cfg=dict(req=[[("pixel", ["npy"])]], folder="A", prefix=""),
         world=[], scheduler="threads",
         ops=[["start", 1, []], ["edit", dict(op="append_fmt", i=0, b="pixel", f="fits", inplace=True)],
              ["edit", dict(op="folder", name="B")], ["start", 1, []], ["compute", 1], ["compute", 0]]),
]


AUTO_MIDS = ["1", "2", "3", "9", "10", "12", "99", "007", "0", "", "x", "3a", "a7", "run12", "2.5", "1.bak", "-4",
             "100", "41"]
AUTO_WRITERS = [("to_npy", "npy"), ("to_fits", "fits"), ("to_txt", "txt"), ("to_csv", "csv"), ("to_png", "png"),
                ("to_jpg", "jpg")]


def gen_auto(r, n):
    cases = [dict(kind="auto", writer="to_npy", ext="npy", mids=[]),
             dict(kind="auto", writer="to_npy", ext="npy", mids=["1", "2", "3"]),
             dict(kind="auto", writer="to_fits", ext="fits", mids=["9", "10"]),          # 10 > 9: not a string order
             dict(kind="auto", writer="to_txt", ext="txt", mids=["007", "x"]),
             dict(kind="auto", writer="to_npy", ext="npy", mids=["", "a7", "2.5"])]
    for _ in range(n):
        w, e = r.choice(AUTO_WRITERS)
        cases.append(dict(kind="auto", writer=w, ext=e, mids=r.sample(AUTO_MIDS, r.randrange(0, 6))))
    return cases



ADVERSARIAL = [
    # repeated starts within one second, directory of that second already there
    dict(kind="dirs_seq", ts=TS, pre=[f"run_{TS}"], prefixes=["", "", ""]),
    dict(kind="dirs_seq", ts=TS, pre=[], prefixes=["", "", "", "", ""]),
    dict(kind="dirs_seq", ts=TS, pre=[f"run_{TS}", f"run_{TS}_1", f"run_{TS}_2", f"run_{TS}_3"], prefixes=["", ""]),
    dict(kind="dirs_sched", ts=TS, pre=[], prefixes=["", "", ""], sched=[0, 1, 2, 0, 1, 2, 0, 1, 2]),
    dict(kind="dirs_sched", ts=TS, pre=[f"run_{TS}"], prefixes=["", ""], sched=[0, 1, 1, 0, 0, 1]),
    # colliding names put into the fresh directory
    dict(kind="flow", mode="exposure", req=[[("image", ["npy"])]], nruns=1, pre=["detector_image.npy"], ts=TS),
    dict(kind="flow", mode="exposure", req=[[("pixel", ["fits"])]], nruns=1, pre=["detector_pixel.fits"], ts=TS),
    dict(kind="flow", mode="dask", req=[[("pixel", ["npy"])]], nruns=2, pre=["detector_pixel_1.npy"], ts=TS,
         scheduler="threads"),
    dict(kind="flow", mode="seq", req=[[("image", ["npy"])]], nruns=2, pre=["detector_image_array_2.npy"], ts=TS),
    # several entries in one dict; several formats
    dict(kind="flow", mode="seq", req=[[("image", ["fits"]), ("pixel", ["npy"])]], nruns=2, pre=[], ts=TS),
    dict(kind="flow", mode="seq", req=[[("image", ["fits", "npy", "jpg"])]], nruns=3, pre=[], ts=TS),
    dict(kind="flow", mode="exposure", req=[[("image", ["fits", "npy", "jpg"]), ("signal", ["npy", "fits"])]],
         nruns=1, pre=[], ts=TS),
    dict(kind="flow", mode="dask", req=[[("image", ["fits", "npy"])], [("charge", ["npy"])]], nruns=4, pre=[], ts=TS,
         scheduler="threads"),
    # an unimplemented format after an implemented one: dask aborts in its temporary metadata run
    dict(kind="flow", mode="dask", req=[[("image", ["npy"]), ("photon", ["txt"])]], nruns=2, pre=[], ts=TS,
         scheduler="threads"),
    dict(kind="flow", mode="seq", req=[[("image", ["npy", "txt"])]], nruns=2, pre=[], ts=TS),
    dict(kind="flow", mode="seq", req=[[("image", ["jpg", "jpeg"])]], nruns=1, pre=[], ts=TS),
]


def gen_all(ctx: Ctx, salt: str, scale: int = 1):
    snapshot = "t_dask_snapshot := true" in ctx.cov.get("_gen_text", "")
    r = ctx.rng(salt)
    q = ctx.quick
    max_n = 5 if q else 8
    cases = [dict(c) for c in ADVERSARIAL + HIST_ADVERSARIAL] if salt == "cases" else []
    cases += gen_dirs(ctx, r, scale * (25 if q else 120), scale * (30 if q else 200), scale * (8 if q else 28),
                      max_n if scale == 1 else 8)
    cases += gen_writers()
    cases += gen_auto(ctx.rng(salt + "/auto"), scale * (20 if q else 120))
    for _ in range(scale * (40 if q else 200)):
        cases.append(gen_flow(r, "exposure"))
    for _ in range(scale * (32 if q else 160)):
        cases.append(gen_flow(r, "seq"))
    scheds = ["threads"] if q else ["threads", "synchronous", "threads"]
    for k in range(scale * (10 if q else 45)):
        cases.append(gen_flow(r, "dask", scheds[k % len(scheds)]))
    if salt == "cases":
        cases += (gen_hist_exhaustive(["exposure"], False, snapshot) if q
                  else gen_hist_exhaustive(["exposure", "seq", "dask"], True, snapshot))
    rh = ctx.rng(salt + "/hist")
    for k in range(scale * (10 if q else 60)):
        cases.append(gen_hist(rh, "exposure"))
    for k in range(scale * (7 if q else 40)):
        cases.append(gen_hist(rh, "seq"))
    for k in range(scale * (8 if q else 40)):
        cases.append(gen_hist(rh, "dask", scheds[k % len(scheds)], deferred=(k % 2 == 1), snapshot=snapshot))
    return cases


# ------------------------------------------------------------------------------------------ Coq emission


def cs(s):
    return core.cstr(s)


def emit_req(req):
    return core.clist(core.clist(f"({BCOQ[b]}, {core.clist(FCOQ[f] for f in fl)})" for b, fl in dct) for dct in req)


def emit_files(fl):
    return core.clist(f"({cs(n)}, {core.cz(t)})" for n, t in fl)


def emit_case(c, o):
    k = c["kind"]
    if k == "dirs_seq":
        obs = core.clist("None" if x is None else f"(Some ({cs(x['name'])}, {core.cnat(max(0, x['failed']))}))"
                         for x in o["obs"])
        return (f"{{| d_pre := {core.clist(cs(x) for x in c['pre'])}; "
                f"d_bases := {core.clist(cs(base_of(p)) for p in c['prefixes'])}; d_obs := {obs} |}}")
    if k in ("dirs_sched", "dirs_conc"):
        obs = core.clist("None" if (x is None or x.startswith("!")) else f"(Some {cs(x)})" for x in o["obs"])
        sched = core.clist(core.cnat(i) for i in o.get("executed", []))
        return (f"{{| s_pre := {core.clist(cs(x) for x in c['pre'])}; "
                f"s_bases := {core.clist(cs(base_of(p)) for p in c['prefixes'])}; s_sched := {sched}; s_obs := {obs} |}}")
    if k == "writer":
        return (f"{{| w_name := {cs(c['writer'])}; w_exists := {core.cbool(c['exists'])}; w_out := {o['out']}; "
                f"w_changed := {core.cbool(o['changed'])} |}}")
    if k == "hist":
        return emit_hist(c, o)
    if k == "auto":
        return (f"{{| au_mids := {core.clist(cs(x) for x in c['mids'])}; au_new := {cs(o['new'])}; "
                f"au_intact := {core.cbool(o['intact'])}; au_created := {core.cnat(o['created'])} |}}")
    if k == "flow":
        pre = [(n, -10 - i) for i, n in enumerate(c["pre"])]
        rep = core.clist(f"({core.cnat(r)}, {BCOQ[b]}, {FCOQ[f]}, {cs(n)})" for r, b, f, n in o["rep"])
        err = "None" if o["err"] is None else f"(Some {o['err']})"
        return (f"{{| f_mode := {MODE[c['mode']]}; f_req := {emit_req(c['req'])}; f_nruns := {core.cnat(c['nruns'])}; "
                f"f_pre := {emit_files(pre)}; f_err := {err}; f_rep := {rep}; f_files := {emit_files(o['files'])} |}}")
    raise ValueError(k)


def emit_edit(e):
    k = e["op"]
    if k == "folder":
        return f"ESetFolder {cs(e['name'])}"
    if k == "prefix":
        return f"ESetPrefix {cs(e['name'])}"
    if k == "set":
        return f"ESetReq {emit_req(e['req'])}"
    if k == "append_dict":
        return f"EAppendDict {emit_req([e['dict']])[1:-1]}"
    if k == "remove_dict":
        return f"ERemoveDict {core.cnat(e['i'])}"
    if k == "set_bucket":
        return f"ESetBucket {core.cnat(e['i'])} {BCOQ[e['b']]} {core.clist(FCOQ[f] for f in e['fmts'])}"
    if k == "remove_bucket":
        return f"ERemoveBucket {core.cnat(e['i'])} {BCOQ[e['b']]}"
    if k == "append_fmt":
        return f"EAppendFmt {core.cnat(e['i'])} {BCOQ[e['b']]} {FCOQ[e['f']]}"
    if k == "remove_fmt":
        return f"ERemoveFmt {core.cnat(e['i'])} {BCOQ[e['b']]} {FCOQ[e['f']]}"
    raise ValueError(k)


def emit_op(o):
    if o[0] == "edit":
        return f"Edit ({emit_edit(o[1])})"
    if o[0] in ("run", "start"):
        pre = [(n, -10 - i) for i, n in enumerate(o[2])]
        return f"{'Run' if o[0] == 'run' else 'Start'} {core.cnat(o[1])} {emit_files(pre)}"
    if o[0] == "compute":
        return f"Compute {core.cnat(o[1])}"
    raise ValueError(o[0])


def emit_world(w):
    return core.clist(f"({cs(d)}, {emit_files(fl)})" for d, fl in w)


def emit_hist(c, o):
    w0 = [(d, [(n, -10 - i) for i, n in enumerate(names)]) for d, names in c["world"]]
    recs = core.clist(
        f"{{| r_ep := {core.cnat(x['ep'])}; r_dir := {cs(x['dir'])}; r_at := {cs(x['at'])}; "
        f"r_rep := {core.clist(f'({core.cnat(r)}, {BCOQ[b]}, {FCOQ[f]}, {cs(n)})' for r, b, f, n in x['rep'])}; "
        f"r_err := {'None' if x['err'] is None else '(Some ' + x['err'] + ')'}; r_files := {emit_files(x['files'])} |}}"
        for x in o["recs"])
    cfg = c["cfg"]
    return (f"{{| hc_mode := {MODE[c['mode']]}; hc_ts := {cs(c['ts'])}; "
            f"hc_cfg := {{| c_req := {emit_req(cfg['req'])}; c_folder := {cs(cfg['folder'])}; c_prefix := {cs(cfg['prefix'])} |}}; "
            f"hc_world := {emit_world(w0)}; hc_ops := {core.clist(emit_op(x) for x in c['ops'])}; "
            f"hc_recs := {recs}; hc_final := {emit_world(o['final'])} |}}")


EVALS = {
    "dirs_seq": ("dir_case", ["mismatches (dir_model_ok src_mkdir_exclusive) cases",
                              "violations (fun c => dir_spec_ok (d_pre c) (d_obs c)) cases"]),
    "dirs_sched": ("sched_case", ["mismatches (sched_model_ok src_mkdir_exclusive) cases",
                                  "violations (fun c => sched_spec_ok (s_pre c) (s_obs c)) cases"]),
    "dirs_conc": ("sched_case", ["violations (fun c => sched_spec_ok (s_pre c) (s_obs c)) cases"]),
    "writer": ("writer_case", ["mismatches (writer_model_ok src_tables) cases", "violations writer_spec_ok cases"]),
    "flow": ("flow_case", [
        "mismatches (flow_model_ok src_tables) cases",
        "violations (fun c => spec_unchanged (f_pre c) (f_files c)) cases",
        "violations (fun c => match f_err c with Some _ => true | None => spec_attributed 0 (f_rep c) (f_files c) end) cases",
        "violations (fun c => match f_err c with Some _ => true | None => spec_complete (f_req c) "
        "(match f_mode c with MExposure => 1 | _ => f_nruns c end) (f_rep c) end) cases",
        "violations (fun c => match f_err c with Some _ => true | None => spec_named (f_mode c) (f_rep c) end) cases",
        "violations (flow_spec_ok src_tables) cases",
    ]),
    "auto": ("auto_case", ["mismatches (auto_model_ok src_auto) cases", "violations auto_spec_ok cases"]),
    "hist": ("hist_case", [
        "mismatches (hist_model_ok src_tables src_mkdir_exclusive) cases",
        "violations (fun c => hist_dirs_ok (hc_world c) (hc_sims c) (hc_recs c)) cases",
        "violations (fun c => hist_unchanged_ok (hc_world c) (hc_sims c) (hc_recs c) (hc_final c)) cases",
        "violations (fun c => forallb rec_attr_ok (hc_recs c)) cases",
        "violations (fun c => forallb (rec_complete_ok (hc_mode c) (hc_sims c)) (hc_recs c)) cases",
        "violations (fun c => forallb (rec_named_ok (hc_mode c)) (hc_recs c)) cases",
        "violations hist_case_spec_ok cases",
    ]),
}
HAS_MODEL = {"dirs_seq", "dirs_sched", "writer", "flow", "hist", "auto"}
FLOW_CLAUSES = ["clobbered", "misattributed", "incomplete", "misnamed"]
HIST_CLAUSES = ["wrong_directory", "clobbered", "misattributed", "incomplete", "misnamed"]


def emit_file(kind, pairs):
    ty, evals = EVALS[kind]
    body = ";\n  ".join(emit_case(c, o) for c, o in pairs)
    return (HEADER + f"Definition cases : list {ty} := [\n  {body}\n].\n"
            + "".join(f"Eval vm_compute in {e}.\n" for e in evals))


# ------------------------------------------------------------------------------------------ classification


def usable(c, o):
    """None if the observation can be emitted, else the reason it cannot."""
    if not isinstance(o, dict):
        return f"driver returned {o!r}"
    if "crash" in o or "driver_error" in o:
        return str(o)[:400]
    if "error" in o:
        return o["error"]
    if c["kind"] == "hist":
        for x in o["recs"]:
            for r, b, f, n in x["rep"]:
                if b not in BCOQ or f not in FCOQ or not all(32 <= ord(ch) < 127 for ch in n):
                    return f"unexpected reported entry {(r, b, f, n)}"
            for n, _ in x["files"]:
                if not all(32 <= ord(ch) < 127 and ch != '"' for ch in n):
                    return f"unexpected file name {n!r}"
    if c["kind"] == "flow":
        for r, b, f, n in o["rep"]:
            if b not in BCOQ or f not in FCOQ or not all(32 <= ord(ch) < 127 for ch in n):
                return f"unexpected reported entry {(r, b, f, n)}"
        for n, _ in o["files"]:
            if not all(32 <= ord(ch) < 127 for ch in n):
                return f"unexpected file name {n!r}"
    return None


def expected_content(r, b, f, ep=0):
    return -2 if f in ("png", "jpg", "jpeg") else 256 * ep + 16 * (r + 1) + BUCKETS.index(b)


def classify_flow(mode, req, nruns, pre, rep, files_list, clause, ep=0):
    """(is this the offending run, signature part, description) — description of a failing case only; the
    judgement was made in Coq."""
    files = dict((n, t) for n, t in files_list)
    sig, detail, bad_any = {}, "", False
    if clause == "clobbered":
        bad = [n for i, n in enumerate(pre) if files.get(n) != -10 - i]
        sig["ext"] = sorted({n.rsplit(".", 1)[-1] for n in bad})[0] if bad else "?"
        detail = f"pre-existing file(s) changed or removed: {bad}"
        bad_any = bool(bad)
    elif clause == "misattributed":
        bad = [(r, b, f, n) for r, b, f, n in rep if files.get(n) != expected_content(r, b, f, ep)]
        sig["cause"] = ("prepopulated_name_skipped" if bad and all(n in pre and files.get(n, 0) <= -10
                                                                   for _, _, _, n in bad) else "other")
        detail = f"reported file(s) not holding the bucket of their run: {bad[:4]}"
        bad_any = bool(bad)
    elif clause == "incomplete":
        n = 1 if mode == "exposure" else nruns
        want = {(r, b, f) for r in range(n) for dct in req for b, fl in dct for f in fl}
        got = {}
        for r, b, f, nm in rep:
            got.setdefault((r, b, f), set()).add(nm)
        missing = sorted(want - set(got))
        extra = sorted(set(got) - want)
        multi = sorted(k for k, v in got.items() if len(v) > 1)
        first = {}
        for dct in req:
            if dct:
                first[dct[0][0]] = set(dct[0][1])      # a later dict replaces an earlier one for the same bucket
        by_defect = {(b, f) for b, fl in first.items() for f in fl}
        if mode == "seq" and missing and not extra and not multi and all((b, f) not in by_defect for _, b, f in missing):
            sig["cause"] = "not_first_entry_of_dict"
        else:
            sig["cause"] = "other"
        detail = f"missing {missing[:4]} extra {extra[:4]} several names {multi[:4]}"
        bad_any = bool(missing or extra or multi)
    elif clause == "misnamed":
        detail = "a reported name does not follow the naming convention of its mode"
        bad_any = True
    return bad_any, sig, detail


def flow_violation(c, o, clause) -> Violation:
    mode = c["mode"]
    _, extra, detail = classify_flow(mode, c["req"], c["nruns"], c["pre"], o["rep"], o["files"], clause)
    sig = dict(clause=clause, mode=mode)
    sig.update(extra)
    return Violation(clause=clause, case=c, observed=o, expected="Model/Outputs.v flow_spec_ok",
                     what=f"{mode}: {detail}", sig=sig)


def hist_violation(c, o, clause) -> Violation:
    """Describe a failing history: which simulation, what was in force when it started."""
    mode = c["mode"]
    ss = {x["ep"]: x for x in sims_of(c)}
    deferred = any(op[0] == "start" for op in c["ops"])
    sig = dict(clause=clause, mode=mode, hist=True, deferred=deferred)
    detail = ""
    final = dict((d, fl) for d, fl in o["final"])
    for x in o["recs"]:
        sim = ss.get(x["ep"])
        if sim is None:
            continue
        if clause == "wrong_directory":
            base = f"{sim['folder']}/{sim['prefix'] or 'run_'}{c['ts']}"
            own = x["at"] == x["dir"]
            named = x["dir"] == base or (x["dir"].startswith(base + "_") and x["dir"][len(base) + 1:].isdigit())
            fresh = x["dir"] not in [d for d, _ in c["world"]]
            if own and named and fresh:
                continue
            sig["cause"] = "not_its_own_directory" if not own else ("not_fresh" if not fresh else "folder_or_prefix")
            detail = (f"simulation {x['ep']} created {x['dir']} and wrote into {x['at']}; folder/prefix in force when it "
                      f"started: {base}")
        else:
            bad, extra, d2 = classify_flow(mode, sim["req"], c["nruns"], sim["pre"], x["rep"], x["files"], clause, x["ep"])
            if x["err"] is not None and clause != "clobbered":
                continue
            if not bad and clause == "clobbered":
                now = final.get(x["at"])
                if now is None or sorted(map(tuple, now)) == sorted(map(tuple, x["files"])):
                    continue
                extra, d2 = dict(ext="?", cause="touched_by_a_later_simulation"), (
                    f"directory {x['at']} changed after simulation {x['ep']} had finished")
            elif not bad:
                continue
            sig.update(extra)
            detail = f"simulation {x['ep']} (request in force when it started: {sim['req']}): {d2}"
        sig["after_edit"] = any(op[0] == "edit" and op[1]["op"] not in ("folder", "prefix")
                                for op in c["ops"][:_op_index_of_sim(c, x["ep"])])
        break
    else:
        if clause == "wrong_directory":
            dirs = [x["dir"] for x in o["recs"]]
            sig["cause"] = "directories_collide" if len(set(dirs)) != len(dirs) else "simulation_not_recorded"
            detail = f"directories {dirs}"
        elif clause == "clobbered":
            sig.update(ext="?", cause="foreign_directory_touched")
            detail = "a directory that existed before the history was changed"
    return Violation(clause=clause, case=c, observed=o, expected="Model/OutputsHist.v hist_spec_ok",
                     what=f"history on one {mode} configuration ({len(ss)} simulations): {detail}", sig=sig)


def _op_index_of_sim(c, ep):
    k = -1
    for i, op in enumerate(c["ops"]):
        if op[0] in ("run", "start"):
            k += 1
            if k == ep:
                return i
    return len(c["ops"])


def dir_violation(c, o) -> Violation:
    pre = set(c["pre"])
    obs = o["obs"]
    names = [(x["name"] if isinstance(x, dict) else x) for x in obs]
    names = [None if (n is None or n.startswith("!")) else n for n in names]
    if any(n is None for n in names):
        clause = "dir_not_returned"
    elif any(n in pre for n in names):
        clause = "dir_not_fresh"
    elif len(set(names)) != len(names):
        clause = "dirs_collide"
    else:
        clause = "dir_too_many_attempts"
    return Violation(clause=clause, case=c, observed=o, expected="pairwise distinct, not pre-existing, returned within |fs|+1 attempts",
                     what=f"{c['kind']} ({len(names)} starts, same second): {clause}: {names}",
                     sig=dict(clause=clause, how=c.get("how", c["kind"])))


def _valid_hist(c) -> bool:
    """Do the edits of the history still apply (python mirror), and do the computes name lazy starts?"""
    try:
        cur, kinds = c["cfg"], []
        for o in c["ops"]:
            if o[0] == "edit":
                e = o[1]
                if e["op"] in ("remove_fmt", "append_fmt", "remove_bucket"):
                    if not any(b == e["b"] for b, _ in cur["req"][e["i"]]):
                        return False
                if e["op"] == "set_bucket" and e["i"] >= len(cur["req"]):
                    return False
                cur = py_apply_edit(cur, e)
            elif o[0] in ("run", "start"):
                kinds.append(o[0])
            elif o[0] == "compute":
                if o[1] >= len(kinds) or kinds[o[1]] != "start":
                    return False
                kinds[o[1]] = "done"
        return any(o[0] in ("run", "start") for o in c["ops"])
    except Exception:  # noqa: BLE001
        return False


def _drop_op(c, k):
    """The history without operation k (compute indices renumbered when a simulation is dropped)."""
    import copy

    c2 = copy.deepcopy(c)
    o = c2["ops"].pop(k)
    if o[0] in ("run", "start"):
        idx = sum(1 for x in c["ops"][:k] if x[0] in ("run", "start"))
        ops = []
        for x in c2["ops"]:
            if x[0] == "compute":
                if x[1] == idx:
                    continue
                if x[1] > idx:
                    x = ["compute", x[1] - 1]
            ops.append(x)
        c2["ops"] = ops
    return c2


def shrink_hist(ctx: Ctx, v: Violation, rounds: int = 5) -> Violation:
    """Greedy one-step reductions of a failing history (drop an operation, a pre-populated file, a foreign
    directory), each candidate run against implementation and specification again; keeps the clause."""
    import copy

    best = v
    for _ in range(rounds):
        c = best.case
        cands = [_drop_op(c, k) for k in range(len(c["ops"]))]
        for k, o in enumerate(c["ops"]):
            if o[0] in ("run", "start") and o[2]:
                c2 = copy.deepcopy(c)
                c2["ops"][k][2] = []
                cands.append(c2)
        if c["world"]:
            c2 = copy.deepcopy(c)
            c2["world"] = []
            cands.append(c2)
        cands = [x for x in cands if _valid_hist(x) and size_of(x) < size_of(c)]
        if not cands:
            break
        saved = list(ctx.broken)
        try:
            _, _, viols = evaluate(ctx, cands, "shr")
        finally:
            ctx.broken[:] = saved
        same = [w for w in viols if w.clause == best.clause and w.sig.get("cause") == best.sig.get("cause")]
        if not same:
            break
        best = min(same, key=lambda w: size_of(w.case))
    return best


def size_of(c):
    return len(json.dumps(c))


# ------------------------------------------------------------------------------------------ legs


def evaluate(ctx: Ctx, cases, tag: str):
    """Run the implementation, let Coq compare with the model and judge against the specification.
    Returns (pairs by kind, mismatching pairs, violations)."""
    obs = core.run_driver(ctx, "c19", cases, workers=min(core.NCPU, 8), timeout=1200)
    by_kind = {}
    for c, o in zip(cases, obs):
        if isinstance(o, dict) and "skip" in o:
            ctx.dist("skipped", o["skip"])
            continue
        why = usable(c, o)
        if why is not None:
            ctx.broken.append(Broken("correspondence", "implementation driver failed", why, c))
            continue
        by_kind.setdefault(c["kind"], []).append((c, o))
    files, chunks = {}, {}
    for kind, pairs in by_kind.items():
        per = 40 if kind == "flow" else 12 if kind == "hist" else 60
        for k in range(0, len(pairs), per):
            name = f"{tag}_{kind}_{k // per:03d}"
            files[name] = emit_file(kind, pairs[k:k + per])
            chunks[name] = (kind, pairs[k:k + per])
    res = core.coq_eval_many(ctx, files, timeout=900, par=min(core.NCPU, 8))
    mism, viols = [], []
    for name in sorted(files):
        kind, chunk = chunks[name]
        ok, evals, se = res[name]
        nexp = len(EVALS[kind][1])
        if not ok or len(evals) != nexp:
            ctx.broken.append(Broken("correspondence", f"case file {name}.v did not evaluate", core.tail(se, 15)))
            continue
        lists = [core.parse_int_list(e) for e in evals]
        if kind in HAS_MODEL:
            mism += [chunk[i] for i in lists[0]]
            lists = lists[1:]
        if kind == "flow":
            found = set()
            for clause, idx in zip(FLOW_CLAUSES, lists[:4]):
                for i in idx:
                    viols.append(flow_violation(chunk[i][0], chunk[i][1], clause))
                    found.add(i)
            for i in lists[4]:
                if i not in found:
                    viols.append(Violation("flow_spec", chunk[i][0], chunk[i][1], "flow_spec_ok", "flow specification",
                                           dict(clause="flow_spec")))
        elif kind == "hist":
            found = set()
            for clause, idx in zip(HIST_CLAUSES, lists[:5]):
                for i in idx:
                    viols.append(hist_violation(chunk[i][0], chunk[i][1], clause))
                    found.add(i)
            for i in lists[5]:
                if i not in found:
                    viols.append(Violation("hist_spec", chunk[i][0], chunk[i][1], "hist_spec_ok",
                                           "history specification", dict(clause="hist_spec")))
        elif kind == "auto":
            for i in lists[0]:
                c, o = chunk[i]
                viols.append(Violation("auto_number", c, o, "a new name that is not in use; nothing else touched",
                                       f"{c['writer']}(run_number=None) in a directory holding {c['mids']}: returned "
                                       f"number part {o['new']!r}, existing files intact: {o['intact']}, new files: "
                                       f"{o['created']}",
                                       dict(clause="auto_number", writer=c["writer"],
                                            reused=o["new"] in c["mids"])))
        elif kind == "writer":
            for i in lists[0]:
                c, o = chunk[i]
                viols.append(Violation("writer_clobbers", c, o, "an existing target keeps its bytes",
                                       f"{c['writer']} called on an existing target: outcome {o['out']}, "
                                       f"bytes changed: {o['changed']}",
                                       dict(clause="writer_clobbers", writer=c["writer"])))
        else:
            for i in lists[0]:
                viols.append(dir_violation(*chunk[i]))
    return by_kind, mism, viols


def account(ctx: Ctx, by_kind):
    seen = ctx.cov.setdefault("_seen", set())
    for kind, pairs in by_kind.items():
        for c, o in pairs:
            ctx.count("evaluations")
            ctx.dist("kind", kind if kind not in ("flow", "hist") else f"{kind}/{c['mode']}")
            key = json.dumps(c, sort_keys=True)
            nontrivial = False
            if kind == "dirs_seq":
                ctx.dist("starts", len(c["prefixes"]))
                nontrivial = any(x and x["failed"] > 0 for x in o["obs"])
            elif kind == "dirs_sched":
                ctx.dist("creators", len(c["prefixes"]))
                ctx.count("interleaving_steps", len(o["executed"]))
                nontrivial = len(set(o["executed"])) > 1
            elif kind == "dirs_conc":
                ctx.dist("concurrent", f"{c['how']}/{len(c['prefixes'])}")
                nontrivial = True
            elif kind == "writer":
                nontrivial = c["exists"]
            elif kind == "auto":
                ctx.dist("auto_matches", len(c["mids"]))
                nontrivial = len(c["mids"]) >= 2
            elif kind == "hist":
                nsim = sum(1 for x in c["ops"] if x[0] in ("run", "start"))
                ctx.dist("hist_simulations", nsim)
                for x in c["ops"]:
                    if x[0] == "edit":
                        ctx.dist("hist_edit", x[1]["op"] + ("" if x[1].get("inplace", True) or x[1]["op"] in
                                                            ("set", "folder", "prefix") else "/assigned"))
                ctx.dist("hist_deferred", any(x[0] == "start" for x in c["ops"]))
                ctx.count("hist_runs_judged", len(o["recs"]))
                ctx.count("files_read_back", sum(len(fl) for _, fl in o["final"]))
                ctx.count("reported_entries", sum(len(x["rep"]) for x in o["recs"]))
                for x in o["recs"]:
                    ctx.dist("hist_outcome", x["err"] or "ok")
                nontrivial = nsim >= 2 and any(x[0] == "edit" for x in c["ops"])
            else:
                ctx.dist("flow_outcome", o["err"] or "ok")
                ctx.dist("prepopulated", len(c["pre"]))
                ctx.count("files_read_back", len(o["files"]))
                ctx.count("reported_entries", len(o["rep"]))
                nontrivial = bool(c["pre"]) or len(o["rep"]) > 1
            if nontrivial and key not in seen:
                seen.add(key)


def run(ctx: Ctx):
    from translator import c19 as tr

    ctx.trusted += TRUSTED
    ctx.max_reported = 8
    ctx.assumptions += [
        "os.mkdir is atomic: one mkdir attempt is one step of the interleaving semantics",
        "an explicit refusal (NotImplementedError for hdf/txt/csv/png in save_to_files, FileExistsError) is not "
        "counted as a missing file; it must leave existing files untouched",
        "a simulation is judged against the request / folder / prefix in force when run_mode was called for it; an "
        "edit in place and the assignment of an edited copy mean the same",
        "the deprecated exposure_mode/_run_exposure_pipeline_deprecated path (apply_run_number with glob) is outside "
        "the model",
    ]
    gen = {}
    try:
        gen["Gen_C19.v"] = tr.translate(ctx.repo)
    except core.TranslationError as ex:
        ctx.broken.append(Broken("translation", "pyxel/outputs (mkdir loop / writers / dispatch)", str(ex)))
        ctx.log("translation failed:", ex)
        gen["Gen_C19.v"] = tr.FALLBACK
    ctx.cov["_gen_text"] = gen["Gen_C19.v"]
    core.proof_leg(ctx, gen, PROP_FILE)

    cases = gen_all(ctx, "cases")
    by_kind, mism, viols = evaluate(ctx, cases, "c")
    account(ctx, by_kind)
    finish_cov(ctx, by_kind, mism)
    record(ctx, mism, viols)
    if ctx.broken and not new_violations(ctx):
        search(ctx)
    ctx.cov.pop("_seen", None)
    ctx.cov.pop("_gen_text", None)


def finish_cov(ctx, by_kind, mism):
    ctx.cov["distinct_nontrivial"] = len(ctx.cov.get("_seen", ()))
    ctx.cov["rule"] = ("non-trivial = a start that met at least one occupied candidate; an interleaving in which at "
                       "least two creators took steps; every truly concurrent start; a writer called on an existing "
                       "target; a flow with pre-populated names or more than one reported file; a history with at "
                       "least two simulations and one edit in between")
    ctx.cov["traces_validated_against_impl"] = sum(len(v) for k, v in by_kind.items() if k in HAS_MODEL)
    ctx.cov["disagreements_checked"] = len(mism)
    ctx.cov["exhaustive"] = ("histories [run, one edit, run] over the 10 kinds of edit: exposure, in place"
                             if ctx.quick else
                             "histories [run, one edit, run] over the 10 kinds of edit, in place and by assignment, in "
                             "exposure / sequential / parallel observation, plus [start, edit, start, compute, compute]")
    for kind, pairs in by_kind.items():
        if pairs:
            c, o = pairs[len(pairs) // 2]
            ctx.sample(dict(case=c, observed={k: (v if not isinstance(v, list) else v[:6]) for k, v in o.items()}), cap=8)


def record(ctx: Ctx, mism, viols):
    viols = order_violations(viols)
    fs = core.load_findings(ctx.prop)
    shrunk, done = [], set()
    for v in viols:
        k = (v.clause, v.sig.get("mode"), v.sig.get("cause"), v.sig.get("deferred"))
        if (v.case.get("kind") == "hist" and k not in done and len(done) < 3
                and not any(core.finding_matches(e, v) for e in fs)):
            done.add(k)
            v = shrink_hist(ctx, v)
        shrunk.append(v)
    ctx.violations += shrunk
    (ctx.build / "mismatches.json").write_text(json.dumps([dict(case=c, observed=o) for c, o in mism], indent=1))
    for c, o in mism[:20]:
        ctx.broken.append(Broken("correspondence", "Model/Outputs.v vs implementation",
                                 f"model and implementation differ on a {c['kind']} case"
                                 + (f" ({c['mode']})" if c["kind"] in ("flow", "hist") else ""),
                                 dict(case=c, observed=o)))


def order_violations(viols):
    """Smallest failing case first; one representative of every kind of failure (clause, mode, cause, lazy or
    not) before further signatures of a kind already shown (core prints a bounded number of signatures)."""
    viols = sorted(viols, key=lambda v: size_of(v.case))
    first, rest, seen = [], [], set()
    for v in viols:
        k = (v.clause, v.sig.get("mode"), v.sig.get("cause"), v.sig.get("writer"), v.sig.get("deferred"),
             v.sig.get("how"))
        (rest if k in seen else first).append(v)
        seen.add(k)
    return first + rest


def new_violations(ctx: Ctx):
    fs = core.load_findings(ctx.prop)
    return [v for v in ctx.violations if not any(core.finding_matches(e, v) for e in fs)]


def search(ctx: Ctx):
    """A proof obligation or the correspondence broke: look harder for a concrete failing input."""
    ctx.log("searching for a concrete failing input (bigger budget, dense repeated starts, more collisions)")
    cases = gen_all(ctx, "search", scale=2)
    for n in range(2, 9):
        cases.append(dict(kind="dirs_seq", ts=TS, pre=[], prefixes=[""] * n))
        cases.append(dict(kind="dirs_seq", ts=TS, pre=[f"run_{TS}"] + [f"run_{TS}_{k}" for k in range(1, n)],
                          prefixes=["", "", ""]))
    by_kind, mism, viols = evaluate(ctx, cases, "s")
    account(ctx, by_kind)
    ctx.violations += order_violations(viols)
    ctx.cov["search_cases"] = sum(len(v) for v in by_kind.values())
    ctx.cov["distinct_nontrivial"] = len(ctx.cov.get("_seen", ()))


def replay(ctx: Ctx, rp: dict) -> int:
    case = rp.get("case")
    if rp.get("kind") != "input" or not case:
        print(f"replay names a {rp.get('kind')} that no longer checks: {rp.get('no_longer_checks')}")
        print(rp.get("detail", ""))
        return 1
    from translator import c19 as tr

    gen = ctx.build / "gen"
    gen.mkdir(parents=True, exist_ok=True)
    try:
        text = tr.translate(ctx.repo)
    except core.TranslationError:
        text = tr.FALLBACK
    (gen / "Gen_C19.v").write_text(text)
    core.ensure_lib(ctx, targets=core.lib_targets_of([text]))
    core.coqc(ctx, gen / "Gen_C19.v", [(gen, "PyxelGen")])
    by_kind, mism, viols = evaluate(ctx, [case], "replay")
    for pairs in by_kind.values():
        for c, o in pairs:
            print("case:", json.dumps(c))
            print("implementation now returns:", json.dumps(o))
    for v in viols:
        print(f"specification (evaluated in Coq): VIOLATED clause={v.clause} sig={v.sig}: {v.what}")
    if not viols:
        print("specification (evaluated in Coq):", "holds" if not ctx.broken else "could not be evaluated")
    return 1 if (viols or ctx.broken) else 0


META = dict(
    level_text=(
        "Coq theorems, closed under the global context, over an executable model of pyxel's output machinery. Proved "
        "for all inputs: the mkdir retry loop with the exist_ok flag regenerated from the source returns a directory "
        "that was not there, within |fs|+1 attempts, for every finite file system; for every interleaving of N "
        "concurrent creators (same timestamp or not) the returned directories are pairwise distinct and none "
        "pre-existed, and no creator fails more than |fs|+N times; both file-name renderings are injective on "
        "(bucket, run suffix, extension); with the writer behaviour table and the flow-shape flags regenerated from "
        "the source, every writer leaves existing files untouched and so do the exposure, parallel-observation and "
        "sequential-observation flows (runs ending in an exception included); in ANY directory every reported file "
        "holds the bucket of the run it is attributed to; the reported files are exactly one per requested (bucket, "
        "format, run), under that combination's name, in all three flows. Histories on ONE configuration object, by "
        "induction over the operation sequence Edit | Run | Start | Compute (edits of the request in place or by "
        "assignment, of the folder and the prefix; lazily computed dask observations with an invariant over the "
        "pending results): every simulation is exactly the standalone flow on the request, folder and prefix in "
        "force when it STARTED, in a directory it created itself and nobody had, directories pairwise distinct, "
        "every other directory unchanged at the end of the history, completeness / attribution / never-clobbered "
        "per simulation. Each theorem discharges a boolean condition on the regenerated tables by vm_compute and "
        "fails when the code stops meeting it. That the model is the code is established by correspondence, i.e. by "
        "testing: with the timestamp frozen, sequential starts, forced interleavings of gated mkdir attempts, "
        "unsynchronised thread/process starts, every writer on existing/absent targets, complete exposure / "
        "sequential / dask observation runs with pre-populated colliding names, and histories of 2-4 simulations on "
        "one running-mode object with edits in between (all three modes, deferred computes) are executed; listing, "
        "byte preservation, the /output node and the decoded content of every npy/fits file (which carries the "
        "simulation number) are compared with the model and judged against the specification inside Coq."),
    level_note=(
        "Trusted: Coq kernel + vm_compute; translator/c19.py (a symbolic reader: locals substituted, private helpers "
        "followed, path conditions as signed atoms - it extracts only the flags / tables the theorems use and fails "
        "closed; layout, local names and message texts are not read); the correspondence harness and its wrappers (frozen "
        "datetime, gated Path.mkdir, pre-population after create_output_folder, one pipeline object per simulation). "
        "Not carried by the theorems: atomicity of os.mkdir, the file codecs (numpy, astropy, PIL, pandas), xarray's "
        "construction of the /output node, dask scheduling (for a parallel observation that fails, which other "
        "runs' files were already written is not compared); h5py is absent so to_hdf is only translated, never "
        "executed; lossy formats (jpg, jpeg, png) are checked for existence and validity only; the deprecated "
        "exposure_mode path (apply_run_number with glob) is outside the model; the pipeline object a lazy dask "
        "observation reads at compute time is C06's subject, not modelled here."),
    technique="Coq proof (interleaving semantics, injective rendering, regenerated writer table and flow flags, "
              "induction over operation sequences) + in-Coq correspondence/spec evaluation against frozen-clock runs",
    design_ref="DESIGN.md section 6, C19; section 7, F17",
)
