"""C02 — readout clock and per-step bucket lifecycle (destructive / non-destructive)."""
from __future__ import annotations

import copy
import json
import math
from fractions import Fraction

from .. import core
from ..core import Broken, Ctx, Violation

PROP_FILE = "Properties/C02.v"

TRUSTED = [
    "translator/c02.py (guard lists of Readout.__init__, Readout.times / start_time setters, "
    "ReadoutProperties.__init__, incl. the form of the start guard and the numpy-array conversion; table of "
    "Detector.empty(reset); the empty() of every container as a program over the pieces of state the container holds "
    "(Photon, Charge: _array and _frame, ArrayBase / Pixel / Signal / Image, Scene), the attributes each container's "
    "__init__ creates, whether the Charge.array property stores the derived array, empty() overrides of the Detector "
    "subclasses; policy of Detector.set_readout and the wiring of its call in run_pipeline; fails closed on any other "
    "shape)",
    "translator/c02_norm.py: the behaviour-preserving normalisation applied to every function before the recognisers "
    "read it (inlining of helpers of the same module / class, substitution of single-assignment locals under stated "
    "no-interference conditions, guard clauses == elif chains, module-level literal constants, loops over constant "
    "tuples, constant folding, match / chained comparison / conditional expression); its side conditions treat "
    "attribute reads and numpy / builtin calls as free of side effects and `set_*` methods as the only calls that rebind "
    "attributes of their receiver; tested differentially on every run (normaliser_selftest in the evidence)",
    "correspondence harness: harness/props/c02.py generators, harness/drivers/c02.py, probes/verif_probes_c02.py "
    "(the observing probes read private _array / _frame attributes of the containers)",
    "modelled, not verified: float64 arithmetic on the generated dyadic times is exact (checked per case in the "
    "harness with Fractions); numpy.arange/linspace/logspace and the .npy/.txt readers return the values the harness "
    "computes with the same numpy; every comparison with NaN is false",
]

BUCKETS = ("scene", "photon", "charge", "pixel", "signal", "image")
# the pieces of state observed per detector: Charge holds a 2-D array ("charge") AND a particle dataframe ("cframe")
PIECES = ("scene", "photon", "charge", "cframe", "pixel", "signal", "image")
# the public ways of filling each container (probes/verif_probes_c02.py: apply_write)
HOWS = {
    "scene": ("add_source",),
    "photon": ("array", "array_2d", "array_3d", "iadd", "iadd_3d", "array_iadd", "add_op"),
    "charge": ("array", "particles", "dataframe"),
    "pixel": ("array", "update", "iadd", "array_iadd", "inplace", "add_op"),
    "signal": ("array", "update", "iadd", "array_iadd", "inplace", "add_op"),
    "image": ("array", "update", "iadd", "array_iadd", "inplace", "add_op"),
}
ADD_HOWS = ("iadd", "iadd_3d", "array_iadd", "inplace", "add_op")      # these add to what the container holds
BNAME = dict(scene="Scene", photon="Photon", charge="Charge", pixel="Pixel", signal="Signal", image="Image")
WGROUPS = ("photon_collection", "charge_generation", "charge_collection", "charge_measurement", "readout_electronics")
HISTORIES = ("fresh", "junk", "other_mode", "failed", "failed_other")
ENTRIES = ("run_mode", "run_exposure", "deprecated_loop")
DETECTORS = ("ccd", "cmos", "mkid", "apd")


def gen_entry(r):
    return r.choices(ENTRIES, [76, 12, 12])[0]


def hx(x: float) -> str:
    return "nan" if x != x else float(x).hex()


def fl(h) -> float:
    return float("nan") if h == "nan" else float.fromhex(h)


# ------------------------------------------------------------------------------------------ validity (python side,
# used only for generation / classification / shrinking; the verdict is computed inside Coq)


def sched_class(times, start, ndim=1):
    """None if valid, else the class of the defect."""
    if ndim != 1:
        return "not_1d"
    if len(times) == 0:
        return "empty"
    if any(t != t for t in times):
        return "nan_time"
    if start != start:
        return "nan_start"
    if times[0] == 0:
        return "zero_first"
    if start >= times[0]:
        return "start_ge_first"
    if any(not (b > a) for a, b in zip(times, times[1:])):
        return "not_increasing"
    return None


def exact_ok(times, start) -> bool:
    """All the float operations of the clock are exact on this schedule."""
    prev = start
    for t in times:
        if Fraction(t) - Fraction(prev) != Fraction(t - prev) or Fraction(start) + Fraction(t) != Fraction(start + t):
            return False
        prev = t
    return True


# ------------------------------------------------------------------------------------------ generators

INCS = [0.125, 0.25, 0.5, 0.5, 1.0, 1.0, 1.0, 1.5, 2.0, 3.0, 5.0, 10.0, 100.0, 0.0625]

NUMPY_EXPRS = [
    "numpy.arange(1, 5)", "numpy.arange(2, 14)", "numpy.arange(0.5, 4.0, 0.5)", "numpy.linspace(1, 8, 8)",
    "numpy.linspace(0.25, 2.0, 8)", "numpy.logspace(0, 5, 6, base=2)", "numpy.array([0.5, 1.5, 4.0])",
    "numpy.linspace(-3.0, -0.5, 6)", "numpy.arange(10, 11)", "numpy.cumsum(numpy.array([1.0, 0.5, 0.25, 2.0]))",
]


# decimal increments: sums and differences of such times are NOT exactly representable (binary64 stream)
FINCS = [0.1, 0.1, 0.2, 0.3, 0.05, 0.7, 1.1, 2.5, 1e-3, 1.0 / 3.0, 0.01, 17.3, 1e-6, 123.456]
FLOAT_EXPRS = [
    "numpy.arange(0.1, 1.0, 0.1)", "numpy.linspace(0.1, 2.3, 7)", "numpy.logspace(-3, 2, 6)",
    "numpy.arange(1, 20) / 10", "numpy.cumsum(numpy.full(8, 0.1))", "numpy.linspace(0.3, 0.9, 4)",
]


def gen_times(r, n=None, start=None, incs=None):
    incs = incs or INCS
    n = n or r.choice([1, 1, 2, 2, 3, 3, 4, 5, 6, 8, 12])
    if start is None:
        if incs is INCS:
            start = r.choice([0.0, 0.0, 0.0, -1.0, 0.5, 2.0, -0.125, r.randrange(-40, 41) / 8.0])
        else:
            start = r.choice([0.0, 0.0, 0.05, -0.1, 0.3, 1e-3, -2.7, r.uniform(-5, 5)])
    ts, t = [], start
    for _ in range(n):
        t = t + r.choice(incs) * (1 if incs is INCS else r.choice([1, 1, 1, 2, 3]))
        if not ts and t == 0.0:
            t = t + r.choice(incs)
        ts.append(t)
    return ts, start


DTYPES = {
    "photon": (("float64", 80), ("float32", 15), ("float16", 5)),
    "charge": (("float64", 85), ("float32", 15)),
    "pixel": (("float64", 70), ("float32", 20), ("float16", 10)),
    "signal": (("float64", 70), ("float32", 20), ("float16", 10)),
    "image": (("uint16", 60), ("uint8", 10), ("uint32", 15), ("uint64", 15)),
}


def gen_dtype(r, b):
    names, weights = zip(*DTYPES[b])
    return r.choices(names, weights)[0]


def gen_ops(r, b):
    """The operations of one step on bucket b: [bucket, value, add, how, dtype]; a bucket may be filled more than once
    in a step, charge through a mixture of its three ways in any order, photon either as a 2-D array or as a cube; the
    arrays handed over are of any dtype the container accepts."""
    if b == "scene":
        return [[b, 1, True, "add_source"]]
    dt = gen_dtype(r, b)
    if b == "charge":
        k = r.choices([1, 2, 3], [60, 30, 10])[0]
        return [[b, r.randrange(1, 30), True, r.choices(HOWS[b], [60, 20, 20])[0], dt] for _ in range(k)]
    if b == "photon":
        hows = ("array_3d", "iadd_3d") if r.random() < 0.3 else ("array", "array_2d", "iadd", "array_iadd", "add_op")
    else:
        hows = HOWS[b]
    ops = []
    for j in range(r.choices([1, 2], [80, 20])[0]):
        how = r.choice(hows)
        add = how in ADD_HOWS or r.random() < ((0.8 if b == "pixel" else 0.4) if j == 0 else 0.7)
        ops.append([b, r.randrange(1, 30), bool(add), how, dt])
    return ops


def gen_plan(r, n):
    plan = []
    style = r.choice(["dense", "sparse", "pixel_only", "all_each", "none", "first_only"])
    for i in range(n):
        ops = []
        if style == "none" or (style == "first_only" and i > 0):
            plan.append(ops)
            continue
        for b in BUCKETS:
            p = dict(dense=0.7, sparse=0.25, pixel_only=1.0 if b == "pixel" else 0.0, all_each=1.0, first_only=0.8)[style]
            if r.random() < p:
                ops.append(gen_ops(r, b))
        r.shuffle(ops)          # the order between buckets; the operations on one bucket keep their order
        plan.append([op for grp in ops for op in grp])
    return plan


def gen_fill_exhaustive():
    """Thorough tier: for every container EVERY ordered pair of its public ways of filling it (charge: every ordered
    pair and triple of its three ways; photon: pairs within the 2-D ways and within the cube ways) applied in step 0 of
    a two-readout run, in both readout modes, on every detector type: step 1 must start empty."""
    import itertools

    out = []
    k = 0
    for b in BUCKETS:
        if b == "scene":
            seqs = [("add_source",), ("add_source", "add_source")]
        elif b == "charge":
            seqs = [q for n in (1, 2, 3) for q in itertools.product(HOWS[b], repeat=n)]
        elif b == "photon":
            d2 = ("array", "array_2d", "iadd", "array_iadd", "add_op")
            d3 = ("array_3d", "iadd_3d")
            seqs = [(h,) for h in HOWS[b]] + list(itertools.product(d2, repeat=2)) + list(itertools.product(d3, repeat=2))
        else:
            seqs = [(h,) for h in HOWS[b]] + list(itertools.product(HOWS[b], repeat=2))
        for seq in seqs:
            for nd in (False, True):
                for det in DETECTORS:
                    dt = [] if b == "scene" else [DTYPES[b][k % len(DTYPES[b])][0]]
                    ops = [[b, 2 + j, True if (b in ("scene", "charge") or h in ADD_HOWS or j > 0) else False, h] + dt
                           for j, h in enumerate(seq)]
                    out.append(dict(form="list", times=[hx(1.0), hx(2.0)], start=hx(0.0), nd=nd, ops=[], history="fresh",
                                    wgroup=WGROUPS[k % len(WGROUPS)], rows=1 + k % 2, cols=1 + k % 3, entry="run_mode",
                                    detector=det, plan=[ops, []], fill=True))
                    k += 1
    return out


def no_cube(c):
    """The deprecated loop assembles its result from `photon.array` and cannot carry a 3-D photon cube (a limit of
    that entry's result assembly, not of the bucket lifecycle): its plans use the 2-D forms."""
    if c.get("entry") == "deprecated_loop":
        c["plan"] = [[(w[:3] + [{"array_3d": "array", "iadd_3d": "iadd"}.get(w[3], w[3])] + w[4:] if len(w) > 3 else w)
                      for w in step] for step in c.get("plan", [])]
    return c


def gen_fill_cases(r):
    """Every container filled through EVERY public way of filling it before a step boundary (and judged empty at the
    start of the next step), in both readout modes; charge additionally through mixtures of its three ways in both
    orders and on all detector types."""
    out = []

    def case(plan_steps, nd, det, k):
        c = gen_valid_case(r, dict(form="list", n=3, nops=0, nd=nd, history=("fresh", "junk")[k % 2],
                                   entry=("run_mode", "run_mode", "run_exposure", "deprecated_loop")[k % 4]))
        c["detector"] = det
        c["plan"] = plan_steps
        c["fill"] = True
        if c["entry"] == "deprecated_loop" and any(w[3] in ("array_3d", "iadd_3d") for st in plan_steps for w in st):
            c["entry"] = "run_exposure"
        out.append(c)

    k = 0
    for b in BUCKETS:
        for how in HOWS[b]:
            for nd in (False, True):
                v = 1 if b == "scene" else r.randrange(2, 30)
                dt = [] if b == "scene" else [DTYPES[b][k % len(DTYPES[b])][0]]
                first = [[b, v, True if (b in ("scene", "charge") or how in ADD_HOWS) else False, how] + dt]
                if how in ADD_HOWS and b not in ("scene", "charge"):
                    # on an initialised container, so that the in-place form is the one exercised
                    base_how = "array_3d" if how == "iadd_3d" else "array"
                    first = [[b, r.randrange(2, 30), False, base_how] + dt] + first
                second = [[b, v + 1, first[-1][2], how] + dt] if r.random() < 0.5 else []
                for det in (DETECTORS if b == "charge" else (DETECTORS[k % len(DETECTORS)],)):
                    case([first, second, []], nd, det, k)
                    k += 1
    mixes = [("array", "particles"), ("particles", "array"), ("dataframe", "particles"), ("array", "dataframe"),
             ("dataframe", "array"), ("particles", "dataframe", "array"), ("array", "particles", "array")]
    for mix in mixes:
        for nd in (False, True):
            ops = [["charge", r.randrange(2, 30), True, h] for h in mix]
            case([ops, [ops[0]], ops[::-1]], nd, DETECTORS[k % len(DETECTORS)], k)
            k += 1
    return out


def numpy_values(expr):
    import numpy

    return [float(v) for v in eval(expr, {}, {"numpy": numpy})]


def gen_valid_case(r, force=None):
    """A scenario in which every schedule installed on the way is valid."""
    force = force or {}
    form = force.get("form") or r.choices(
        ["list", "intlist", "tuple", "scalar", "numpy_str", "file_npy", "file_txt", "ndarray"],
        [30, 6, 8, 8, 12, 8, 8, 8])[0]
    c = dict(form=form, nd=force.get("nd", r.random() < 0.5), ops=[], history=force.get("history") or r.choice(HISTORIES),
             wgroup=r.choice(WGROUPS), rows=r.choice([1, 2, 3]), cols=r.choice([1, 2, 4]),
             entry=force.get("entry") or gen_entry(r), detector=r.choices(DETECTORS, [70, 10, 10, 10])[0])
    incs = FINCS if force.get("float") else INCS
    if force.get("float"):
        c["float"] = True       # judged with the binary64 closed form of the clock (Model/ExposureF.v)
    if form == "numpy_str":
        expr = r.choice(FLOAT_EXPRS if force.get("float") else NUMPY_EXPRS)
        ts = numpy_values(expr)
        start = ts[0] - r.choice(incs)
        c["expr"] = expr
    elif form == "scalar":
        ts, start = gen_times(r, n=1, incs=incs)
    elif form == "intlist":
        start = float(r.randrange(-5, 6))
        ts, t = [], start
        for _ in range(r.choice([1, 2, 3, 5, 9])):
            t += float(r.choice([1, 1, 2, 3, 10]))
            if not ts and t == 0:
                t += 1.0
            ts.append(t)
    else:
        ts, start = gen_times(r, n=force.get("n"), incs=incs)
    c["times"], c["start"] = [hx(t) for t in ts], hx(start)
    cur_ts, cur_start = ts, start
    nops = force.get("nops", r.choices([0, 1, 2, 3], [55, 25, 12, 8])[0])
    for _ in range(nops):
        k = r.choices(["set_nd", "set_times", "set_start", "replace_times", "replace_start", "replace_nd"],
                      [25, 30, 25, 12, 8, 8])[0]
        if k in ("set_nd", "replace_nd"):
            c["ops"].append([k, r.random() < 0.5])
        elif k in ("set_times", "replace_times"):
            nts, _ = gen_times(r, start=cur_start, incs=incs)
            f = "list" if k == "replace_times" else r.choice(["list", "list", "tuple", "ndarray", "scalar"])
            if f == "scalar":
                nts = nts[:1]
            c["ops"].append([k, dict(form=f, times=[hx(t) for t in nts])])
            cur_ts = nts
        else:
            ns = cur_ts[0] - r.choice(incs)
            c["ops"].append([k, hx(ns)])
            cur_start = ns
    fin_ts, fin_start, _ = intended_final(c)
    c["plan"] = gen_plan(r, len(fin_ts))
    no_cube(c)
    if force.get("float"):
        if not all(sched_class(*x) is None for x in intended_all(c)):
            return gen_valid_case(r, force)
    elif not all_exact(c):
        return gen_valid_case(r, force)
    return c


def all_exact(c) -> bool:
    for ts, start, ndim in intended_all(c):
        if ndim == 1 and sched_class(ts, start) is None and not exact_ok(ts, start):
            return False
    return True


RUN_KEYS = ("form", "times", "expr", "start", "nd", "ops", "plan", "wgroup", "reuse", "tamper", "entry", "sweep")


def eff(c):
    """The run with the construction history of its Readout object made explicit: a run that re-uses the
    Readout object of the previous run of its session (`reuse`) is the previous object's constructor form
    and operations followed by its own operations."""
    if c.get("sweep_value") is not None:
        # one run of an `observation.readout.times` sweep: readout.replace(times=<value>)
        base = eff({k: v for k, v in c.items() if k != "sweep_value"})
        return dict(base, ops=list(base.get("ops", [])) + [["replace_times", dict(form="list", times=[c["sweep_value"]])]])
    if not c.get("reuse"):
        return c
    pre = c.get("pre") or []
    if not pre:
        raise ValueError("reuse without a previous run")
    base = eff(dict(pre[-1], pre=pre[:-1]))
    d = dict(c, form=base["form"], times=base.get("times", []), start=base["start"], nd=base["nd"],
             ops=list(base.get("ops", [])) + list(c.get("ops", [])), reuse=False)
    if base.get("expr") is not None:
        d["expr"] = base["expr"]
    return d


def final_nd(c) -> bool:
    c = eff(c)
    nd = bool(c["nd"])
    for k, a in c.get("ops", []):
        if k in ("set_nd", "replace_nd"):
            nd = bool(a)
    return nd


def intended_all(c):
    """[(times, start, ndim)] of every schedule the caller installs (python mirror of Model.intended_all)."""
    c = eff(c)
    ts = [fl(t) for t in (case_times(c) if c["form"] == "numpy_str" else c.get("times", []))]
    start = fl(c["start"])
    ndim = 2 if c["form"] == "list2d" else 1
    out = [(ts, start, ndim)]
    for k, a in c.get("ops", []):
        if k in ("set_times", "replace_times"):
            ts = [fl(t) for t in a["times"]]
            ndim = 2 if a.get("form") == "list2d" else 1
        elif k in ("set_start", "replace_start"):
            start = fl(a)
        out.append((ts, start, ndim))
    return out


def intended_final(c):
    return intended_all(c)[-1]


MALFORMED_TIMES = [
    ("zero_first", [0.0, 1.0, 2.0], 0.0 - 1.0), ("zero_first", [0.0], -1.0), ("zero_first", [-0.0, 1.0], -2.0),
    ("start_ge_first", [1.0, 2.0], 1.0), ("start_ge_first", [1.0, 2.0, 3.0], 2.5), ("start_ge_first", [-2.0, -1.0], -1.5),
    ("start_ge_first", [0.5], 0.5),
    ("not_increasing", [1.0, 2.0, 2.0, 3.0], 0.0), ("not_increasing", [1.0, 3.0, 2.0], 0.0),
    ("not_increasing", [3.0, 2.0, 1.0], 0.0), ("not_increasing", [1.0, 1.0], 0.0),
    ("not_increasing", [1.0, 2.0, 3.0, 4.0, 5.0, 6.0, 7.0, 8.0, 9.0, 10.0, 11.0, 10.5], 0.5),
    ("not_increasing", [-3.0, -1.0, -2.0], -4.0),
    ("empty", [], 0.0),
    ("nan_time", [math.nan], 0.0), ("nan_time", [1.0, math.nan], 0.0), ("nan_time", [math.nan, 1.0], 0.0),
    ("nan_time", [1.0, math.nan, 3.0], 0.0), ("nan_start", [1.0], math.nan), ("nan_start", [1.0, 2.0, 4.0], math.nan),
]


def gen_malformed_cases(r, reps=1):
    """Every defect class through the constructor (several forms) and through the setters / replace."""
    out = []
    for _ in range(reps):
        for cls, ts, start in MALFORMED_TIMES:
            base = dict(nd=r.random() < 0.5, history=r.choice(HISTORIES), wgroup=r.choice(WGROUPS), rows=2, cols=2,
                        plan=gen_plan(r, max(1, len(ts))))
            forms = ["list", "tuple"]
            if len(ts) == 1 and cls != "nan_start":
                forms.append("scalar")
            if ts and not any(t != t for t in ts):
                forms += ["file_npy", "file_txt"]
            for f in (forms if reps == 1 else [r.choice(forms)]):
                out.append(dict(base, form=f, times=[hx(t) for t in ts], start=hx(start), ops=[], malformed=cls,
                                path="ctor"))
            # through the setters: start from a valid readout whose start allows the new times to be tried
            ok_start = -64.0 if (start != start or cls in ("start_ge_first",)) else start
            if cls == "nan_start":
                out.append(dict(base, form="list", times=[hx(t) for t in ts], start=hx(0.0),
                                ops=[["set_start", hx(start)]], malformed=cls, path="set_start"))
                out.append(dict(base, form="list", times=[hx(t) for t in ts], start=hx(0.0),
                                ops=[["replace_start", hx(start)]], malformed=cls, path="replace"))
                continue
            if cls == "start_ge_first":
                out.append(dict(base, form="list", times=[hx(t) for t in ts], start=hx(ts[0] - 1.0),
                                ops=[["set_start", hx(start)]], malformed=cls, path="set_start"))
                out.append(dict(base, form="list", times=[hx(100.0)], start=hx(start),
                                ops=[["set_times", dict(form="list", times=[hx(t) for t in ts])]], malformed=cls,
                                path="set_times"))
                continue
            first = [hx(ok_start + 1.0), hx(ok_start + 2.0)]
            for f in ["list", "ndarray"] + (["scalar"] if len(ts) == 1 else []):
                out.append(dict(base, form="list", times=first, start=hx(ok_start),
                                ops=[["set_times", dict(form=f, times=[hx(t) for t in ts])]], malformed=cls,
                                path="set_times"))
            out.append(dict(base, form="list", times=first, start=hx(ok_start),
                            ops=[["replace_times", dict(form="list", times=[hx(t) for t in ts])]], malformed=cls,
                            path="replace"))
            # installed by the setter, then a harmless further operation
            out.append(dict(base, form="list", times=first, start=hx(ok_start),
                            ops=[["set_times", dict(form="list", times=[hx(t) for t in ts])], ["set_nd", True]],
                            malformed=cls, path="set_times"))
            # invalid on the way, repaired before the run (either outcome is acceptable, but never a wrong run)
            good, _ = gen_times(r, start=ok_start)
            out.append(dict(base, form="list", times=first, start=hx(ok_start),
                            ops=[["set_times", dict(form="list", times=[hx(t) for t in ts])],
                                 ["set_times", dict(form="list", times=[hx(t) for t in good])]],
                            malformed=cls + "_repaired", path="set_times", plan=gen_plan(r, len(good))))
        # 2-D
        for path in ("ctor", "set_times"):
            for ts in ([1.0, 2.0], [1.0]):
                base = dict(nd=False, history="fresh", wgroup="charge_collection", rows=2, cols=2, plan=[[]])
                if path == "ctor":
                    out.append(dict(base, form="list2d", times=[hx(t) for t in ts], start=hx(0.0), ops=[],
                                    malformed="not_1d", path=path))
                else:
                    out.append(dict(base, form="list", times=[hx(1.0)], start=hx(0.0),
                                    ops=[["set_times", dict(form="list2d", times=[hx(t) for t in ts])]],
                                    malformed="not_1d", path=path))
    return out


TAMPER_TARGETS = ("rp.start_time", "rp.time", "rp.time_step", "rp.pipeline_count", "rp.read_out", "det.start_time",
                  "det.time", "det.time_step", "det.pipeline_count", "junk", "set_readout")


def gen_tamper(r, nxt_times, nxt_start, nxt_nd, p=0.5):
    """Assignments a caller makes on the detector between two runs (public setters only)."""
    out = []
    if r.random() >= p:
        return out
    for _ in range(r.choice([1, 1, 2, 3])):
        t = r.choice(TAMPER_TARGETS)
        if t == "junk":
            out.append([t, None])
        elif t == "set_readout":
            # the caller installs the NEXT run's sampling by hand, but from another start / in the other mode
            out.append([t, dict(times=[hx(x) for x in nxt_times], start=hx(nxt_times[0] - r.choice(INCS) - 8.0),
                                nd=(nxt_nd if r.random() < 0.7 else not nxt_nd))])
        elif t.endswith("pipeline_count"):
            out.append([t, r.choice([0, 1, 2, 5, -1])])
        elif t.endswith("read_out"):
            out.append([t, r.random() < 0.5])
        else:
            out.append([t, hx(r.choice([0.0, 1.0, -4.0, 0.5, 64.0, nxt_start + 0.25, nxt_times[0]]))])
    return out


def gen_session(r, n_runs=None, keep=None, reuse=None, tamper_p=0.5, n=None, entry=None):
    """Several valid runs on ONE detector object. Between consecutive runs each of times / start_time /
    non_destructive is independently kept or changed (`keep` = list of (times, start, nd) booleans, one per
    transition); the next run uses the same Readout object (setter calls) or a new, possibly equal-valued one.
    Returns the judged case = the last run, with the earlier runs under `pre`."""
    n_runs = n_runs or r.choice([2, 2, 2, 3, 3, 4])
    first = gen_valid_case(r, dict(form=r.choice(["list", "list", "tuple", "file_npy", "numpy_str", "intlist", "ndarray"]),
                                   nops=r.choice([0, 0, 1]), n=n))
    common = dict(history=first.pop("history"), rows=first.pop("rows"), cols=first.pop("cols"),
                  detector=first.pop("detector"))
    if entry:
        first["entry"] = entry
        no_cube(first)
    runs = [first]
    for j in range(1, n_runs):
        prev = dict(runs[-1], pre=runs[:-1])
        pts, pstart, _ = intended_final(prev)
        pnd = final_nd(prev)
        kt, ks, kn = keep[j - 1] if keep else (r.random() < 0.6, r.random() < 0.4, r.random() < 0.6)
        use_obj = reuse[j - 1] if reuse else (r.random() < 0.5)
        nstart = pstart
        while not ks and nstart == pstart:
            nstart = pts[0] - r.choice(INCS) if kt else pstart + r.choice([-1.0, -0.5, 0.25, 2.0, -8.0])
        if kt:
            nts = list(pts)
            if not nstart < nts[0]:
                nstart = nts[0] - r.choice(INCS)
        else:
            nts, _ = gen_times(r, n=(len(pts) if r.random() < 0.4 else None), start=max(pstart, nstart))
        nnd = pnd if kn else (not pnd)
        c = dict(nd=nnd, wgroup=r.choice(WGROUPS), ops=[], entry=entry or gen_entry(r))
        if use_obj:
            c.update(reuse=True, form=prev["form"], times=[], start=hx(pstart))
            if not kt or r.random() < 0.25:
                c["ops"].append(["set_times", dict(form=r.choice(["list", "tuple", "ndarray"]), times=[hx(t) for t in nts])])
            if not ks or r.random() < 0.25:
                c["ops"].append(["set_start", hx(nstart)])
            if not kn or r.random() < 0.25:
                c["ops"].append(["set_nd", nnd])
        else:
            c.update(form=r.choice(["list", "list", "tuple", "file_npy", "ndarray"]), times=[hx(t) for t in nts],
                     start=hx(nstart))
        c["tamper"] = gen_tamper(r, nts, nstart, nnd, tamper_p)
        c["plan"] = gen_plan(r, len(nts))
        runs.append(no_cube(c))
    case = dict(runs[-1], pre=runs[:-1], **common)
    if not all(all_exact(dict(runs[j], pre=runs[:j])) and
               all(sched_class(*x) is None for x in intended_all(dict(runs[j], pre=runs[:j])))
               for j in range(len(runs))):
        return gen_session(r, n_runs, keep, reuse, tamper_p, n, entry)
    return case


def gen_session_with_refusal(r):
    """valid run, then a run with a malformed schedule (refused: nothing may execute), then another valid run on the
    same detector object -- which must be what it would be alone."""
    def strip(c):
        return {k: v for k, v in c.items() if k not in ("history", "rows", "cols", "detector")}

    a = gen_valid_case(r, dict(nops=r.choice([0, 1])))
    common = dict(history=a["history"], rows=a["rows"], cols=a["cols"], detector=a["detector"])
    cls, ts, start = r.choice(MALFORMED_TIMES)
    b = dict(form="list", times=[hx(t) for t in ts], start=hx(start), nd=r.random() < 0.5, ops=[], tamper=[],
             plan=gen_plan(r, max(1, len(ts))), wgroup=r.choice(WGROUPS), malformed=cls, path="ctor_in_session")
    c = strip(gen_valid_case(r, dict(nops=0)))
    c["tamper"] = []
    return dict(c, pre=[strip(a), b], **common)


def gen_sessions(r, n_random: int):
    out = []
    # every keep/change pattern of (times, start, nd) between two runs, with the same Readout object and with a
    # new one; no tampering, so that the previous run's ReadoutProperties object is exactly what set_readout finds
    for kt in (True, False):
        for ks in (True, False):
            for kn in (True, False):
                for use_obj in (True, False):
                    out.append(gen_session(r, n_runs=2, keep=[(kt, ks, kn)], reuse=[use_obj], tamper_p=0.0,
                                           n=r.choice([1, 2, 3, 4])))
    # the caller writes the NEXT run's start time into the object the detector still carries (public setters),
    # then runs the same sampling from that start
    for target in ("rp.start_time", "det.start_time"):
        for use_obj in (True, False):
            c = gen_session(r, n_runs=2, keep=[(True, False, True)], reuse=[use_obj], tamper_p=0.0, n=r.choice([1, 2, 3]))
            c["tamper"] = [[target, hx(intended_final(c)[1])]]
            out.append(c)
    # the same schedule three times, start moving both ways
    out.append(gen_session(r, n_runs=3, keep=[(True, False, True)] * 2, reuse=[True, True], tamper_p=0.0, n=3))
    out.append(gen_session(r, n_runs=3, keep=[(True, False, True)] * 2, reuse=[False, False], tamper_p=0.0, n=2))
    for _ in range(n_random):
        out.append(gen_session(r))
    for _ in range(max(4, n_random // 8)):
        out.append(gen_session_with_refusal(r))
    for c in out:
        c["judge_all"] = True
    return out


def gen_sessions_exhaustive():
    """Thorough tier: EVERY two-run session over a small grid -- schedule in {[1], [1,2], [2,3]} x start in {0, 1/2, -1}
    x mode, for both runs, the second run with the same Readout object (setter calls for what changes) or a new one."""
    grid = [(ts, st, nd) for ts in ([1.0], [1.0, 2.0], [2.0, 3.0]) for st in (0.0, 0.5, -1.0) for nd in (False, True)]
    out = []
    for (t1, s1, n1) in grid:
        for (t2, s2, n2) in grid:
            for use_obj in (True, False):
                first = dict(form="list", times=[hx(t) for t in t1], start=hx(s1), nd=n1, ops=[], wgroup="charge_collection",
                             plan=[[["pixel", 2, True], ["signal", 5, False]]] * len(t1))
                second = dict(nd=n2, wgroup="charge_collection", ops=[], tamper=[],
                              plan=[[["pixel", 3, True], ["image", 4, False]]] * len(t2))
                if use_obj:
                    second.update(reuse=True, form="list", times=[], start=hx(s1))
                    # order of the setter calls: keep every intermediate schedule valid
                    ops = []
                    if t2 != t1 and s1 < t2[0]:
                        ops.append(["set_times", dict(form="list", times=[hx(t) for t in t2])])
                        if s2 != s1:
                            ops.append(["set_start", hx(s2)])
                    elif t2 != t1:
                        ops.append(["set_start", hx(s2)])
                        ops.append(["set_times", dict(form="list", times=[hx(t) for t in t2])])
                    elif s2 != s1:
                        ops.append(["set_start", hx(s2)])
                    if n2 != n1:
                        ops.append(["set_nd", n2])
                    second["ops"] = ops
                else:
                    second.update(form="list", times=[hx(t) for t in t2], start=hx(s2))
                c = dict(second, pre=[first], history="fresh", rows=1, cols=2, judge_all=True)
                if all(sched_class(*x) is None for x in intended_all(c)):
                    out.append(c)
    return out


def gen_observation_case(r, entry=None, key=None, mode=None):
    """pyxel.run_mode(Observation): run_pipeline once per parameter set, each on a deep copy of the detector (prior
    state included), with the observation's readout -- or, for a sweep of `observation.readout.times`, with
    readout.replace(times=<value>)."""
    c = gen_valid_case(r, dict(form=r.choice(["list", "list", "tuple", "file_npy", "ndarray", "numpy_str"]),
                               nops=r.choice([0, 0, 1]), entry=entry or r.choice(["observation", "observation_dask"])))
    key = key or r.choice(["temperature", "times"])
    fts, fstart, _ = intended_final(c)
    sw = dict(key=key, mode=mode or r.choice(["product", "sequential"]))
    if c["entry"] == "observation_dask":
        sw["scheduler"] = r.choice(["synchronous", "threads"])
    if key == "temperature":
        sw["values"] = sorted(r.sample([80.0, 120.0, 160.0, 200.0, 240.0], r.choice([2, 2, 3])))
    else:
        vals = []
        while len(vals) < r.choice([2, 3, 4]):
            v = fstart + r.choice(INCS) * r.choice([1, 2, 3, 7])
            if v != 0.0 and v not in vals and exact_ok([v], fstart):
                vals.append(v)
        sw["values"] = [hx(v) for v in vals]
    c["sweep"] = sw
    return c


def gen_observations(r, n_random: int):
    out = []
    for entry in ("observation", "observation_dask"):
        for key in ("temperature", "times"):
            for mode in ("product", "sequential"):
                out.append(gen_observation_case(r, entry, key, mode))
    out += [gen_observation_case(r) for _ in range(n_random)]
    return out


def load_corpus():
    """Minimised past failures (harness/corpus/C02/*.json), run first."""
    from pathlib import Path

    d = Path(__file__).resolve().parent.parent / "corpus" / "C02"
    return [json.loads(f.read_text()) for f in sorted(d.glob("*.json"))] if d.is_dir() else []


def gen_cases(ctx: Ctx, n_valid: int, mal_reps: int, n_sessions: int = 0, n_observations: int = 0, n_float: int = 0):
    r = ctx.rng("cases")
    cases = load_corpus()
    n_valid += len(cases)
    # every (history, mode) pair with a multi-step pixel-accumulating plan: the leak / flag mutations
    for h in HISTORIES:
        for nd in (False, True):
            c = gen_valid_case(r, dict(history=h, nd=nd, form="list", n=r.choice([3, 4, 5]), nops=0))
            n = len(c["times"])
            c["plan"] = [[["pixel", 3 + i, True], ["photon", 2, False]] + ([["image", 7, False]] if i % 2 == 0 else [])
                         for i in range(n)]
            cases.append(c)
    # every form, start sign
    for f in ["list", "intlist", "tuple", "scalar", "numpy_str", "file_npy", "file_txt", "ndarray"]:
        cases.append(gen_valid_case(r, dict(form=f)))
    for n in range(1, 13):
        cases.append(gen_valid_case(r, dict(form="list", n=n)))
    # replace() on a valid readout
    for k, a in (("replace_nd", True), ("replace_start", hx(-3.0))):
        c = gen_valid_case(r, dict(form="list", nops=0, history="fresh"))
        c["ops"] = [[k, a]] if k == "replace_nd" else [[k, hx(fl(c["times"][0]) - 1.0)]]
        cases.append(c)
    fill = gen_fill_cases(ctx.rng("fill"))
    cases += fill
    n_valid += len(fill) // 4      # the directed fill cases take the place of three quarters as many random ones
    while len(cases) < n_valid:
        cases.append(gen_valid_case(r))
    cases += gen_malformed_cases(r, mal_reps)
    cases += gen_sessions(ctx.rng("sessions"), n_sessions)
    cases += gen_observations(ctx.rng("observations"), n_observations)
    rf = ctx.rng("binary64")
    for k in range(n_float):
        # no text files here: pandas' default decimal parser is not round-trip exact (1 ulp off on long decimals),
        # which is the file reader's business, not the clock's
        form = ["list", "tuple", "numpy_str", "file_npy", "ndarray", "scalar"][k % 6] if k < 12 else \
            rf.choice(["list", "list", "tuple", "numpy_str", "file_npy", "ndarray", "scalar"])
        cases.append(gen_valid_case(rf, dict(form=form, float=True)))
    return cases


# ------------------------------------------------------------------------------------------ Coq emission


def ctv(h) -> str:
    x = fl(h) if isinstance(h, str) else float(h)
    if x != x:
        return "TNaN"
    n, d = float(x).as_integer_ratio()
    return f"(TQ {core.cq(n, d)})"


def craw(form, times) -> str:
    if form == "list2d":
        return "R2"
    ts = times[:1] if form == "scalar" else times
    return "(R1 " + core.clist(ctv(t) for t in ts) + ")"


def case_times(c):
    """The values of the constructor's `times` as the implementation receives them."""
    if c["form"] == "numpy_str":
        return [hx(v) for v in numpy_values(c["expr"])]
    return c.get("times", [])


def cop(k, a) -> str:
    if k == "set_times":
        return f"(OSetTimes {craw(a['form'], a['times'])})"
    if k == "replace_times":
        return f"(OReplaceTimes {craw('list', a['times'])})"
    if k == "set_start":
        return f"(OSetStart {ctv(a)})"
    if k == "replace_start":
        return f"(OReplaceStart {ctv(a)})"
    if k == "set_nd":
        return f"(OSetND {core.cbool(bool(a))})"
    if k == "replace_nd":
        return f"(OReplaceND {core.cbool(bool(a))})"
    raise ValueError(k)


def coz(v) -> str:
    return "None" if v is None else f"(Some {core.cz(int(v))})"


def cdet(d) -> str:
    return "(mkdet " + " ".join(coz(d.get(b)) for b in PIECES) + ")"


def cwop(b, v, add, how=None, dtype=None) -> str:
    if b == "scene":
        return "(WAdd Scene 1%Z)"
    if b == "charge" and how in ("particles", "dataframe"):
        return f"(WPart {core.cz(int(v))})"
    if b == "charge" or add or how in ADD_HOWS:
        return f"(WAdd {BNAME[b]} {core.cz(int(v))})"
    return f"(WSet {BNAME[b]} {core.cz(int(v))})"


def cobs(o) -> str:
    ck = o["clock"]
    return (f"(mkobs {ctv(ck['time'])} {ctv(ck['time_step'])} {ctv(ck['absolute_time'])} "
            f"{core.cz(int(ck['pipeline_count']))} {core.cbool(ck['is_first_readout'])} "
            f"{core.cbool(ck['is_last_readout'])} {cdet(o['begin'])} {cdet(o['end'])})")


def crp(rp) -> str:
    if rp is None:
        return "None"
    return ("(Some (mkrp " + core.clist(ctv(t) for t in rp["times"]) + " " + core.clist(ctv(t) for t in rp["steps"]) +
            f" {core.cz(int(rp['num']))} {ctv(rp['start'])} {core.cbool(bool(rp['nd']))} {ctv(rp['time'])} "
            f"{ctv(rp['step'])} {core.cz(int(rp['count']))}))")


def cafter(o) -> str:
    """The detector state found right after the run (compared with the state the object-level model leaves);
    not available for an Observation (it runs on copies) and not compared after an exception raised mid-run."""
    if "d1" not in o or (o.get("stage") is not None and o.get("executed", 0) > 0):
        return "None"
    return f"(Some ({cdet(o['d1'])}, {crp(o.get('rp1'))}))"


def emit_case(c, o) -> str:
    c = eff(c)
    if o.get("stage") is None:
        obs = "(IRan " + core.clist(cobs(x) for x in o["obs"]) + ")"
    else:
        obs = f"(IRejected {core.cz(int(o['stage']))} {core.cz(int(o['executed']))})"
    plan = core.clist(core.clist(cwop(*w) for w in step) for step in c.get("plan", []))
    return ("{| k_form := " + ("FNdarray" if c["form"] == "ndarray" else "FList") +
            f"; k_raw := {craw(c['form'], case_times(c))}; k_start := {ctv(c['start'])}; "
            f"k_nd := {core.cbool(bool(c['nd']))}; k_ops := {core.clist(cop(k, a) for k, a in c.get('ops', []))}; "
            f"k_d0 := {cdet(o['d0'])}; k_rp0 := {crp(o.get('rp0'))}; k_plan := {plan}; k_obs := {obs}; "
            f"k_after := {cafter(o)} |}}")


def emit_file(pairs, binary64=False) -> str:
    """binary64: the cases are judged with the binary64 closed form of the clock (steps and absolute time rounded to
    nearest-even, Model/ExposureF.v) instead of the exact rational one."""
    body = ";\n  ".join(emit_case(c, o) for c, o in pairs)
    sfx = "_f" if binary64 else ""
    return ("From Coq Require Import QArith ZArith List.\nFrom PyxelV Require Import Model.Exposure"
            + (" Model.ExposureF" if binary64 else "") + ".\n"
            "From PyxelGen Require Import Gen_C02.\nImport ListNotations.\n"
            f"Definition cases : list c02_case := [\n  {body}\n].\n"
            f"Eval vm_compute in mismatches{sfx} src_guards src_empty src_set_readout cases.\n"
            f"Eval vm_compute in violations{sfx} cases.\n"
            f"Eval vm_compute in after_differs{sfx} src_guards src_empty src_set_readout cases.\n")


# ------------------------------------------------------------------------------------------ classification


def relation(c) -> str:
    """How the run relates to the previous run made on the same detector object."""
    pre = c.get("pre") or []
    if not pre:
        return "first_run"
    prev = dict(pre[-1], pre=pre[:-1])
    pts, pstart, _ = intended_final(prev)
    ts, start, _ = intended_final(c)
    same = lambda a, b: a == b or (a != a and b != b)  # noqa: E731
    return ("times_" + ("same" if len(ts) == len(pts) and all(same(a, b) for a, b in zip(ts, pts)) else "changed") +
            ",start_" + ("same" if same(start, pstart) else "changed") +
            ",mode_" + ("same" if final_nd(c) == final_nd(prev) else "changed") +
            ",readout_object_" + ("same" if c.get("reuse") else "new"))


def classify(c, o):
    """(clause, sig-extras, what) of a case the Coq specification flagged (python side: naming only)."""
    clause, extra, what = classify1(c, o)
    if str(c.get("entry", "")).startswith("observation"):
        extra = dict(extra, entry=c["entry"], sweep=c["sweep"]["key"])
        what += (f" -- one pipeline of pyxel.run_mode(Observation, with_dask={c['entry'] == 'observation_dask'}) sweeping "
                 f"{c['sweep']['key']} over {[fl(v) if isinstance(v, str) else v for v in c['sweep']['values']]}"
                 + (f", this pipeline: readout.times = {fl(c['sweep_value'])}" if c.get("sweep_value") is not None else ""))
    if c.get("pre") and clause in ("clock", "step_start_buckets", "once_per_time", "unclassified"):
        what += (f" -- run {len(c['pre']) + 1} of a session on one detector object; relative to the previous run: "
                 f"{relation(c)}; caller's assignments before this run: {c.get('tamper') or 'none'}")
    return clause, extra, what


def classify1(c, o):
    full = c
    c = eff(c)
    alls = intended_all(c)
    fts, fstart, fnd = alls[-1]
    fin_cls = sched_class(fts, fstart, fnd)
    all_valid = all(sched_class(*x) is None for x in alls)
    path = "ctor" if not c.get("ops") else ",".join(sorted({k for k, _ in c["ops"]}))
    if o.get("stage") is not None:
        if o["executed"] > 0:
            return "rejected_after_models_ran", dict(path=path, defect=fin_cls), \
                f"exception {o.get('exc')} only after {o['executed']} model call(s) had executed"
        via = "ndarray" if c["form"] == "ndarray" else (
            "replace" if any(k in ("replace_start", "replace_nd") for k, _ in c.get("ops", [])) else
            ("setter_ndarray" if any(k == "set_times" and a.get("form") == "ndarray" for k, a in c.get("ops", []))
             else c["form"]))
        return "valid_rejected", dict(via=via, stage=o["stage"]), \
            f"a valid schedule is refused ({o.get('exc')}: {o.get('msg')}) via {via}"
    if fin_cls is not None:
        return "invalid_accepted", dict(defect=fin_cls.replace("_repaired", ""), path=path), \
            f"invalid schedule ({fin_cls}) times={fts} start={fstart} was run ({len(o['obs'])} step(s) executed)"
    # ran on a valid schedule: which closed form fails?
    nd = final_nd(c)
    obs = o["obs"]
    if len(obs) != len(fts):
        return "once_per_time", dict(), f"{len(obs)} steps executed for {len(fts)} readout times"
    prev_t, prev_end = fstart, None
    for i, (t, ob) in enumerate(zip(fts, obs)):
        ck = ob["clock"]
        exp = dict(time=t, time_step=t - prev_t, absolute_time=fstart + t, pipeline_count=i,
                   is_first_readout=(i == 0), is_last_readout=(i == len(fts) - 1))
        for f, e in exp.items():
            got = fl(ck[f]) if isinstance(ck[f], str) else ck[f]
            if got != e:
                return "clock", dict(field=f), f"step {i}: {f} = {got!r}, expected {e!r} (times={fts}, start={fstart})"
        b = ob["begin"]
        for bk in ("scene", "photon", "charge", "cframe", "signal", "image"):
            if b.get(bk) is not None:
                kind = "leak_from_history" if (i == 0) else "not_emptied"
                bucket = "charge" if bk == "cframe" else bk
                part = {"charge": " (2-D array)", "cframe": " (particle dataframe)"}.get(bk, "")
                filled = [f"{w[3] if len(w) > 3 and w[3] else 'array'}({w[1]})" for w in
                          (c.get("plan", [])[i - 1] if 0 < i <= len(c.get("plan", [])) else []) if w[0] == bucket]
                return "step_start_buckets", dict(bucket=bucket, kind=kind, mode="nd" if nd else "destructive"), \
                    f"step {i}: {bucket}{part} holds {b[bk]} at the start of the step" + \
                    (f"; step {i - 1} filled it through {', '.join(filled)}" if filled else "") + \
                    f" (non_destructive={nd}, history={full.get('history')})"
        exp_px = 0 if (i == 0 or not nd) else prev_end["pixel"]
        if b["pixel"] != exp_px:
            kind = "leak_from_history" if i == 0 else ("pixel_lost" if nd else "pixel_kept")
            return "step_start_buckets", dict(bucket="pixel", kind=kind, mode="nd" if nd else "destructive"), \
                f"step {i}: pixel = {b['pixel']} at the start of the step, expected {exp_px} " \
                f"(non_destructive={nd}, history={full.get('history')})"
        prev_t, prev_end = t, ob["end"]
    return "unclassified", dict(), "the Coq specification rejects the observations"


def to_violation(c, o) -> Violation:
    clause, extra, what = classify(c, o)
    case = {k: v for k, v in c.items()}
    observed = dict(stage=o.get("stage"), executed=o.get("executed"), exc=o.get("exc"), msg=o.get("msg"),
                    obs=o.get("obs"))
    return Violation(clause=clause, case=case, observed=observed,
                     expected="valid schedule: one step per time, clock (t_i, t_i - t_(i-1), start + t_i, i, first, last), "
                              "buckets empty at step start, pixel 0 (destructive / step 0) or previous end (non-destructive); "
                              "invalid schedule: exception before any model executes",
                     what=what, sig=dict(clause=clause, **extra))



# ------------------------------------------------------------------------------------------ differential judgement
# When model and implementation disagree about the content of a bucket at the END of a step although the step began
# with the bucket observed empty, the question for this property is whether the container really was empty: the same
# writes are made in the only step of a run on a fresh detector (the control); if they leave something else there, what
# the step's models found depended on what happened before the step -- a piece of state that empty() did not reset.


def control_of(c, i):
    """The writes of step i of case c as the only step of a one-readout run on a fresh detector."""
    e = eff(c)
    entry = e.get("entry") if e.get("entry") in ENTRIES else "run_mode"
    return dict(form="list", times=[hx(1.0)], start=hx(0.0), nd=final_nd(c), ops=[], history="fresh",
                wgroup=e.get("wgroup", "charge_collection"), rows=c.get("rows", 2), cols=c.get("cols", 3), entry=entry,
                detector=c.get("detector", "ccd"), plan=[e.get("plan", [])[i]])


def emit_differential(items) -> str:
    body = ";\n  ".join(f"({core.cbool(bool(nd))}, ({cdet(a)}, {cdet(b)}))" for nd, a, b in items)
    return ("From Coq Require Import ZArith List.\nFrom PyxelV Require Import Model.Exposure.\nImport ListNotations.\n"
            f"Definition pairs : list (bool * (det Z * det Z)) := [\n  {body}\n].\n"
            "Eval vm_compute in history_dependent pairs.\n")


def differential_eval(ctx: Ctx, cands, tag="dif"):
    """cands: [(case, observation of the case, step index)].  Runs the control of each and asks Coq whether the end
    of the step differs from the end of its control.  Returns [(case, obs, i, control case, control obs)] that do."""
    cands = [(c, o, i) for c, o, i in cands if o.get("stage") is None and i < len(o.get("obs") or [])
             and i < len(eff(c).get("plan", []))]
    if not cands:
        return []
    controls = [control_of(c, i) for c, _, i in cands]
    outs = core.run_driver(ctx, "c02", controls, workers=8)
    items, kept = [], []
    for (c, o, i), cc, co in zip(cands, controls, outs):
        if "crash" in co or "driver_error" in co or co.get("stage") is not None or len(co.get("obs") or []) != 1:
            continue
        items.append((final_nd(c), o["obs"][i]["end"], co["obs"][0]["end"]))
        kept.append((c, o, i, cc, co))
    if not items:
        return []
    ok, evals, se = core.coq_eval(ctx, tag, emit_differential(items))
    if not ok or len(evals) != 1:
        ctx.log("differential case file did not evaluate:", core.tail(se, 8))
        return []
    return [kept[k] for k in core.parse_int_list(evals[0])]


def run_plain(ctx: Ctx, cases):
    payload = [{k: v for k, v in c.items() if k not in ("malformed", "path", "view", "judge_all", "sweep_value",
                                                        "differential_step")} for c in cases]
    return core.run_driver(ctx, "c02", payload, workers=8)


def differential(ctx: Ctx, mism, budget=16):
    """Mismatching runs -> violations `step_end_depends_on_earlier_steps` (with a two-step replay when possible)."""
    cands = []
    for c, o in mism:
        if o.get("stage") is not None or str(c.get("entry", "")).startswith("observation") or c.get("float"):
            continue
        plan = eff(c).get("plan", [])
        steps = [i for i in range(min(len(plan), len(o.get("obs") or []))) if plan[i]
                 and (i > 0 or c.get("history", "fresh") != "fresh" or c.get("pre"))]
        for i in steps[:3]:
            cands.append((c, o, i))
        if len(cands) >= budget:
            break
    found = differential_eval(ctx, cands[:budget])
    ctx.count("differential_controls_run", len(cands[:budget]))
    done = set()
    for c, o, i, cc, co in found:
        if len(done) >= 3:
            break
        # shrink: the previous step's writes and this step's writes alone, on a fresh detector
        small = None
        if i > 0:
            plan = eff(c).get("plan", [])
            got0, exp0 = o["obs"][i]["end"], co["obs"][0]["end"]
            bks = {("charge" if k == "cframe" else k) for k in PIECES if got0.get(k) != exp0.get(k)}
            only = [[w for w in st if w[0] in bks] for st in (plan[i - 1], plan[i])]
            for pl in (only, [plan[i - 1], plan[i]]):
                two = dict(control_of(c, i), times=[hx(1.0), hx(2.0)], plan=pl)
                o2 = run_plain(ctx, [two])[0]
                if "crash" not in o2 and "driver_error" not in o2 and differential_eval(ctx, [(two, o2, 1)], tag="dif2"):
                    small = (two, o2, 1)
                    break
        if small:
            # the control of the shrunk case (its own step-1 writes alone)
            cc = control_of(small[0], 1)
            co = run_plain(ctx, [cc])[0]
        c1, o1, i1 = small or (c, o, i)
        got, exp = o1["obs"][i1]["end"], co["obs"][0]["end"]
        diff = sorted(k for k in PIECES if got.get(k) != exp.get(k) and not (k == "pixel" and final_nd(c1)))
        key = ",".join(diff)
        if key in done:
            continue
        done.add(key)
        case = dict({k: v for k, v in c1.items() if k != "judge_all"}, differential_step=i1)
        ctx.violations.append(Violation(
            clause="step_end_depends_on_earlier_steps", case=case,
            observed=dict(end_of_step=got, end_of_the_same_writes_alone_on_a_fresh_detector=exp),
            expected="a container that is empty at the start of a step behaves as an empty one: the writes of the step "
                     "leave in it what they leave in the only step of a run on a fresh detector",
            what=f"step {i1}: the writes {eff(c1)['plan'][i1]} leave {', '.join(f'{k}={got.get(k)}' for k in diff)}; made alone in "
                 f"a one-readout run on a fresh detector they leave {', '.join(f'{k}={exp.get(k)}' for k in diff)} -- the "
                 f"container kept something of "
                 + (f"step {i1 - 1} ({eff(c1)['plan'][i1 - 1]})" if i1 > 0 else f"the detector's history ({c1.get('history')})")
                 + " that empty() did not reset (state outside the attributes the emptiness test looks at)",
            sig=dict(clause="step_end_depends_on_earlier_steps", pieces=key)))


# ------------------------------------------------------------------------------------------ legs

PER_FILE = 80


def expand(c, o):
    """The (case, observation) pairs judged for one driver result: the run itself; its second clock view if the
    two public views differ; for an Observation one pair per executed pipeline (detector copy)."""
    out = []

    def add_pair(cc, oo):
        out.append((cc, oo))
        if oo.get("obs_rp"):
            # detector.<clock property> and detector.readout_properties.<clock property> disagree
            out.append((dict(cc, view="readout_properties"), dict(oo, obs=oo["obs_rp"])))

    if o.get("stage") is not None or "groups" not in o:
        if c.get("sweep") and c["sweep"]["key"] == "times" and o.get("stage") is not None:
            c = dict(c, sweep_value=c["sweep"]["values"][0])
        add_pair(c, o)
        return out
    sw, groups = c["sweep"], o["groups"]
    base = {k: o[k] for k in ("stage", "executed", "d0", "rp0")}
    dask = c.get("entry") == "observation_dask"
    if sw["key"] == "temperature":
        for g in groups:
            add_pair(c, dict(base, obs=g["obs"], **({"obs_rp": g["obs_rp"]} if g.get("obs_rp") else {})))
        # dask runs the first parameter set once more, eagerly, to learn the structure of the result
        if len(groups) not in ((len(sw["values"]), len(sw["values"]) + 1) if dask else (len(sw["values"]),)):
            add_pair(dict(c, view="number_of_pipelines"), dict(base, obs=[]))
        return out
    seen = set()
    for k, g in enumerate(groups):
        if dask:
            match = [v for v in sw["values"] if [v] == g["rp_times"]]
            v = match[0] if match else sw["values"][0]
        else:
            v = sw["values"][min(k, len(sw["values"]) - 1)]
        seen.add(v)
        add_pair(dict(c, sweep_value=v), dict(base, obs=g["obs"], **({"obs_rp": g["obs_rp"]} if g.get("obs_rp") else {})))
    for v in sw["values"]:
        if v not in seen:       # a swept value for which no pipeline ran
            add_pair(dict(c, sweep_value=v, view="value_not_run"), dict(base, obs=[]))
    if not dask and len(groups) != len(sw["values"]):
        add_pair(dict(c, sweep_value=sw["values"][0], view="number_of_pipelines"), dict(base, obs=[]))
    return out


def evaluate(ctx: Ctx, cases, tag="c", count=True):
    """Run implementation + Coq on the cases. Returns (mismatching, violating, pairs)."""
    payload = [dict({k: v for k, v in c.items() if k not in ("malformed", "path", "view", "judge_all", "sweep_value", "differential_step")},
                    all_runs=bool(c.get("judge_all"))) for c in cases]
    # run_driver hands contiguous slices to its workers: interleave, so that the expensive kinds of cases (sessions,
    # observations) are spread over all of them
    W, n = 8, len(payload)
    perm = [i for k in range(W) for i in range(k, n, W)]
    res = core.run_driver(ctx, "c02", [payload[i] for i in perm], workers=W)
    obs = [None] * n
    for i, o in zip(perm, res):
        obs[i] = o
    pairs = []

    def add_pair(c, o):
        pairs.extend(expand(c, o))

    for c, o in zip(cases, obs):
        if "crash" in o or "driver_error" in o:
            ctx.broken.append(Broken("correspondence", "implementation driver failed", json.dumps(o)[:600], c))
            continue
        if c.get("judge_all"):
            # a session: every run is judged, each as the case "this run after those runs"
            runs = list(c.get("pre") or []) + [{k: v for k, v in c.items() if k in RUN_KEYS}]
            common = {k: v for k, v in c.items() if k not in RUN_KEYS and k not in ("pre", "judge_all")}
            for j, oj in enumerate(o["outs"]):
                add_pair(dict(runs[j], pre=runs[:j], **common), oj)
        else:
            add_pair(c, o)
    files, chunks = {}, {}
    for binary64, sub in ((False, [p for p in pairs if not p[0].get("float")]),
                          (True, [p for p in pairs if p[0].get("float")])):
        for k in range(0, len(sub), PER_FILE):
            name = f"{tag}{'f' if binary64 else ''}_{k // PER_FILE:03d}"
            files[name] = emit_file(sub[k:k + PER_FILE], binary64)
            chunks[name] = sub[k:k + PER_FILE]
    res = core.coq_eval_many(ctx, files, timeout=600, par=8)
    mism, viol = [], []
    for name in sorted(files):
        ok, evals, se = res[name]
        chunk = chunks[name]
        if not ok or len(evals) != 3:
            ctx.broken.append(Broken("correspondence", f"case file {name}.v did not evaluate", core.tail(se, 15)))
            continue
        mism += [chunk[i] for i in core.parse_int_list(evals[0])]
        viol += [chunk[i] for i in core.parse_int_list(evals[1])]
        if count:
            # informational: does the detector object end up in the state the object-level model predicts?
            ctx.count("state_after_run_compared", sum(1 for _, o in chunk if cafter(o) != "None"))
            ctx.count("state_after_run_differs_from_model", len(core.parse_int_list(evals[2])))
    if count:
        for c, o in pairs:
            ctx.count("evaluations")
            ctx.count("steps_observed", len(o.get("obs") or []))
            ctx.dist("form", eff(c)["form"])
            ctx.dist("history", c.get("history"))
            ctx.dist("earlier_runs_on_the_detector", len(c.get("pre") or []))
            if c.get("pre"):
                ctx.dist("session_transition", relation(c))
                ctx.dist("tamper", ",".join(sorted({t for t, _ in c.get("tamper") or []})) or "-")
            ctx.dist("mode", "non_destructive" if final_nd(c) else "destructive")
            ctx.dist("readouts", len(intended_final(c)[0]))
            ctx.dist("ops", len(eff(c).get("ops", [])))
            ctx.dist("malformed", c.get("malformed", "-"))
            ctx.dist("arithmetic", "binary64_rounded" if c.get("float") else "exact_dyadic")
            ctx.dist("entry", c.get("entry", "run_mode"))
            if c.get("sweep"):
                ctx.dist("observation_sweep", f"{c['sweep']['key']},{c['sweep'].get('mode')},{c['sweep'].get('scheduler', '-')}")
            ctx.dist("detector", c.get("detector", "ccd"))
            ctx.dist("outcome", "ran" if o.get("stage") is None else f"rejected_stage_{o['stage']}")
            if o.get("stage") is None:
                nsteps = len(o.get("obs") or [])
                for i, step in enumerate(eff(c).get("plan", [])[:nsteps]):
                    for w in step:
                        # a bucket filled in step i is judged at the start of step i + 1 when there is one
                        ctx.dist("filled_through" + ("_before_a_step_boundary" if i + 1 < nsteps else "_in_the_last_step"),
                                 f"{w[0]}.{(w[3] if len(w) > 3 and w[3] else 'legacy_write')}")
    return mism, viol, pairs


def flat(c, **kw):
    """The run alone: its Readout construction made explicit, no earlier runs, no tampering."""
    d = {k: v for k, v in eff(c).items() if k not in ("pre", "reuse", "tamper", "judge_all")}
    d.update(kw)
    return d


def shrink_session(ctx: Ctx, c, o):
    """A violating run that has earlier runs on its detector: does it violate alone? with only the previous run?"""
    clause = classify1(c, o)[0]
    pre = c["pre"]
    prev = flat(dict(pre[-1], pre=pre[:-1]), plan=[])
    for k in ("history", "rows", "cols", "malformed", "path", "view"):
        prev.pop(k, None)
    cands = [flat(c), flat(c, history="fresh", rows=1, cols=1)]
    for hist in ("fresh", c.get("history", "fresh")):
        for tamper in ([], c.get("tamper") or []):
            for plan in ([], c.get("plan", [])):
                cands.append(dict(c, pre=[prev], tamper=tamper, plan=plan, history=hist, rows=1, cols=1))
                cands.append(dict(c, pre=[dict(prev, tamper=(pre[-1].get("tamper") or []))], tamper=tamper, plan=plan,
                                  history=hist, rows=1, cols=1))
    tam = c.get("tamper") or []
    if len(tam) > 1:
        subs = [[t] for t in tam] + [[a, b] for i, a in enumerate(tam) for b in tam[i + 1:]]
        for sub in subs[:12]:
            cands.append(dict(c, pre=[prev], tamper=sub, plan=[], history="fresh", rows=1, cols=1))
    for d in cands:
        d.pop("judge_all", None)
    _, viol, _ = evaluate(ctx, cands, tag="shs", count=False)
    best = None
    for cc, oo in viol:
        if classify1(cc, oo)[0] == clause:
            size = (len(cc.get("pre") or []), len(cc.get("tamper") or []) + sum(len(x.get("tamper") or []) for x in cc.get("pre") or []),
                    sum(len(st) for st in cc.get("plan", [])), 0 if cc.get("history") == "fresh" else 1)
            if best is None or size < best[0]:
                best = (size, cc, oo)
    return (best[1], best[2]) if best else (c, o)


def shrink(ctx: Ctx, c, o):
    """Smaller neighbours of a violating case; keep the smallest that still violates with the same clause."""
    if str(c.get("entry", "")).startswith("observation"):
        return c, o
    if c.get("pre"):
        c, o = shrink_session(ctx, c, o)
        if c.get("pre"):
            return c, o         # the earlier run is part of the failing input
    c = eff(c)
    clause = classify(c, o)[0]
    cands = []

    def add(**kw):
        d = copy.deepcopy(c)
        d.update(kw)
        cands.append(d)

    alls = intended_all(c)
    fts, fstart, _ = alls[-1]
    fnd = final_nd(c)
    base_forms = c["form"] if c["form"] in ("ndarray", "list2d") else "list"
    if clause in ("clock", "step_start_buckets", "once_per_time") and sched_class(fts, fstart) is None:
        px = [[["pixel", 3, True]] for _ in fts]
        # only the operations on the bucket that is found non-empty, then each of them alone in the first step
        bk = classify(c, o)[1].get("bucket")
        only = [[w for w in st if w[0] == bk] for st in c.get("plan", [])] if bk else []
        singles = [[[w]] + [[] for _ in fts[1:]] for st in only for w in st][:8]
        for n in (1, 2, 3, len(fts)):
            if n <= len(fts):
                for hist in ("fresh", c.get("history", "fresh")):
                    for plan in [[[] for _ in range(n)], px[:n], c.get("plan", [])[:n]] + \
                            ([only[:n]] if bk else []) + [sg[:n] for sg in singles]:
                        cands.append(dict(form=base_forms, times=[hx(t) for t in fts[:n]], start=hx(fstart),
                                          nd=fnd, ops=[], plan=plan, history=hist, wgroup=c.get("wgroup"),
                                          rows=1, cols=1, **{k: c[k] for k in ("entry", "detector", "float") if c.get(k)}))
    else:
        add(plan=[], history="fresh", rows=1, cols=1)
        if len(c.get("ops", [])) > 1:
            for i in range(len(c["ops"])):
                add(ops=[c["ops"][i]], plan=[], history="fresh")
    if not cands:
        return c, o
    _, viol, pairs = evaluate(ctx, cands, tag="shr", count=False)
    best = None
    for cc, oo in viol:
        if classify(cc, oo)[0] == clause:
            size = (len(cc.get("ops", [])), len(intended_final(cc)[0]), sum(len(s) for s in cc.get("plan", [])),
                    0 if cc.get("history") == "fresh" else 1)
            if best is None or size < best[0]:
                best = (size, cc, oo)
    return (best[1], best[2]) if best else (c, o)


def new_violations(ctx: Ctx):
    fs = core.load_findings(ctx.prop)
    return [v for v in ctx.violations if not any(core.finding_matches(e, v) for e in fs)]


def record(ctx: Ctx, mism, viol, do_shrink=True):
    fs = core.load_findings(ctx.prop)
    shrunk_budget = 3
    seen = set()
    for c, o in viol:
        v = to_violation(c, o)
        key = json.dumps(v.sig, sort_keys=True)
        is_known = any(core.finding_matches(e, v) for e in fs)
        if do_shrink and not is_known and key not in seen and shrunk_budget > 0:
            shrunk_budget -= 1
            c2, o2 = shrink(ctx, c, o)
            v = to_violation(c2, o2)
        seen.add(key)
        ctx.violations.append(v)
    known_keys = set()
    for c, o in viol:
        if any(core.finding_matches(e, to_violation(c, o)) for e in fs):
            known_keys.add(json.dumps(c, sort_keys=True))
    for c, o in mism:
        if json.dumps(c, sort_keys=True) in known_keys:
            # the model describes the intended behaviour here; the divergence is the recorded open defect
            ctx.count("mismatches_explained_by_known_findings")
            continue
        has_nan = any(any(t != t for t in ts) or st != st for ts, st, _ in intended_all(c))
        if has_nan and o.get("stage") == 2 and o.get("executed", 0) > 0:
            # NaN is outside what the model of the run carries (the loop itself runs; the crash comes from
            # the xarray merge of the per-step results); the case is reported as a specification violation
            ctx.count("nan_midrun_crashes_not_compared")
            continue
        ctx.broken.append(Broken("correspondence", "Model/Exposure.v vs implementation",
                                 f"model and implementation differ (form={eff(c)['form']}, ops={[k for k, _ in eff(c).get('ops', [])]}, earlier_runs={len(c.get('pre') or [])}, "
                                 f"impl stage={o.get('stage')}, executed={o.get('executed')})",
                                 dict(case=c, observed=o)))


def run(ctx: Ctx):
    from translator import c02 as tr

    ctx.trusted += TRUSTED
    ctx.assumptions += [
        "validity of a schedule as in DESIGN section 6: non-empty, first time non-zero, start < first time, strictly "
        "increasing (the code, and the model, only test the FIRST time against zero)",
        "times are finite rationals or NaN; generated times are dyadic so that the implementation's float arithmetic "
        "is exact (checked with Fractions for every generated case)",
        "the per-step models are arbitrary state transformers of the six buckets (seven pieces of state: Charge holds a "
        "2-D array and a particle dataframe) that may read the clock; they do not modify the clock or call "
        "detector.empty()/set_readout() themselves",
        "emptiness of a piece of state: scene without source, photon/signal/image `_array is None`, charge array all "
        "zero, charge dataframe without rows, pixel array all zero (Pixel.empty stores zeros)",
    ]
    gen = {}
    try:
        gen["Gen_C02.v"] = tr.translate(ctx.repo)
    except core.TranslationError as ex:
        ctx.broken.append(Broken("translation", "readout guards / Detector.empty table", str(ex)))
        ctx.log("translation failed:", ex)
        gen["Gen_C02.v"] = tr.FALLBACK
    # the translator reads the NORMAL FORM of every function (translator/c02_norm.py); which behaviour-preserving rewrites
    # were applied on this tree is evidence, and the normaliser itself is tested differentially (original vs normal form
    # of sample functions executed on the same inputs) on every run
    ctx.cov["normalisations_applied"] = list(tr.NORM_LOG)
    try:
        from translator import c02_norm
        st = c02_norm.selftest()
        ctx.cov["normaliser_selftest"] = dict(functions=st["functions"], runs=st["runs"], failures=len(st["failures"]))
        if st["failures"]:
            ctx.broken.append(Broken("translation", "normaliser self-test (original vs normal form differ)",
                                     "; ".join(st["failures"])[:800]))
    except Exception as ex:      # noqa: BLE001
        ctx.broken.append(Broken("translation", "normaliser self-test crashed", repr(ex)))
    proved = core.proof_leg(ctx, gen, PROP_FILE)
    if proved and not ctx.quick:
        ok, out = core.coqchk(ctx, "PyxelGen.C02_prop")
        ctx.cov["coqchk"] = "ok" if ok else "FAILED"
        if not ok:
            ctx.broken.append(Broken("theorem", "coqchk of Properties/C02.v", core.tail(out, 20)))

    cases = gen_cases(ctx, ctx.budget(260, 1500), ctx.budget(1, 3), ctx.budget(40, 300), ctx.budget(8, 80),
                      ctx.budget(60, 400))
    if not ctx.quick:
        ex = gen_sessions_exhaustive()
        ctx.cov["exhaustive_two_run_sessions"] = len(ex)
        cases += ex
        ex = gen_fill_exhaustive()
        ctx.cov["exhaustive_ways_of_filling_a_container_before_a_step_boundary"] = len(ex)
        cases += ex
    mism, viol, pairs = evaluate(ctx, cases)
    distinct = set()
    for c, o in pairs:
        n = len(intended_final(c)[0])
        if n >= 2 or c.get("history") != "fresh" or c.get("malformed") or c.get("ops") or c.get("pre"):
            distinct.add(json.dumps({k: c[k] for k in sorted(c)}, sort_keys=True))
    ctx.cov["distinct_nontrivial"] = len(distinct)
    ctx.cov["rule"] = ("distinct scenarios (constructor form + operations + mode + write plan + prior history) with >= 2 "
                       "readouts, or a non-fresh detector (junk / earlier runs of a session), or setter/replace operations, or a "
                       "malformed schedule; every run of a session counts as one scenario (the run after its earlier runs)")
    ctx.cov["traces_validated_against_impl"] = len(pairs)
    ctx.cov["disagreements_checked"] = len(mism)
    ctx.cov["exhaustive"] = False
    for c, o in pairs[:2] + [p for p in pairs if p[0].get("malformed")][:2]:
        ctx.sample(dict(case={k: c.get(k) for k in ("form", "times", "expr", "start", "nd", "ops", "history", "malformed")},
                        outcome=("ran %d steps" % len(o["obs"])) if o.get("stage") is None
                        else f"rejected at stage {o['stage']} ({o.get('exc')})",
                        first_clock=(o["obs"][0]["clock"] if o.get("obs") else None)))
    (ctx.build / "mismatches.json").write_text(json.dumps([dict(case=c, observed=o) for c, o in mism], indent=1))
    record(ctx, mism, viol)
    if ctx.broken and mism and not new_violations(ctx):
        differential(ctx, mism)
    if ctx.broken and not new_violations(ctx):
        search(ctx)


def search(ctx: Ctx):
    """A proof obligation or the correspondence broke: look harder for a concrete failing input."""
    ctx.log("searching for a concrete failing input (all defect classes x paths x histories, bigger valid stream)")
    r = ctx.rng("search")
    cases = gen_malformed_cases(r, 4)
    for h in HISTORIES:
        for nd in (False, True):
            for n in (1, 2, 3, 6, 12):
                cases.append(gen_valid_case(r, dict(history=h, nd=nd, form="list", n=n)))
    for _ in range(400):
        cases.append(gen_valid_case(r))
    cases += gen_fill_cases(r)
    if not ctx.quick:
        cases += gen_fill_exhaustive()
    cases += gen_sessions(r, 150)
    mism, viol, pairs = evaluate(ctx, cases, tag="s")
    ctx.cov["search_cases"] = len(pairs)
    record(ctx, [], viol)
    if mism and not new_violations(ctx):
        differential(ctx, mism)


def replay(ctx: Ctx, rp: dict) -> int:
    case = rp.get("case")
    if rp.get("kind") != "input" or not case:
        print(f"replay names a {rp.get('kind')} that no longer checks: {rp.get('no_longer_checks')}")
        print(rp.get("detail", ""))
        return 1
    from translator import c02 as tr
    gen = ctx.build / "gen"
    gen.mkdir(parents=True, exist_ok=True)
    try:
        text = tr.translate(ctx.repo)
    except core.TranslationError:
        text = tr.FALLBACK
    (gen / "Gen_C02.v").write_text(text)
    core.ensure_lib(ctx, targets=["theories/Model/Exposure.vo", "theories/Model/ExposureF.vo"])
    core.coqc(ctx, gen / "Gen_C02.v", [(gen, "PyxelGen")])
    if case.get("differential_step") is not None:
        i = int(case["differential_step"])
        base = {k: v for k, v in case.items() if k != "differential_step"}
        o = run_plain(ctx, [base])[0]
        print("case:", json.dumps(case))
        print("implementation now does:", json.dumps(o)[:1500])
        if "crash" in o or "driver_error" in o or o.get("stage") is not None:
            print("the run did not complete")
            return 1
        bad = bool(differential_eval(ctx, [(base, o, i)], tag="replay_dif"))
        print("step", i, "vs. the same writes alone on a fresh detector (judged in Coq):",
              "DIFFERENT -- VIOLATED" if bad else "same -- holds")
        return 1 if bad else 0
    payload = {k: v for k, v in case.items() if k not in ("malformed", "path", "view", "sweep_value", "judge_all")}
    o = core.run_driver(ctx, "c02", [payload], workers=1)[0]
    print("case:", json.dumps(case))
    print("implementation now does:", json.dumps(o)[:1500])
    if "crash" in o or "driver_error" in o:
        print("driver failed")
        return 1
    base = {k: v for k, v in case.items() if k not in ("view", "sweep_value")}
    pairs = expand(base, o)       # the run, its second clock view, every pipeline of an Observation
    ok, evals, se = core.coq_eval(ctx, "replay", emit_file(pairs, bool(case.get("float"))))
    if not ok or len(evals) != 3:
        print("case file did not evaluate:", core.tail(se, 10))
        return 1
    idx = core.parse_int_list(evals[1])
    bad = idx != []
    for i in idx[:3]:
        print("classified as:", classify(*pairs[i])[2])
    print("specification (evaluated in Coq):", "VIOLATED" if bad else "holds")
    return 1 if bad else 0


META = dict(
    level_text=(
        "Coq theorems, for schedules of any length, any rational or NaN times/start, both modes, arbitrary per-step "
        "writer programs, arbitrary prior detector state (six buckets AND the ReadoutProperties object the detector "
        "carries: sampling, start, mode, running clock), arbitrary sequences of Readout setter/replace operations, every "
        "form of `times` (list/tuple/scalar/expression/file/numpy array) and arbitrary SESSIONS of several runs on one "
        "detector object with arbitrary changes of the detector by the caller in between, over an executable model of "
        "Readout.__init__/setters/replace, ReadoutProperties.__init__, Detector.set_readout, calculate_steps, "
        "run_pipeline's loop (storing the clock into / reading it from the ReadoutProperties object), "
        "Detector.empty(reset) and the empty() of every container as a program over the pieces of state it holds (Charge: "
        "the 2-D array AND the particle dataframe): one step per time in order; the clock tuple at step i; the telescoping sum of the steps "
        "(exported for C17); bucket state at every step start; the object-level run refines the functional run; "
        "independence from the whole prior detector state; every run of every session equals the same run alone on a "
        "blank detector; EVERY invalid schedule (NaN included) is rejected before any model runs on every path and leaves "
        "the detector untouched; a caller who only installs valid schedules is never refused (numpy arrays and "
        "replace() included). The guard lists of the four validation sites (with the form of the start guard: negative "
        "`start >= t0` lets NaN through, positive `not start < t0` refuses it), whether the constructor converts numpy "
        "arrays, the table of Detector.empty, the program of every container's empty() (proved to re-initialise every "
        "piece of the container on EVERY state by running it on all 2^7 shapes of a state) and the policy of "
        "Detector.set_readout (always a new ReadoutProperties from its arguments) are regenerated from the source on "
        "every run and the theorems are re-checked against them. That the Python behaves like the model is established by correspondence (testing): real exposures "
        "(pyxel.run_mode, Exposure.run_exposure, the deprecated loop; CCD/CMOS/MKID/APD), single runs and sessions of 2-4 "
        "runs on one detector object, with observing probes first/last in every step and a writer that fills every "
        "container through every public way of filling it (charge as array / particles / dataframe and mixtures, photon "
        "2-D / cube / +=, pixel-signal-image setter / update() / in-place forms, all accepted dtypes), are compared with "
        "the object-level model started from the observed detector state, and judged against the specification, inside "
        "Coq."),
    level_note=(
        "Trusted: Coq kernel + vm_compute; translator/c02.py and the normaliser translator/c02_norm.py it reads the "
        "source through (differentially self-tested on every run); the correspondence harness and probes; exactness of float "
        "arithmetic on the generated dyadic times (checked per case); numpy expression / file readers return what the "
        "harness computes with the same numpy. Not carried: rounding of np.diff for non-dyadic times; infinite times; "
        "models that themselves tamper with the clock or call detector.empty(); 'non-zero times' is read as 'first time "
        "non-zero' (as coded and as in DESIGN). Repaired in round 2 (fix: commits): C02-F18 (numpy array as `times`, "
        "Readout.replace) and C02-NaN (NaN passed every guard); against a tree without these repairs the full theorems "
        "fail and the check reports the concrete failing inputs."),
    technique="Coq proof (induction over the time list, telescoping, refinement of the object-level run, induction over "
              "sessions) over an executable model + regenerated guard/empty/set_readout tables + in-Coq "
              "correspondence/spec evaluation of real exposure runs and multi-run sessions",
    design_ref="DESIGN.md section 6, C02",
)
