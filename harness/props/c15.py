"""C15 — charge-handling models neither create nor lose charge unaccountably."""
from __future__ import annotations

import json
import math
from fractions import Fraction

from .. import core
from ..core import Broken, Ctx, Violation

PROP_FILE = "Properties/C15.v"

TRUSTED = [
    "translator/c15.py (ipc_kernel guards + 3x3 literal, the statement of simple_collection, the mask assignment of "
    "apply_simple_full_well_capacity, both branches of apply_qe, the argument-or-characteristics selection and the "
    "guards of simple_full_well and simple_conversion, the range checks and the capacity selection of cdm and the "
    "keywords it hands to run_cdm_*, the single whole-frame convolve_fft call of compute_ipc_convolution with "
    "boundary fill = mean -> Gen_C15.src_*; fails closed on any other shape) and translator/c15_norm.py (the functions "
    "are first rewritten into one canonical shape by behaviour-preserving rules: same-package helpers inlined, "
    "single-assignment aliases and call-free intermediate results substituted unless something in between could make "
    "them stale, match -> if/elif, conditional expression <-> if/else, guard-clause form, split comparison chains, "
    "module-level numeric constants, annotations / docstrings / logging dropped)",
    "correspondence harness: harness/props/c15.py generators, harness/drivers/c15.py, float.hex() -> exact rationals; "
    "frames are transposed to per-pixel species lists (persistence) and to lines in transfer order (CDM) in Python",
    "modelled, not verified: numpy/numba elementwise float64 arithmetic is exact on the generated dyadic inputs "
    "(bit budget enforced by the generator), numba fastmath reassociation is harmless on exact values, "
    "array.astype(int) truncates toward zero, np.random.binomial returns a value in [0, n], all n for p = 1 and 0 for "
    "p = 0; np.floor_divide(position, pixel size) is the floor of the exact quotient on the generated dyadic positions; "
    "pandas keeps the rows of the particle frame (concat) - the particle frame itself is not modelled, only the "
    "sequence of add_charge_array / add_charge calls and the re-binned array",
    "astropy.convolve_fft (FFT rounding; kernel normalisation is the identity for weights summing to one): compared "
    "with relative tolerance 1e-9 on the implementation side only; tall thin frames (block-size + a few rows, up to "
    "4096 rows) are TESTED against the conservation clause on the implementation's output (window total unchanged, "
    "nothing changes outside the window, dense 3x3 reference in numpy) - only their 12-row window goes through the "
    "Coq model",
    "CDM: exp / pow are abstract range-constrained factors in the theorem and a**beta is taken as a * a**(beta-1); "
    "the real run_cdm_parallel/serial are TESTED against the theorem's conclusion (no negative pixel, line total "
    "not above the input within 1e-9 relative) for general parameters, and compared with the exact-arithmetic model "
    "(1e-9 relative) on the slice beta = 1 using the capture/release factors evaluated by numpy",
]

ASSUMPTIONS = [
    "documented ranges: frames >= 0; 0 <= QE <= 1; fwc >= 0; IPC couplings accepted by ipc_kernel's guards; persistence: "
    "delta_t >= 0, time constants > 0, densities/proportions/density map in [0,1], capacities >= 0, trapped charge >= 0, "
    "equally long parameter lists, at least one species; CDM: 0 <= beta <= 1, 0 < vg <= 1, 0 < fwc <= 1e7, "
    "0 <= t <= 10 (the wrapper's checks, read from the source), tr > 0, nt >= 0, sigma >= 0; collection: non-negative "
    "charge arrays, particles of type 'e' positioned inside the detector area; full well / QE: the model argument "
    "overrides the detector characteristics (0.0 is a given argument)",
    "QE sampling: the draw is any function with 0 <= binomial(n, q) <= n (Section hypothesis)",
    "CDM theorem: arithmetic over Q (exact), not binary64; traps empty at the start of a call",
]

# ------------------------------------------------------------------------------------------ number helpers


def fx(h) -> float:
    return float.fromhex(h) if isinstance(h, str) else float(h)


def q(x) -> str:
    return core.cq_of_float(fx(x))


def ql(xs) -> str:
    return core.clist(q(x) for x in xs)


def qll(xss) -> str:
    return core.clist(ql(xs) for xs in xss)


def qopt(x) -> str:
    return "None" if x is None else f"(Some {q(x)})"


def dy(r, hi: int, bits: int) -> float:
    """random dyadic in [0, hi] with `bits` fractional bits"""
    return r.randrange(0, hi * (1 << bits) + 1) / (1 << bits)


SHAPES = [(1, 1), (1, 2), (2, 1), (2, 2), (1, 4), (3, 1), (2, 3), (3, 3), (3, 4), (4, 4), (5, 3)]


def gen_frame(r, shape, kind=None, hi=2000, bits=2):
    rows, cols = shape
    kind = kind or r.choice(["empty", "saturated", "hot", "random", "random", "random", "uniform", "sparse"])
    if kind == "empty":
        fr = [[0.0] * cols for _ in range(rows)]
    elif kind == "saturated":
        v = float(r.choice([hi, 65536, 100000]))
        fr = [[v] * cols for _ in range(rows)]
    elif kind == "uniform":
        v = dy(r, hi, bits)
        fr = [[v] * cols for _ in range(rows)]
    elif kind == "hot":
        fr = [[0.0] * cols for _ in range(rows)]
        fr[r.randrange(rows)][r.randrange(cols)] = float(r.choice([hi, 50000, 1, 1234]))
    elif kind == "sparse":
        fr = [[dy(r, hi, bits) if r.random() < 0.3 else 0.0 for _ in range(cols)] for _ in range(rows)]
    else:
        fr = [[dy(r, hi, bits) for _ in range(cols)] for _ in range(rows)]
    return fr, kind


def flat(fr):
    return [v for row in fr for v in row]


# ------------------------------------------------------------------------------------------ generators


def gen_collect(r):
    shape = r.choice(SHAPES)
    px, k1 = gen_frame(r, shape)
    ch, k2 = gen_frame(r, shape)
    return dict(kind="collect", det=r.choice(["ccd", "cmos"]), pixel=px, charge=ch, fk=f"{k1}+{k2}")


PIXEL_SIZES = [10.0, 8.0, 5.0, 2.5, 18.0]
HELD = ["P", "P", "AP", "PA", "APA", "PP", "PAP", "A", "AA", "AAP"]


def gen_particles(r, shape, sv, sh):
    rows, cols = shape
    n = r.choice([1, 1, 2, 3, 4, 6])
    ps = []
    for _ in range(n):
        i, j = r.randrange(rows), r.randrange(cols)
        if ps and r.random() < 0.3:       # several clusters in one pixel
            i, j = ps[0][3], ps[0][4]
        ov, oh = (r.choice([0.0, 0.25, 0.5, 0.5, 0.75, 0.96875]) for _ in range(2))
        num = r.choice([float(r.randrange(1, 5000)), r.randrange(1, 4000) / 4.0, 120.0, 0.5])
        ps.append([(i + ov) * sv, (j + oh) * sh, num, i, j])
    return [q_[:3] for q_ in ps]


def gen_collectp(r, held=None):
    """charge held as particles / as array / both at collection time"""
    shape = r.choice(SHAPES)
    sv, sh = r.choice(PIXEL_SIZES), r.choice(PIXEL_SIZES)
    px, k1 = gen_frame(r, shape, kind=r.choice(["empty", "random", "uniform", "sparse"]))
    held = held or r.choice(HELD)
    ops = []
    for ch in held:
        if ch == "A":
            a, _ = gen_frame(r, shape, kind=r.choice(["random", "sparse", "hot", "uniform"]), hi=3000, bits=2)
            ops.append(dict(op="array", a=flat(a)))
        else:
            ops.append(dict(op="particles", ps=gen_particles(r, shape, sv, sh)))
    return dict(kind="collectp", det=r.choice(["ccd", "cmos"]), shape=list(shape), sv=sv, sh=sh, pixel=px, ops=ops,
                held=held, fk=k1)


FRACS = dict(frac_lo=[0.125, 0.25, 0.375], frac_half=[0.5], frac_hi=[0.625, 0.75, 0.875])


def gen_photon_frame(r, shape):
    """photon frames that are not integer valued: fractional parts below / at / above one half, faint signals"""
    rows, cols = shape
    fk = r.choice(["frac_lo", "frac_half", "frac_hi", "frac_hi", "faint", "mixed"])
    hi = r.choice([1, 3, 50, 3000])

    def one():
        if fk == "faint":
            return r.choice([0.125, 0.25, 0.5, 0.625, 0.75, 0.875, 0.96875])
        fr = r.choice(FRACS[fk]) if fk != "mixed" else r.choice([0.0, 0.25, 0.5, 0.75, 0.875])
        return r.randrange(0, hi) + fr

    return [[one() for _ in range(cols)] for _ in range(rows)], fk


def gen_q(r, samp):
    if samp:      # {0, small, one half, near one, one}
        return r.choice([0.0, 2.0 ** -6, 0.5, 1.0 - 2.0 ** -10, 1.0, 1.0, 0.9, r.random()])
    m = r.randrange(0, 9)
    return r.choice([0.0, 1.0, 0.5, 2.0 ** -6, 1.0 - 2.0 ** -8, r.randrange(0, (1 << m) + 1) / (1 << m)])


def gen_qe_frac(r):
    shape = r.choice(SHAPES)
    samp = r.random() < 0.6
    ph, fk = gen_photon_frame(r, shape)
    return dict(kind="qe", sampling=samp, q=gen_q(r, samp), photon=ph, seed=r.randrange(1 << 30),
                det=r.choice(["ccd", "cmos"]), path=r.choice(["func", "model"]), fk=fk)


def gen_qe_select(r):
    """simple_conversion: the efficiency as model argument, from the detector characteristics, or both"""
    shape = r.choice(SHAPES)
    samp = r.random() < 0.5
    if r.random() < 0.5:
        ph, fk = gen_photon_frame(r, shape)
    else:
        ph, fk = gen_frame(r, shape, hi=r.choice([5, 50, 3000]), bits=2)
    arg = r.choice([None, None, 0.0, 0.0, 1.0, 0.5, 2.0 ** -6, 1.0 - 2.0 ** -10, 0.25])
    char = r.choice([None, 0.0, 1.0, 1.0, 0.5, 0.25, 0.75])
    if r.random() < 0.08:
        arg = r.choice([-0.25, 1.5, 2.0])            # outside the documented range: must raise
    return dict(kind="qe", sampling=samp, arg=arg, char=char, photon=ph, seed=r.randrange(1 << 30),
                det=r.choice(["ccd", "cmos"]), path="select", fk=fk,
                src=("none" if arg is None and char is None else "char" if arg is None else
                     "arg" if char is None else "both"))


def gen_qe_map(r):
    """conversion_with_qe_map: one efficiency per pixel"""
    shape = r.choice(SHAPES)
    samp = r.random() < 0.5
    if r.random() < 0.6:
        ph, fk = gen_photon_frame(r, shape)
    else:
        ph, fk = gen_frame(r, shape, hi=r.choice([5, 50, 3000]), bits=2)
    qs = [gen_q(r, samp) if samp else r.choice([0.0, 1.0, 0.5, 2.0 ** -6, r.randrange(0, 257) / 256])
          for _ in range(shape[0] * shape[1])]
    bad = r.random() < 0.1
    if bad:
        qs[r.randrange(len(qs))] = r.choice([1.25, -0.25, 2.0])
    return dict(kind="qe", sampling=samp, qs=qs, photon=ph, seed=r.randrange(1 << 30), det=r.choice(["ccd", "cmos"]),
                path="map", fk=fk, map_in_range=not bad)


def gen_fullwell_sources(r):
    """both capacity sources, in every order relation: argument < / = / > characteristics, zero, absent"""
    shape = r.choice(SHAPES)
    base = float(r.choice([1, 100, 1000, 1999.75, 65536, r.randrange(1, 3000), dy(r, 2000, 2) + 0.25]))
    rel = r.choice(["arg<char", "arg=char", "arg>char", "arg>char", "arg=0", "char=0", "char=0", "arg only",
                    "char only", "neither", "arg<0"])
    other = base + float(r.choice([0.25, 1, 100, 5000, 100000]))
    arg, char = dict([
        ("arg<char", (base, other)), ("arg=char", (base, base)), ("arg>char", (other, base)),
        ("arg=0", (0.0, base)), ("char=0", (base, 0.0)), ("arg only", (base, None)), ("char only", (None, base)),
        ("neither", (None, None)), ("arg<0", (-float(r.choice([1, 0.25, 100])), r.choice([None, base]))),
    ])[rel]
    x, fk = gen_frame(r, shape, hi=r.choice([2000, 200000]))
    marks = [v for v in (arg, char) if v is not None and v >= 0]
    for v in marks * 2:      # plant values at / around both capacities
        x[r.randrange(shape[0])][r.randrange(shape[1])] = max(0.0, v + r.choice([-0.25, 0.0, 0.25, 1.0, 1000.0]))
    return dict(kind="fullwell", path="sources", arg=arg, char=char, x=x, det=r.choice(["ccd", "cmos"]), rel=rel, fk=fk)


def gen_qe(r):
    shape = r.choice(SHAPES)
    samp = r.random() < 0.55
    if samp:
        ph, fk = gen_frame(r, shape, hi=r.choice([5, 50, 3000]), bits=2)
        qv = r.choice([0.0, 1.0, 1.0, 0.5, 0.9, 0.999, r.random(), r.random()])
    else:
        ph, fk = gen_frame(r, shape, hi=r.choice([50, 3000, 1 << 20]), bits=2)
        m = r.randrange(0, 9)
        qv = r.randrange(0, (1 << m) + 1) / (1 << m)
    return dict(kind="qe", sampling=samp, q=qv, photon=ph, seed=r.randrange(1 << 30), det=r.choice(["ccd", "cmos"]),
                path=r.choice(["func", "model"]), fk=fk)


def gen_fullwell(r):
    shape = r.choice(SHAPES)
    path = r.choice(["func", "model", "model"])
    c = float(r.choice([0, 1, 100, 1000, 1999.75, 65536, r.randrange(0, 3000), dy(r, 2000, 2)]))
    if path == "model" and r.random() < 0.15:
        c = -float(r.choice([1, 0.25, 100]))
    x, fk = gen_frame(r, shape)
    if r.random() < 0.5:  # plant values at / around the capacity
        for _ in range(2):
            x[r.randrange(shape[0])][r.randrange(shape[1])] = max(0.0, abs(c) + r.choice([-0.25, 0.0, 0.25, 1.0]))
    return dict(kind="fullwell", c=c, x=x, path=path, det=r.choice(["ccd", "cmos"]),
                from_characteristics=(r.random() < 0.3 and float(c).is_integer()), fk=fk)


def gen_couplings(r, valid=True):
    m = r.choice([4, 5, 6, 8])
    one = 1 << m
    if valid:
        c = r.randrange(1, one // 4 + 1)
        dmax = min(c - 1, one // 4 - c)
        d = r.randrange(-c, dmax + 1) if dmax >= -c else -c
        if r.random() < 0.3:
            d = dmax  # the boundary c + d = 1/4 or d = c - ulp
        a = r.randrange(-2 * c, c)
        if r.random() < 0.3:
            a = 0
        return c / one, d / one, a / one
    k = r.randrange(5)
    c = r.randrange(1, one // 4 + 1)
    if k == 0:
        return c / one, c / one, 0.0                       # d == c
    if k == 1:
        return c / one, 0.0, c / one                       # a == c
    if k == 2:
        return (one // 4) / one, 1 / one, 0.0              # c + d just above 1/4
    if k == 3:
        return c / one, -(c + 1) / one, 0.0                # c + d < 0
    return 0.0, 0.0, 0.0                                   # d < c fails at zero coupling


def gen_kernel(r):
    valid = r.random() < 0.7
    c, d, a = gen_couplings(r, valid)
    return dict(kind="kernel", c=c, d=d, a=a, expect_valid=valid)


def gen_ipc(r):
    shape = r.choice(SHAPES)
    c, d, a = gen_couplings(r, True)
    fr, fk = gen_frame(r, shape, hi=r.choice([100, 2000, 60000]))
    return dict(kind="ipc", c=c, d=d, a=a, frame=fr, path=r.choice(["func", "model"]), fk=fk)


TALL_SEAMS = [256, 512, 1024, 2048, 4096]          # usual block / tile sizes


def source_size_constants(repo) -> list:
    """integer constants between 32 and 8192 that occur in the IPC source (block sizes, thresholds): frame sizes are
    planted around them too - boundary values are read from the code under test, whatever it is"""
    import ast
    try:
        tree = ast.parse((repo / "pyxel/models/charge_collection/inter_pixel_capacitance.py").read_text())
    except Exception:
        return []
    out = set()
    for n in ast.walk(tree):
        if isinstance(n, ast.Constant) and isinstance(n.value, int) and not isinstance(n.value, bool) and 32 <= n.value <= 8192:
            out.add(n.value)
    return sorted(out)


def gen_ipc_tall(r, seam, cols=None, offset=None):
    """A tall, thin frame (seam + a few rows), `base` everywhere except six consecutive rows around `seam` that carry
    deviations summing to ZERO, so that the frame mean - the fill value at the edges - is exactly `base`, everything
    outside the window equals the fill value, and the window can be cut out: the 3x3 model applied to the window alone
    is exactly what the implementation must return there; the window total must not change."""
    cols = cols or r.choice([1, 2, 3, 4])
    rows = seam + r.choice([8, 11, 14])     # the deviating rows stay at least three rows away from the frame's edges
    c, d, a = gen_couplings(r, True)
    base = float(r.choice([64, 256, 1024]))
    devs = [32.0, -16.0, 8.0, -24.0, 16.0, -16.0]
    if r.random() < 0.5:
        devs = [-v for v in devs[::-1]]
    first = seam - 3 + (offset if offset is not None else r.choice([-1, 0, 0, 1]))
    first = max(3, min(first, rows - 9))
    # columns: with 1 or 2 columns every pixel gives the same share to the fill beyond the left / right edge (the shares
    # cancel as the deviations do); with more columns the deviations sit in interior columns, which give nothing to it
    hot = [[first + i, (r.randrange(cols) if cols <= 2 else r.randrange(1, cols - 1)), dv] for i, dv in enumerate(devs)]
    w0, w1 = first - 3, first + 9
    assert 0 <= w0 and w1 <= rows and sum(dv for _, _, dv in hot) == 0
    crop = [[base] * cols for _ in range(w1 - w0)]
    for rr, cc, dv in hot:
        crop[rr - w0][cc] += dv
    return dict(kind="ipc", c=c, d=d, a=a, frame=crop, path=r.choice(["func", "model"]), fk="tall",
                tall=dict(rows=rows, cols=cols, base=base, hot=hot, w0=w0, w1=w1, seam=seam))


def tall_ipc_verdict(c, o):
    """-> None if the conservation clause holds on a tall-frame observation, else a description (exact arithmetic on the
    observed floats; 1e-9 relative, as for the FFT everywhere else)"""
    if "tall" not in c or "out" not in o or "tall" not in o:
        return None
    t = o["tall"]
    if not t.get("finite", True):
        return dict(change="non-finite")
    fin = sum(Fraction(v) for row in c["frame"] for v in row)
    fout = sum(Fraction(fx(h)) for row in o["out"] for h in row)
    scale = 1 + sum(abs(Fraction(v)) for row in c["frame"] for v in row)
    tol = Fraction(1, 10 ** 9)
    if abs(fout - fin) > tol * scale:
        return dict(change="loss" if fout < fin else "gain", window_total_in=float(fin), window_total_out=float(fout))
    if Fraction(fx(t["outside_dev"])) > tol * scale:
        return dict(change="outside the window", deviation=fx(t["outside_dev"]))
    if Fraction(fx(t["dense_dev"])) > tol * scale:
        return dict(change="redistribution", deviation=fx(t["dense_dev"]), row=t["dense_row"])
    return None


def gen_persist(r, force_species=None):
    shape = r.choice(SHAPES[:9])
    npx = shape[0] * shape[1]
    n = force_species or r.choice([1, 1, 2, 2, 3, 3, 4, 5])
    full = r.random() < 0.4
    path = r.choice(["func", "func", "model"])
    while True:
        tau_e = [r.randrange(-2, 7) for _ in range(n)]
        mbits = [r.choice([0, 1, 1, 2, 2, 3]) for _ in range(n)]
        dmap_bits = r.choice([0, 1, 2]) if full else 0
        nsteps = r.choice([1, 1, 2, 3, 4])
        dts = [r.randrange(-3, 4) for _ in range(nsteps)]
        # bit budget: every species-step adds (fraction bits of its density) + (bits of a time factor < 1)
        cost = sum(sum(mbits[i] + dmap_bits + max(0, tau_e[i] - de) for i in range(n)) for de in dts)
        if cost <= 34:
            break
    taus = [2.0 ** e for e in tau_e]
    dens = [r.randrange(0, (1 << m) + 1) / (1 << m) for m in mbits]
    if r.random() < 0.3:
        dens[r.randrange(n)] = r.choice([0.0, 1.0])
    with_caps = r.random() < 0.5
    caps = [float(r.choice([0, 1, 4, 8, 16, 64, 256, 0.5, 2.25])) for _ in range(n)] if (with_caps and not full) else None
    dmap = [r.randrange(0, (1 << dmap_bits) + 1) / (1 << dmap_bits) for _ in range(npx)] if full else None
    cmap = [float(r.choice([0, 2, 8, 32, 128, 1024])) for _ in range(npx)] if (with_caps and full) else None
    pix0, fk = gen_frame(r, shape, hi=2000, bits=0)
    if path == "func" and r.random() < 0.5:
        trap0 = [[float(r.choice([0, 0, 1, 5, 40, 300])) for _ in range(npx)] for _ in range(n)]
    else:
        trap0 = [[0.0] * npx for _ in range(n)]
    steps = []
    for de in dts:
        add, _ = gen_frame(r, shape, kind=r.choice(["empty", "random", "hot", "sparse"]), hi=1000, bits=0)
        steps.append(dict(dt=2.0 ** de, add=flat(add)))
    return dict(kind="persist", full=full, path=path, shape=list(shape), taus=taus, dens=dens, caps=caps, dmap=dmap,
                cmap=cmap, pix0=flat(pix0), trap0=trap0, steps=steps, fk=fk)


def gen_contrast(r, direction, length, width):
    """strong contrast ALONG the transfer direction: a hot pixel or a bright line (across the transfer direction)
    early in the line, faint background after it - the traps filled by the bright packet meet faint packets"""
    bg = float(r.choice([0, 1, 1, 15, 30, 100, 0.5]))
    hot = float(r.choice([1000, 50000, 60000, 90000, 5000]))
    lines = [[bg] * length for _ in range(width)]          # lines in transfer order
    pos = r.randrange(0, max(1, length // 2))
    fk = r.choice(["hot/bg", "line/bg"])
    if fk == "hot/bg":
        lines[r.randrange(width)][pos] = hot
    else:
        for ln in lines:
            ln[pos] = hot
    if r.random() < 0.3:
        lines[r.randrange(width)][r.randrange(length)] = float(r.choice([hot, 300]))
    fr = [list(row) for row in zip(*lines)] if direction == "parallel" else lines
    return fr, fk


def gen_cdm(r, exact=False, contrast=None):
    shape = r.choice(SHAPES[3:] if not exact else [(1, 1), (2, 1), (1, 3), (3, 2), (2, 3), (4, 2), (3, 3)])
    n = r.randrange(1, 6) if not exact else r.choice([1, 1, 2, 2, 3])
    direction = r.choice(["parallel", "serial"])
    # (measured: a line of one packet, an empty frame, t = 0 or all cross sections 0 leave the frame untouched -
    #  keep those rare but present)
    tlen = shape[0] if direction == "parallel" else shape[1]
    if tlen == 1 and shape != (1, 1) and r.random() < 0.85:
        direction = "serial" if direction == "parallel" else "parallel"
    fr, fk = gen_frame(r, shape, hi=r.choice([50, 2000, 60000]), bits=0)
    if fk == "empty" and r.random() < 0.7:
        fr, fk = gen_frame(r, shape, kind=r.choice(["random", "hot", "sparse"]), hi=r.choice([50, 2000, 60000]), bits=0)
    if contrast is None:
        contrast = r.random() < (0.25 if exact else 0.45)
    if contrast:
        # (exact slice: the Q model does not normalise fractions, so lines stay short)
        length, width = (r.choice([3, 4]), r.choice([1, 1, 2])) if exact else \
                        (r.choice([3, 4, 5, 6, 8, 10]), r.choice([1, 2, 3]))
        fr, fk = gen_contrast(r, direction, length, width)
        shape = (len(fr), len(fr[0]))
        if exact:
            n = min(n, 2)
    p = dict(kind="cdm", direction=direction, frame=fr, fk=fk, exact=exact)
    if exact:
        # beta = 1, g dyadic; capture / release factors at the exact ends {0, 1} or (small frames) general
        p["beta"] = 1.0
        p["fwc"] = float(2 ** r.randrange(10, 17))
        p["vg"] = 2.0 ** -r.randrange(20, 34)
        p["vth"] = 1.0e7
        general = shape[0] * shape[1] <= 3 and n <= 2 and r.random() < 0.7 and not contrast
        p["t"] = r.choice([2.0 ** -10, 2.0 ** -6, 1.0])
        gk = [2.0 ** -r.randrange(0, 4) * r.choice([1, 3]) for _ in range(n)]
        p["nt"] = [g * p["fwc"] / (2.0 * p["vg"]) for g in gk]       # g = 2 nt vg / fwc exactly
        if general:
            p["tr"] = [p["t"] * r.choice([0.5, 1.0, 4.0, 30.0]) for _ in range(n)]
            p["sigma"] = [r.choice([0.1, 1.0, 3.0]) * 2.0 * p["vg"] / (p["t"] * p["vth"] * p["fwc"]) for _ in range(n)]
        else:
            p["tr"] = [r.choice([math.inf, 1.0e-9 * p["t"]]) for _ in range(n)]
            p["sigma"] = [r.choice([0.0, 1.0e5]) for _ in range(n)]
            if not any(p["sigma"]) and r.random() < 0.8:
                p["sigma"][r.randrange(n)] = 1.0e5
        p["slice"] = "general" if general else "ends"
        p["path"] = "func"
        if direction == "parallel" and r.random() < 0.3:
            p["inj"], p["ninj"] = True, r.randrange(0, 6)
        return p
    p["beta"] = r.choice([0.0, 1.0, 0.3, 0.5, round(r.random(), 3)])
    p["fwc"] = float(r.choice([1000, 100000, 1e7, r.randrange(100, 200000)]))
    p["vg"] = r.choice([1e-10, 1e-7, 1e-12, 1.0, 10 ** r.uniform(-12, -6)])
    p["t"] = r.choice([1e-3, 1e-5, 1.0, 10.0, 1e-2, 0.0, 10 ** r.uniform(-6, 1), 10 ** r.uniform(-4, 0),
                       10 ** r.uniform(-4, 0), 10 ** r.uniform(-6, 1), 1e-3, 9.4722e-4])
    p["vth"] = 1.0e7
    p["tr"] = [10 ** r.uniform(-6, 1) for _ in range(n)]
    p["nt"] = [10 ** r.uniform(6, 12) if r.random() < 0.9 else 0.0 for _ in range(n)]
    p["sigma"] = [10 ** r.uniform(-17, -13) for _ in range(n)]
    if contrast and r.random() < 0.6:
        # heavy trapping, slow release: densities large enough for the traps to sit above the equilibrium of the
        # faint packets that follow the bright one
        p["beta"] = r.choice([0.0, 0.3, 0.3, 0.5, 1.0])
        p["fwc"] = float(r.choice([10000, 100000]))
        p["vg"] = r.choice([1.0e-10, 1.62e-10, 1.5e-10])
        p["t"] = r.choice([1.0e-3, 9.4722e-4, 1.0e-2])
        p["tr"] = [p["t"] * 10 ** r.uniform(0, 3) for _ in range(n)]
        p["nt"] = [10 ** r.uniform(10, 13) for _ in range(n)]
        p["sigma"] = [10 ** r.uniform(-15, -13) for _ in range(n)]
        p["tuned"] = True
    p["path"] = r.choice(["func", "model"])
    if p["path"] == "model":
        p["times"] = r.choice([1, 1, 2, 3])
    if direction == "parallel" and r.random() < 0.3:
        p["inj"], p["ninj"] = True, shape[0]
    k = r.random() if not contrast else 1.0
    # the zero divisors: through the wrapper only (its range checks are the property's documented ranges)
    if k < 0.05:      # the wrapper's own defaults for volume and period
        p["vg"], p["t"], p["corner"] = 0.0, 0.0, "vg=0,t=0"
    elif k < 0.08:
        p["vg"], p["corner"] = 0.0, "vg=0"
    elif k < 0.11 and p["beta"] > 0:
        p["fwc"], p["corner"] = 0.0, "fwc=0"
    elif k < 0.13:
        p["fwc"], p["beta"], p["corner"] = 0.0, 0.0, "fwc=0,beta=0"
    elif k < 0.19:    # other values the wrapper must refuse
        which = r.choice(["vg>1", "beta>1", "beta<0", "fwc>1e7", "t>10", "t<0", "vg<0"])
        p["corner"] = which
        if which == "vg>1":
            p["vg"] = 2.0
        elif which == "beta>1":
            p["beta"] = 1.5
        elif which == "beta<0":
            p["beta"] = -0.25
        elif which == "fwc>1e7":
            p["fwc"] = 1.0e8
        elif which == "t>10":
            p["t"] = 20.0
        elif which == "t<0":
            p["t"] = -1.0
        else:
            p["vg"] = -1.0e-10
    if "corner" in p:
        p["path"] = "model"
        p.setdefault("times", 1)
    return p


GENS = [("collect", gen_collect, 24, 80), ("collectp", gen_collectp, 36, 160),
        ("qe", gen_qe, 30, 140), ("qe_frac", gen_qe_frac, 30, 140), ("qe_select", gen_qe_select, 36, 140),
        ("qe_map", gen_qe_map, 24, 120),
        ("fullwell", gen_fullwell, 24, 100), ("fullwell_sources", gen_fullwell_sources, 40, 160),
        ("kernel", gen_kernel, 60, 240), ("ipc", gen_ipc, 40, 160), ("persist", gen_persist, 110, 700),
        ("cdm", gen_cdm, 70, 300), ("cdmx", lambda r: gen_cdm(r, exact=True), 40, 160)]


def corpus_cases():
    """Minimised past failures (run first): the F14 witness through both entry points."""
    w = dict(kind="persist", full=False, path="func", shape=[1, 1], taus=[1.0, 1.0], dens=[0.5, 0.25], caps=None,
             dmap=None, cmap=None, pix0=[100.0], trap0=[[0.0], [0.0]], steps=[dict(dt=1.0, add=[0.0])], fk="corpus")
    w2 = dict(w, full=True, dmap=[1.0], path="model")
    w3 = dict(w, taus=[1.0], dens=[0.5], trap0=[[0.0]], caps=[8.0])      # one species, clipped: conserved
    # the former C15-cdm-nan inputs (the wrapper's own defaults; zero capacity with beta > 0)
    n1 = dict(kind="cdm", direction="parallel", frame=[[0.0], [0.0], [11496.0], [0.0]], fk="corpus", exact=False,
              beta=0.3, fwc=100000.0, vg=0.0, t=0.0, vth=1.0e7, tr=[0.03], nt=[2.0e12], sigma=[1.0e-15], path="model",
              times=1, corner="vg=0,t=0")
    n2 = dict(n1, direction="serial", frame=[[0.0, 0.0, 11496.0, 0.0]], vg=1.0e-10, t=1.0e-3, fwc=0.0, corner="fwc=0")
    w4 = dict(w, taus=[1.0, 1.0, 4.0], dens=[0.5, 0.25, 0.125], trap0=[[0.0], [0.0], [0.0]], caps=[8.0, 4.0, 2.0],
              steps=[dict(dt=2.0, add=[0.0]), dict(dt=2.0, add=[50.0])])
    cs = [w, w2, w3, w4, n1, n2]
    d = core.VERIF / "harness" / "corpus" / "C15"
    if d.exists():
        for f in sorted(d.glob("*.json")):
            cs.append(json.loads(f.read_text()))
    return cs


def exhaustive_persist():
    """Thorough tier: every combination of density, time factor, capacity for 1 and 2 species; the pixels of one
    frame enumerate pixel value x initial trapped charge (pixels are independent)."""
    import itertools
    cases = []
    for n in (1, 2):
        pix_vals = [0.0, 100.0]
        trap_vals = list(itertools.product([0.0, 40.0], repeat=n))
        combos = [(p, t) for p in pix_vals for t in trap_vals]
        for dens in itertools.product([0.0, 0.5, 1.0], repeat=n):
            for tfs in itertools.product([0.5, 1.0, 2.0], repeat=n):
                for caps in (None, [4.0] * n):
                    cases.append(dict(kind="persist", full=False, path="func", shape=[1, len(combos)],
                                      taus=[1.0 / f for f in tfs], dens=list(dens), caps=caps, dmap=None, cmap=None,
                                      pix0=[p for p, _ in combos],
                                      trap0=[[t[k] for _, t in combos] for k in range(n)],
                                      steps=[dict(dt=1.0, add=[0.0] * len(combos))], fk="exhaustive"))
    return cases


def exhaustive_small_scope():
    """Thorough tier: small scopes enumerated completely (no random choice)."""
    import itertools
    cases = []
    # collection: every sequence of 1..3 container operations over {array, particles} on a 2x2 detector; the
    # particles of the k-th particle operation visit every pixel, at the pixel edge and at its centre
    arr = [[1.0, 2.5, 0.0, 40.0], [0.0, 0.0, 7.25, 0.0], [3.0, 0.0, 0.0, 0.5]]
    for n in (1, 2, 3):
        for held in itertools.product("AP", repeat=n):
            for off in (0.0, 0.5):
                ops, na, npart = [], 0, 0
                for ch in held:
                    if ch == "A":
                        ops.append(dict(op="array", a=arr[na]))
                        na += 1
                    else:
                        ps = [[(i + off) * 10.0, (j + off) * 8.0, float(100 * npart + 10 * i + j + 1)]
                              for i in range(2) for j in range(2)]
                        ops.append(dict(op="particles", ps=ps + [ps[npart]]))
                        npart += 1
                cases.append(dict(kind="collectp", det="ccd", shape=[2, 2], sv=10.0, sh=8.0,
                                  pixel=[[5.0, 0.0], [0.25, 1000.0]], ops=ops, held="".join(held), fk="exhaustive"))
    # full well: both capacity sources in every relation, pixels at and around both values
    x = [[0.0, 49.75, 50.0, 50.25, 99.75, 100.0, 100.25, 149.75, 150.0, 150.25, 1000.0]]
    for arg in (None, 0.0, 50.0, 100.0, 150.0, -1.0):
        for char in (None, 0.0, 50.0, 100.0, 150.0):
            rel = ("neither" if arg is None and char is None else "char only" if arg is None else "arg<0" if arg < 0
                   else "arg only" if char is None else "arg=0" if arg == 0 else "char=0" if char == 0
                   else "arg<char" if arg < char else "arg=char" if arg == char else "arg>char")
            cases.append(dict(kind="fullwell", path="sources", arg=arg, char=char, x=x, det="ccd", rel=rel,
                              fk="exhaustive"))
    # photo-conversion: efficiency source x value x sampling on a frame of fractional photon counts
    ph = [[0.0, 0.25, 0.5, 0.75, 1.0, 1.5, 2.75, 100.5]]
    for arg in (None, 0.0, 2.0 ** -6, 0.5, 1.0 - 2.0 ** -10, 1.0, 1.5, -0.25):
        for char in (None, 0.0, 0.25, 1.0):
            for samp in (False, True):
                cases.append(dict(kind="qe", sampling=samp, arg=arg, char=char, photon=ph, seed=len(cases), det="ccd",
                                  path="select", fk="exhaustive",
                                  src=("none" if arg is None and char is None else "char" if arg is None else
                                       "arg" if char is None else "both")))
    # CDM: a bright packet at every position of a line of 3..5 packets on three backgrounds, both directions,
    # one and two trap species, two parameter vectors with heavy trapping and slow release
    pars = [dict(beta=0.3, fwc=100000.0, vg=1.0e-10, t=1.0e-3, tr=[0.03, 0.3], nt=[2.0e12, 1.0e12],
                 sigma=[1.0e-15, 5.0e-16]),
            dict(beta=1.0, fwc=10000.0, vg=1.62e-10, t=9.4722e-4, tr=[0.5, 0.005], nt=[5.0e11, 4.0e12],
                 sigma=[2.0e-14, 1.0e-15])]
    for length in (3, 4, 5):
        for pos in range(length):
            for bg in (0.0, 1.0, 30.0):
                for direction in ("parallel", "serial"):
                    for nsp in (1, 2):
                        for pv in pars:
                            line = [bg] * length
                            line[pos] = 60000.0
                            fr = [[v] for v in line] if direction == "parallel" else [line]
                            cases.append(dict(kind="cdm", direction=direction, frame=fr, fk="exhaustive", exact=False,
                                              beta=pv["beta"], fwc=pv["fwc"], vg=pv["vg"], t=pv["t"], vth=1.0e7,
                                              tr=pv["tr"][:nsp], nt=pv["nt"][:nsp], sigma=pv["sigma"][:nsp],
                                              path="func"))
    return cases


def gen_cases(ctx: Ctx, salt="cases", scale=1.0):
    r = ctx.rng(salt)
    cases = list(corpus_cases()) if salt == "cases" else []
    for name, g, nq, nt in GENS:
        for _ in range(int(ctx.budget(nq, nt) * scale)):
            cases.append(g(r))
    # fixed adversarial list aimed at the named mutations
    for n in range(1, 6):
        cases.append(gen_persist(r, force_species=n))
    for held in ("P", "AP", "PA"):
        cases.append(gen_collectp(r, held=held))
    for _ in range(ctx.budget(6, 30)):
        cases.append(gen_cdm(r, contrast=True))
    seams = sorted(set(TALL_SEAMS[:4] + [v for v in source_size_constants(ctx.repo) if v >= 64]))
    for seam in (seams if not ctx.quick else seams[:6]):
        cases.append(gen_ipc_tall(r, seam))
    if not ctx.quick and salt == "cases":
        for seam in TALL_SEAMS:
            for off in (-2, -1, 0, 1, 2):
                cases.append(gen_ipc_tall(r, seam, offset=off))
    if not ctx.quick and salt == "cases":
        cases += exhaustive_persist() + exhaustive_small_scope()
    order = {"collect": 0, "collectp": 0, "qe": 1, "fullwell": 2, "kernel": 3, "ipc": 4, "persist": 5, "cdm": 6}
    cases.sort(key=lambda c: order[c["kind"]])   # contiguous kinds: a worker compiles few numba functions
    return cases


# ------------------------------------------------------------------------------------------ Coq emission


def per_pixel(trap_sm, npx):
    """species-major [[..npx..] * n] -> per pixel [[..n..] * npx]"""
    return [[trap_sm[k][j] for k in range(len(trap_sm))] for j in range(npx)]


def emit_case(c, o) -> str:
    k = c["kind"]
    bad = "raise" in o
    if k == "collect":
        return f"KCollect {ql(flat(c['pixel']))} {ql(flat(c['charge']))} {ql([] if bad else o['out'])}"
    if k == "collectp":
        ops = []
        for op in c["ops"]:
            if op["op"] == "array":
                ops.append(f"OpArray {ql(op['a'])}")
            else:
                ps = core.clist(f"{{| p_ver := {q(v)}; p_hor := {q(h)}; p_num := {q(n)} |}}" for v, h, n in op["ps"])
                ops.append(f"OpParticles {ps}")
        return (f"KCollectP {core.cnat(c['shape'][0])} {core.cnat(c['shape'][1])} {q(c['sv'])} {q(c['sh'])} "
                f"{ql(flat(c['pixel']))} {core.clist(ops)} {ql([] if bad else o['out'])}")
    if k == "qe" and c["path"] == "map":
        out = "None" if bad else f"(Some {ql(o['out'])})"
        return f"KQeMap {core.cbool(c['sampling'])} {ql(c['qs'])} {ql(flat(c['photon']))} {out}"
    if k == "qe" and c["path"] == "select":
        out = "None" if bad else f"(Some {ql(o['out'])})"
        return (f"KQeSel {core.cbool(c['sampling'])} {qopt(c['arg'])} {qopt(c['char'])} {ql(flat(c['photon']))} {out}")
    if k == "qe":
        ctor = "KQeOn" if c["sampling"] else "KQeOff"
        return f"{ctor} {q(c['q'])} {ql(flat(c['photon']))} {ql([] if bad else o['out'])}"
    if k == "fullwell" and c["path"] == "sources":
        out = "None" if bad else f"(Some ({ql(o['o1'])}, {ql(o['o2'])}))"
        return f"KFullWellS {qopt(c['arg'])} {qopt(c['char'])} {ql(flat(c['x']))} {out}"
    if k == "fullwell":
        out = "None" if bad else f"(Some ({ql(o['o1'])}, {ql(o['o2'])}))"
        return f"KFullWell {q(c['c'])} {ql(flat(c['x']))} {out}"
    if k == "kernel":
        out = "None" if bad else f"(Some {ql(o['out'])})"
        return f"KKernel {q(c['c'])} {q(c['d'])} {q(c['a'])} {out}"
    if k == "ipc":
        return f"KIpc {q(c['c'])} {q(c['d'])} {q(c['a'])} {qll(c['frame'])} {qll([] if bad else o['out'])}"
    if k == "persist":
        npx = len(c["pix0"])
        steps = []
        for i, st in enumerate(c["steps"]):
            if bad:
                pix, trap = "nil", "nil"
            else:
                so = o["steps"][i]
                pix, trap = ql(so["pix"]), qll(per_pixel(so["trap"], npx))
            steps.append(f"{{| ps_dt := {q(st['dt'])}; ps_add := {ql(st['add'])}; ps_pix := {pix}; ps_trap := {trap} |}}")
        caps = "None" if c["caps"] is None else f"(Some {ql(c['caps'])})"
        cmap = "None" if c["cmap"] is None else f"(Some {ql(c['cmap'])})"
        return ("KPersist {| pc_full := %s; pc_taus := %s; pc_dens := %s; pc_caps := %s; pc_dmap := %s; pc_cmap := %s; "
                "pc_pix0 := %s; pc_trap0 := %s; pc_steps := %s |}" % (
                    core.cbool(c["full"]), ql(c["taus"]), ql(c["dens"]), caps, ql(c["dmap"] or []), cmap,
                    ql(c["pix0"]), qll(per_pixel(c["trap0"], npx)), core.clist(steps)))
    if k == "cdm":
        par = c["direction"] == "parallel"
        fr = c["frame"]
        lin = [list(col) for col in zip(*fr)] if par else fr
        if bad and c["path"] == "model" and o.get("raise") == "ValueError":
            return f"KCdmG {q(c['vg'])} {q(c['beta'])} {q(c['fwc'])} {q(c['t'])} true"
        if bad or "nonfinite" in o:
            return f"KCdm {qll(lin)} nil"
        if c.get("exact") and all(math.isfinite(fx(v)) for v in o["gs"] + o["pcs"] + o["rs"]):
            inj = f"(Some {q(float(c['ninj']))})" if c.get("inj") else "None"
            return f"KCdmX {ql(o['gs'])} {ql(o['pcs'])} {ql(o['rs'])} {inj} {qll(o['lines_in'])} {qll(o['lines_out'])}"
        if "tbls" in o:
            inj = f"(Some {q(float(c['ninj']))})" if c.get("inj") else "None"
            tbls = core.clist(core.clist(core.clist(f"({q(f[0])}, {q(f[1])})" for f in row) for row in tbl)
                              for tbl in o["tbls"])
            return f"KCdmT {ql(o['gs'])} {ql(o['rs'])} {inj} {tbls} {qll(o['lines_in'])} {qll(o['lines_out'])}"
        return f"KCdm {qll(o['lines_in'])} {qll(o['lines_out'])}"
    raise ValueError(k)


def emit_file(pairs) -> str:
    body = ";\n  ".join(emit_case(c, o) for c, o in pairs)
    return ("From Coq Require Import QArith List.\nFrom PyxelV Require Import Model.Conservation.\n"
            "Import ListNotations.\nOpen Scope Q_scope.\n"
            f"Definition cases : list c15_case := [\n  {body}\n].\n"
            "Eval vm_compute in mismatches cases.\n"
            "Eval vm_compute in violations cases.\n")


# ------------------------------------------------------------------------------------------ classification


def fr_(h) -> Fraction:
    return Fraction(fx(h))


def classify(c, o, as_modelled: bool):
    """Python-side description of a case that Coq judged to violate the specification (signature + shrink only)."""
    k = c["kind"]
    if k == "fullwell" and c["path"] == "sources":
        return "fullwell_sources", dict(kind=k, relation=c["rel"], raised=("raise" in o)), None
    if k == "qe" and c["path"] == "map":
        return "qe_map", dict(kind=k, sampling=c["sampling"], raised=("raise" in o), map_in_range=c["map_in_range"]), None
    if k == "qe" and c["path"] == "select":
        return "qe_sources", dict(kind=k, sampling=c["sampling"], source=c["src"], raised=("raise" in o),
                                  arg_zero=(c["arg"] == 0)), None
    if k == "cdm" and "raise" in o:
        return "cdm_refused", dict(kind=k, error=o["raise"], corner=c.get("corner", "none")), None
    if "raise" in o:
        return "raises", dict(kind=k, error=o["raise"]), None
    if k == "collect":
        return "collection_exact", dict(kind=k), None
    if k == "collectp":
        return "collection_exact", dict(kind=k, held=c["held"]), None
    if k == "qe":
        return ("qe_sampling_bounds" if c["sampling"] else "qe_exact"), dict(kind=k, sampling=c["sampling"]), None
    if k == "fullwell":
        return "fullwell_min", dict(kind=k), None
    if k == "kernel":
        return "ipc_weights", dict(kind=k), None
    if k == "ipc":
        return "ipc_uniform", dict(kind=k), None
    if k == "cdm":
        if "nonfinite" in o:
            # classify by the actual parameter values, not by the generator's label (t = 0 can also be drawn
            # independently of the corner branch)
            if c.get("vg") == 0 and c.get("t") == 0:
                corner = "vg=0,t=0"
            elif c.get("fwc") == 0 and c.get("beta", 0) > 0:
                corner = "fwc=0"
            else:
                corner = c.get("corner", "none")
            return "cdm_nonfinite", dict(kind=k, corner=corner), None
        # shrink to the first line (column for parallel, row for serial) that breaks the bound
        shrunk, why = None, "bounds"
        for j, (li, lo) in enumerate(zip(o["lines_in"], o["lines_out"])):
            li, lo = [fr_(h) for h in li], [fr_(h) for h in lo]
            slack = sum(li) * Fraction(1, 10 ** 9)
            neg = any(v < 0 for v in lo)
            over = any(sum(lo[:m]) > sum(li[:m]) + slack for m in range(1, len(li) + 1))
            if neg or over:
                why = "negative" if neg else "creation"
                line = [float(v) for v in li]
                fr = [[v] for v in line] if c["direction"] == "parallel" else [line]
                shrunk = dict(c, frame=fr, fk="shrunk", times=1)
                break
        return "cdm_bounds", dict(kind=k, direction=c["direction"], change=why), shrunk
    # persistence: find the first (step, pixel) that breaks the account
    npx, n = len(c["pix0"]), len(c["taus"])
    pix = [Fraction(v) for v in c["pix0"]]
    trap = [[Fraction(v) for v in row] for row in c["trap0"]]
    for i, st in enumerate(c["steps"]):
        so = o["steps"][i]
        npix = [fr_(h) for h in so["pix"]]
        ntrap = [[fr_(h) for h in row] for row in so["trap"]]
        for j in range(npx):
            before = pix[j] + Fraction(st["add"][j]) + sum(trap[s][j] for s in range(n))
            after = npix[j] + sum(ntrap[s][j] for s in range(n))
            neg = npix[j] < 0 or any(ntrap[s][j] < 0 for s in range(n))
            if after != before or neg:
                clause = "persistence_conserves" if after != before else "persistence_nonneg"
                sig = dict(kind=k, species=("1" if n == 1 else ">=2"),
                           change=("loss" if after < before else "gain" if after > before else "none"),
                           as_modelled=as_modelled)
                shrunk = dict(kind="persist", full=c["full"], path="func", shape=[1, 1], taus=c["taus"], dens=c["dens"],
                              caps=c["caps"], dmap=None if c["dmap"] is None else [c["dmap"][j]],
                              cmap=None if c["cmap"] is None else [c["cmap"][j]],
                              pix0=[float(pix[j])], trap0=[[float(trap[s][j])] for s in range(n)],
                              steps=[dict(dt=st["dt"], add=[st["add"][j]])], fk="shrunk",
                              total_before=float(before), total_after=float(after))
                return clause, sig, shrunk
        pix, trap = npix, ntrap
    return "persistence_conserves", dict(kind=k, species=("1" if n == 1 else ">=2"), change="unknown",
                                         as_modelled=as_modelled), None


# ------------------------------------------------------------------------------------------ legs


def is_nontrivial(c) -> bool:
    k = c["kind"]
    if k == "collect":
        return any(flat(c["pixel"])) and any(flat(c["charge"]))
    if k == "collectp":
        return True
    if k == "qe":
        return any(flat(c["photon"]))
    if k == "fullwell" and c["path"] == "sources":
        cap = c["arg"] if c["arg"] is not None else c["char"]
        return cap is None or cap < 0 or any(v > cap for v in flat(c["x"]))
    if k == "fullwell":
        return any(v > c["c"] for v in flat(c["x"])) or c["c"] < 0
    if k == "kernel":
        return True
    if k == "ipc":
        return len(set(flat(c["frame"]))) > 1 or any(flat(c["frame"]))
    if k == "persist":
        return any(c["pix0"]) or any(any(s["add"]) for s in c["steps"])
    return any(v > 0.01 for v in flat(c["frame"]))


def coq_eval_limited(ctx: Ctx, files):
    """coq_eval_many with a cap on the address space of the coqc processes (a case whose exact fractions explode
    must fail - and be reported as a case file that did not evaluate - instead of exhausting the machine)."""
    import resource

    soft, hard = resource.getrlimit(resource.RLIMIT_AS)
    cap = 8 << 30
    try:
        if hard == resource.RLIM_INFINITY or cap <= hard:
            resource.setrlimit(resource.RLIMIT_AS, (cap, hard))
        return core.coq_eval_many(ctx, files, timeout=600, par=8)
    finally:
        resource.setrlimit(resource.RLIMIT_AS, (soft, hard))


def evaluate(ctx: Ctx, cases, tag="c", per=40, workers=8):
    """Run the implementation and let Coq compare / judge.  Returns (pairs, mismatch idx set, violation idx set)."""
    obs = core.run_driver(ctx, "c15", cases, workers=workers)
    pairs = []
    for c, o in zip(cases, obs):
        if "crash" in o or "driver_error" in o:
            ctx.broken.append(Broken("correspondence", "implementation driver failed", str(o)[:600], c))
            continue
        pairs.append((c, o))
    # chunks: CDM cases run long exact-arithmetic chains, so they go into smaller files (more parallelism)
    files, starts, k = {}, {}, 0
    while k < len(pairs):
        size = 10 if pairs[k][0]["kind"] == "cdm" else per
        name = f"{tag}_{len(files):03d}"
        files[name] = emit_file(pairs[k:k + size])
        starts[name] = k
        k += size
    res = coq_eval_limited(ctx, files)
    mism, viol = set(), set()
    for name in sorted(files):
        ok, evals, se = res[name]
        if not ok or len(evals) != 2:
            ctx.broken.append(Broken("correspondence", f"case file {name}.v did not evaluate", core.tail(se, 15)))
            continue
        mism |= {starts[name] + i for i in core.parse_int_list(evals[0])}
        viol |= {starts[name] + i for i in core.parse_int_list(evals[1])}
    return pairs, mism, viol


def judge(ctx: Ctx, cases, tag):
    pairs, mism, viol = evaluate(ctx, cases, tag)
    shr, meta, seen_sig = [], [], set()
    for i in sorted(viol):
        c, o = pairs[i]
        clause, sig, shrunk = classify(c, o, as_modelled=(i not in mism))
        key = clause + json.dumps(sig, sort_keys=True)
        if shrunk is not None and key in seen_sig:
            shrunk = None            # one confirmed minimal case per kind of failure is enough
        seen_sig.add(key)
        meta.append((i, clause, sig, shrunk))
        if shrunk is not None and len(shr) < 6:
            shr.append(shrunk)
    # confirm the shrunk persistence cases against implementation + specification (one batch)
    confirmed = {}
    if shr:
        sp, sm, sv = evaluate(ctx, shr, tag + "shr", workers=1)
        for j, (c, o) in enumerate(sp):
            if j in sv:
                confirmed[json.dumps(c, sort_keys=True)] = (o, j not in sm)
    for i, clause, sig, shrunk in meta:
        c, o = pairs[i]
        case, observed = c, o
        if shrunk is not None:
            key = json.dumps(shrunk, sort_keys=True)
            if key in confirmed:
                case, observed = shrunk, confirmed[key][0]
                sig = dict(sig, as_modelled=confirmed[key][1])
        what = f"{c['kind']}: {clause}"
        if clause.startswith("persistence") and shrunk is not None:
            what = (f"{'compute_persistence' if c['full'] else 'compute_simple_persistence'} with {len(c['taus'])} species: "
                    f"pixel + trapped = {shrunk['total_before']} before, {shrunk['total_after']} after")
        ctx.violations.append(Violation(clause=clause, case=case, observed=observed,
                                        expected="the conclusion of the C15 theorems (Model/Conservation.v case_violates)",
                                        what=what, sig=sig))
    # tall IPC frames: conservation of the window total / no change outside / dense 3x3 reference, judged on the
    # implementation's output (a test against the clause, not a model evaluation: 1000-row frames stay out of vm_compute;
    # the window itself IS compared with the Coq model above)
    n_tall = 0
    for i, (c, o) in enumerate(pairs):
        v = tall_ipc_verdict(c, o)
        if v is not None and n_tall < 3:
            n_tall += 1
            t = c["tall"]
            ctx.violations.append(Violation(
                clause="ipc_conserves", case=c, observed=o,
                expected="window total unchanged, frame unchanged outside the window, every pixel = 3x3 weighted sum "
                         "(C15_ipc_weights: the weights sum to 1; dense reference)",
                what=(f"ipc on a {t['rows']}x{t['cols']} frame, deviations around row {t['seam']}: {v}"),
                sig=dict(kind="ipc", tall=True, change=v["change"])))
    for i in sorted(mism)[:8]:
        c, o = pairs[i]
        ctx.broken.append(Broken("correspondence", f"Model/Conservation.v vs implementation ({c['kind']})",
                                 f"model and implementation differ on a {c['kind']} case", dict(case=c, observed=o)))
    return pairs, mism, viol


def new_violations(ctx: Ctx):
    fs = core.load_findings(ctx.prop)
    return [v for v in ctx.violations if not any(core.finding_matches(e, v) for e in fs)]


def run(ctx: Ctx):
    from translator import c15 as tr

    ctx.trusted += TRUSTED
    ctx.assumptions += ASSUMPTIONS
    gen = {}
    try:
        gen["Gen_C15.v"] = tr.translate(ctx.repo)
    except core.TranslationError as ex:
        ctx.broken.append(Broken("translation", "charge-handling sources (translator/c15.py)", str(ex)))
        ctx.log("translation failed:", ex)
        gen["Gen_C15.v"] = tr.FALLBACK
    core.proof_leg(ctx, gen, PROP_FILE)

    cases = gen_cases(ctx)
    pairs, mism, viol = judge(ctx, cases, "c")
    seen = set()
    for c, o in pairs:
        ctx.count("evaluations")
        ctx.dist("kind", c["kind"] + ("/exact" if c.get("exact") else ""))
        ctx.dist("frame", c.get("fk", "-"))
        if c["kind"] == "persist":
            ctx.dist("species", len(c["taus"]))
            ctx.dist("steps", len(c["steps"]))
            ctx.dist("entry", ("full" if c["full"] else "simple") + "/" + c["path"])
        if c["kind"] == "cdm":
            ctx.dist("cdm_species", len(c["tr"]))
            ctx.dist("cdm_direction", c["direction"])
            ctx.dist("cdm_line_length", len(c["frame"]) if c["direction"] == "parallel" else len(c["frame"][0]))
            if "lines_out" in o:
                gain = any(fx(b) > fx(a) for li, lo in zip(o["lines_in"], o["lines_out"]) for a, b in zip(li, lo))
                loss = any(fx(b) < fx(a) for li, lo in zip(o["lines_in"], o["lines_out"]) for a, b in zip(li, lo))
                ctx.dist("cdm_effect", ("capture" if loss else "") + ("+release into a later packet" if gain else "")
                         or "none")
                ctx.dist("cdm_model_tie", "beta=1 exact factors" if c.get("exact") else
                         "any beta, factor table" if "tbls" in o else "specification only")
        if c["kind"] == "ipc":
            ctx.dist("ipc_rows", str(c["tall"]["rows"]) if "tall" in c else "<= 5")
        if c["kind"] == "collectp":
            ctx.dist("charge_held", c["held"])
        if c["kind"] == "fullwell" and c["path"] == "sources":
            ctx.dist("fullwell_sources", c["rel"])
        if c["kind"] == "qe":
            ctx.dist("qe_path", c["path"] + ("/sampling" if c["sampling"] else "/product"))
            if c["path"] == "select":
                ctx.dist("qe_source", c["src"])
            elif c["path"] == "map":
                ctx.dist("qe_map", "in range" if c["map_in_range"] else "out of range")
            else:
                qv = c["q"]
                ctx.dist("qe_value", "0" if qv == 0 else "1" if qv == 1 else "1/2" if qv == 0.5 else
                         "small" if qv < 0.1 else "near 1" if qv > 0.99 else "other")
        if c["kind"] == "cdm" and "corner" in c:
            ctx.dist("cdm_corner", c["corner"] + (" -> refused" if "raise" in o else " -> ran"))
        if "raise" in o:
            ctx.dist("raised", c["kind"])
        if is_nontrivial(c):
            seen.add(json.dumps(c, sort_keys=True))
    ctx.cov["distinct_nontrivial"] = len(seen)
    ctx.cov["rule"] = ("non-trivial = the frame holds charge the model call acts on (non-zero pixel and charge for "
                       "collection, some value above the capacity for full well, non-zero pixel or collected charge for "
                       "persistence, a pixel above the 0.01 e- cut for CDM, every kernel case); distinct = distinct payload")
    ctx.cov["traces_validated_against_impl"] = len(pairs)
    ctx.cov["disagreements_checked"] = len(mism)
    ctx.cov["spec_violations_seen"] = len(viol)
    ctx.cov["cdm_general_parameters"] = "tested against the theorem's conclusion (not a model comparison)"
    for kind in ("persist", "cdm", "kernel"):
        for c, o in pairs:
            if c["kind"] == kind:
                ctx.sample(dict(case={k: v for k, v in c.items() if k not in ("frame",)}, observed=str(o)[:300]))
                break
    (ctx.build / "mismatches.json").write_text(json.dumps(
        [dict(case=pairs[i][0], observed=pairs[i][1]) for i in sorted(mism)][:50], indent=1))
    ctx.cov["exhaustive"] = (not ctx.quick)
    if not ctx.quick:
        ctx.cov["exhaustive_scope"] = ("persistence, 1 and 2 species: densities {0,1/2,1} x time factors {1/2,1,2} x "
                                       "capacities {none,4} x pixel {0,100} x initial trapped {0,40} per species; "
                                       "collection: every sequence of 1..3 container operations over {array, particles} "
                                       "x particle offset {edge, centre} on 2x2; full well: argument {none,0,50,100,150,-1} "
                                       "x characteristics {none,0,50,100,150}; photo-conversion: argument (8 values) x "
                                       "characteristics (4) x sampling; CDM: bright packet at every position of lines of "
                                       "3..5 packets x background {0,1,30} x direction x {1,2} species x 2 parameter vectors")
        ok, out = core.coqchk(ctx, "PyxelGen.C15_prop")
        ctx.cov["coqchk"] = "ok" if ok else core.tail(out, 6)
        if not ok:
            ctx.broken.append(Broken("theorem", "coqchk of Properties/C15.v", core.tail(out, 20)))
    if ctx.broken and not new_violations(ctx):
        search(ctx)


def search(ctx: Ctx):
    """A proof obligation or the correspondence broke: look harder for a concrete failing input."""
    ctx.log("searching for a concrete failing input (bigger budget, fresh stream)")
    cases = gen_cases(ctx, salt="search", scale=2.0)
    nb = len(ctx.broken)
    pairs, mism, viol = judge(ctx, cases, "s")
    del ctx.broken[nb + 5:]      # keep the list short; the first ones carry the information
    ctx.cov["search_cases"] = len(pairs)


def replay(ctx: Ctx, rp: dict) -> int:
    case = rp.get("case")
    if rp.get("kind") != "input" or not case:
        print(f"replay names a {rp.get('kind')} that no longer checks: {rp.get('no_longer_checks')}")
        print(rp.get("detail", ""))
        return 1
    from translator import c15 as tr
    core.ensure_lib(ctx, targets=core.lib_targets_of([emit_file([])]))
    case = {k: v for k, v in case.items() if k not in ("total_before", "total_after")}
    obs = core.run_driver(ctx, "c15", [case], workers=1)[0]
    print("case:", json.dumps(case)[:1500])
    print("implementation now returns:", json.dumps(obs)[:1500])
    if "crash" in obs or "driver_error" in obs:
        print("driver failed")
        return 1
    ok, evals, se = core.coq_eval(ctx, "replay", emit_file([(case, obs)]))
    if not ok:
        print("case file did not evaluate:", core.tail(se, 10))
        return 1
    bad = core.parse_int_list(evals[1]) != []
    print("model agrees with implementation (evaluated in Coq):", core.parse_int_list(evals[0]) == [])
    print("specification (evaluated in Coq):", "VIOLATED" if bad else "holds")
    tv = tall_ipc_verdict(case, obs)
    if "tall" in case:
        print("conservation clause on the tall frame (exact arithmetic on the observed output):",
              f"VIOLATED {tv}" if tv else "holds")
        bad = bad or tv is not None
    return 1 if bad else 0


META = dict(
    level_text=(
        "Coq theorems, for all inputs in the documented ranges, over exact-arithmetic (Q) per-pixel models of the code: "
        "collection adds exactly the charge; QE without sampling is exactly q*p in [0,p], with sampling (any draw with a "
        "binomial's range) an integer in [0, floor p]; full well = min and idempotent; the nine IPC weights read from "
        "the source sum to 1 for all couplings and a constant frame of any shape is a fixed point; collection adds "
        "exactly the generated charge whatever mixture of arrays and particles holds it (binning keeps every electron); "
        "the full-well capacity and the quantum efficiency are the model argument when given, else the "
        "characteristics'; persistence (model of the code repaired by the fix: commit for C15-F14) with ANY number of "
        "trap species and any parameters: pixel'+trapped' = pixel+trapped exactly, for any number of readouts, and "
        "nothing negative inside the documented ranges; CDM (_partial): per-step 0 <= captured < pixel, "
        "occupancy >= 0, pixel+occupancy non-increasing, lifted by induction over species, pixels and lines to any frame "
        "in both directions and to every PREFIX of a line, with the exp/pow factors abstract in their ranges (shown to "
        "hold for the real exp/Rpower); the wrapper's range checks, read from the source, make both divisors non-zero. "
        "The models are tied to the code by a fail-closed translator (IPC kernel and guards, collection statement, "
        "full-well mask, QE expression, value selections and guards of simple_full_well / simple_conversion / cdm) "
        "and by running the real functions on dyadic frames (exact float arithmetic) "
        "and comparing / judging the outputs inside Coq; for CDM with general parameters the implementation is only "
        "tested against the theorem's conclusion."),
    level_note=(
        "Trusted: Coq kernel + vm_compute; translator/c15.py; the correspondence harness and driver; numpy/numba float64 "
        "arithmetic being exact on the generated dyadic inputs; astropy convolve_fft within 1e-9 relative; "
        "np.random.binomial's range. CDM float rounding, libm exp/pow and the identity a**beta = a*a**(beta-1) are not "
        "carried by the theorem (1e-9 relative tolerance on the implementation side). One theorem "
        "(C15_cdm_real_factors) uses the standard real-number axioms; all others are closed under the global context."),
    technique="Coq proof over Q models + regenerated kernel/guard definitions + in-Coq correspondence/spec evaluation",
    design_ref="DESIGN.md section 6, C15; section 7 F14 (fixed), C15-cdm-nan (fixed)",
)
