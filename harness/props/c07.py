"""C07 — parallel execution yields the same results as sequential execution."""
from __future__ import annotations

import json

from translator import c07 as tr

from .. import core
from ..core import Broken, Ctx, TranslationError, Violation

PROP_FILE = "Properties/C07.v"

TRUSTED = [
    "translator/c07.py (python ast -> Gen_C07.v `src_cfg`): which rows create_params of the three modes builds, how "
    "_run_pipelines_array_to_datatree binds the tuple to the keys, which mapping it zips, whether "
    "_get_short_dimension_names_new / _get_parameter_types keep the order of the enabled steps; fails closed",
    "translator/c07_norm.py (round 2c): the normal form the rows are read in -- private helpers of the same module / class "
    "inlined, single-assignment aliases / named intermediates / module constants substituted (only when nothing they "
    "mention is re-bound, stored to or mutated in between), guard clauses, inverted tests with swapped branches, "
    "conditional expressions, loops filling a fresh container vs comprehensions vs dict(zip()), match vs if/elif, "
    "try/else-return; annotations, docstrings, asserts, imports and logging are not read.  That these rewrites preserve "
    "behaviour is believed (self-test `python -m translator.c07_norm`: 22 equivalent / look-alike pairs)",
    "translator/c07.py, pickle rows (`src_pickle_hooks`): for every class with __getstate__/__setstate__ under "
    "pyxel/{pipelines,detectors,data_structure,outputs,exposure,observation,calibration} how each attribute __init__ sets "
    "comes back (AWhole / ARecreated / ARebuilt kept / AMissing), whether the class has a __deepcopy__ of its own; that a "
    "kept constructor keyword of a rebuilt ModelFunction carries the value it was built with is believed, not checked; "
    "ModelGroup.__iter__/run row; __reduce__ & co fail closed",
    "Python's default pickling and copy.deepcopy restore an object without hooks attribute by attribute, and deepcopy "
    "goes through __getstate__/__setstate__ of a class without __deepcopy__ (modelled, not verified); "
    "dask.multiprocessing.get driven by an in-process executor serialises and unpickles every task exactly as with "
    "worker processes (the same cloudpickle dumps / loads calls; real 2-process pools are sampled too)",
    "correspondence harness: harness/props/c07.py generators, harness/drivers/c07.py, probes/verif_probes_c07.py "
    "(base-16 code of the received arguments in the pixel bucket, execution trace and detector/readout settings in two "
    "more columns; decoded by the driver)",
    "modelled, not verified: pandas MultiIndex.from_product/to_xarray (levels sorted, cell = its own label, repeated "
    "value refused), Python zip, xarray.apply_ufunc + dask (every chunk computed once and placed by index -- sampled "
    "under 6 scheduler configurations with data-dependent delays), ThreadPoolExecutor.map order, numpy's global "
    "RandomState as an abstract generator (seed / draw / get_state / set_state)",
]

SCHEDS = [dict(scheduler="synchronous"), dict(scheduler="threads", workers=1), dict(scheduler="threads", workers=2),
          dict(scheduler="threads", workers=4), dict(scheduler="threads", workers=16)]
PROC = dict(scheduler="processes", workers=2)
# what a worker PROCESS receives, without starting processes: dask's process-pool scheduler (every task serialised with
# cloudpickle and unpickled where it executes) driven by an in-process executor; and the caller's detector + pipeline
# sent through pickle / cloudpickle before the parallel run.  Regular members of the scheduler dimension.
PICKLED = [dict(scheduler="processes", pool="sync"), dict(scheduler="processes", pool="threads", workers=4),
           dict(scheduler="synchronous", pre="pickle"), dict(scheduler="threads", workers=2, pre="cloudpickle")]
ALL_SCHEDS = SCHEDS + PICKLED


def sname(s):
    w = str(s["workers"]) if s.get("workers") else ""
    if s.get("pool"):
        return "pickled-" + s["pool"] + w
    return s["scheduler"] + w + ("+" + s["pre"] if s.get("pre") else "")


def is_pickled(s) -> bool:
    return s["scheduler"] == "processes" or bool(s.get("pre"))


# ------------------------------------------------------------------------------------------ cases


def digits(v):
    return len(v) + 2 if isinstance(v, list) else 1


def gen_values(r, vec, n, dup=False, sorted_=False):
    seen, out = set(), []
    while len(out) < n:
        v = [r.randrange(0, 13) for _ in range(vec)] if vec else r.randrange(0, 13)
        key = json.dumps(v)
        if key in seen:
            continue
        seen.add(key)
        out.append(v)
    if sorted_:
        out.sort()
    if dup and out:
        out.insert(r.randrange(len(out) + 1), out[r.randrange(len(out))])
    return out


def gen_enc(r, mode, nparams, flavour=""):
    vecs = []
    budget = 12
    for k in range(nparams):
        vec = r.choice([0, 0, 0, 2, 3]) if budget >= 5 + (nparams - k - 1) else 0
        if mode == "sequential" and flavour != "vec":
            vec = 0
        vecs.append(vec)
        budget -= (vec + 2) if vec else 1
    case = dict(kind="enc", mode=mode, sleep_scale=r.choice([0.0, 0.03, 0.05, 0.08]), sleep_mult=r.randrange(1, 5))
    if mode == "custom":
        ps = []
        one_at = r.randrange(nparams)
        for k, vec in enumerate(vecs):
            w = None if not vec else vec
            if flavour == "one_list" and (k == one_at or r.random() < 0.3):
                w = 1
            ps.append(dict(w=w))
        ncols = sum(1 if p["w"] is None else p["w"] for p in ps)
        nrows = r.randrange(1, 6)
        rows, seen = [], set()
        while len(rows) < nrows:
            row = [r.randrange(0, 13) for _ in range(ncols)]
            if tuple(row) not in seen:
                seen.add(tuple(row))
                rows.append(row)
        case.update(params=ps, table=rows,
                    defaults=[(0 if p["w"] is None else [0] * p["w"]) for p in ps])
        first = rows[0]
        case["first_sum"] = sum(first)
    else:
        ps = []
        dup_at = r.randrange(nparams)
        for k, vec in enumerate(vecs):
            n = r.randrange(1, 5) if nparams > 1 else r.randrange(2, 6)
            ps.append(dict(values=gen_values(r, vec, n, dup=(flavour == "dup" and (k == dup_at or r.random() < 0.3)),
                                             sorted_=(r.random() < 0.3))))
        case.update(params=ps, defaults=[([r.randrange(0, 13) for _ in range(v)] if v else r.randrange(0, 13))
                                         for v in vecs])
    if r.random() < 0.4 and case["sleep_scale"]:
        # the FIRST run (of the sequential order) sleeps longest
        if mode == "custom":
            case["slow_sum"] = case["first_sum"]
        elif mode == "product":
            case["slow_sum"] = sum(sum(p["values"][0]) if isinstance(p["values"][0], list) else p["values"][0]
                                   for p in ps)
    case.pop("first_sum", None)
    return case


def partitions(n):
    """all set partitions of positions 0..n-1 as restricted-growth strings: p[k] = group of parameter k"""
    out = []

    def rec(prefix, mx):
        if len(prefix) == n:
            out.append(list(prefix))
            return
        for g in range(mx + 2):
            rec(prefix + [g], max(mx, g))
    rec([0], 0)
    return out


def gen_encs(r, mode, pattern, vector="mix", share=True, decoys=None):
    """parameters whose SHORT names collide according to `pattern` (same group = same argument name, in different
    model instances); every parameter's received value is recorded separately by the probe instance that owns it"""
    n = len(pattern)
    layout, used = [], set()
    for k, g in enumerate(pattern):
        arg = "abcd"[g]
        cands = [j for j in range(k + 1) if (j, arg) not in used]
        j = k if (not share or r.random() < 0.6) else r.choice(cands)
        used.add((j, arg))
        layout.append([j, arg])
    # model names are labels: rename them at random so that the keys are NOT listed in alphabetical order
    ren = list(range(n))
    r.shuffle(ren)
    layout = [[ren[j], arg] for j, arg in layout]
    vecs = []
    for k in range(n):
        if vector == "none":
            vecs.append(0)
        elif vector == "all":
            vecs.append(r.choice([1, 2, 3]))
        else:
            vecs.append(r.choice([0, 0, 0, 1, 2, 3]))
    if mode == "sequential" and any(vecs):
        # sequential mode merges the runs along 'id': vector parameters must all have one length
        w = max(vecs)
        vecs = [w if v else 0 for v in vecs]
    # sometimes one parameter with a name of its own is a setting of the DETECTOR (key 'detector.environment.
    # temperature', values 1..12) instead of a model argument: same binding, another kind of key
    tslot = None
    singles = [k for k, g in enumerate(pattern) if pattern.count(g) == 1]
    if n >= 2 and singles and r.random() < 0.3:
        tslot = r.choice(singles)
        vecs[tslot] = 0
        layout[tslot] = [layout[tslot][0], "T"]
    case = dict(kind="encs", mode=mode, layout=layout, pattern="".join(map(str, pattern)),
                sleep_scale=r.choice([0.0, 0.02, 0.04]), sleep_mult=r.randrange(1, 5))
    if mode == "custom":
        ps = [dict(w=(None if not v else v)) for v in vecs]
        ncols = sum(1 if p["w"] is None else p["w"] for p in ps)
        rows, seen = [], set()
        for _ in range(r.randrange(1, 5)):
            row = [r.randrange(0, 13) for _ in range(ncols)]
            if tuple(row) not in seen:
                seen.add(tuple(row))
                rows.append(row)
        if tslot is not None:
            col = sum(1 if p["w"] is None else p["w"] for p in ps[:tslot])
            for row in rows:
                row[col] = 1 + row[col] % 12
        case.update(params=ps, table=rows, defaults=[(0 if p["w"] is None else [0] * p["w"]) for p in ps])
        if tslot is not None:
            case["defaults"][tslot] = 5
    else:
        cap = {1: 4, 2: 3, 3: 3, 4: 2}[n]
        ps = [dict(values=gen_values(r, v, r.randrange(1, cap + 1), sorted_=(r.random() < 0.3),
                                     dup=(mode == "product" and r.random() < 0.2))) for v in vecs]
        if all(len(p["values"]) == 1 for p in ps):
            k = r.randrange(n)
            ps[k] = dict(values=gen_values(r, vecs[k], 2))
        case.update(params=ps, defaults=[([r.randrange(0, 13) for _ in range(v)] if v else r.randrange(0, 13))
                                         for v in vecs])
        if tslot is not None:
            vals = sorted({1 + v % 12 for v in ps[tslot]["values"]}, key=lambda v: r.random())
            ps[tslot] = dict(values=vals)
            case["defaults"][tslot] = 1 + case["defaults"][tslot] % 12
    if tslot is not None:
        case["detector_key"] = tslot
    if decoys is not None:
        # the pipeline in execution order [ident, enabled, group]: the instances that own slots (shuffled), `decoys`
        # instances that are SWITCHED OFF (any group, any position) and sometimes one more that is switched on
        owners = sorted({j for j, _ in layout})
        r.shuffle(owners)
        plan = [[j, True, 1] for j in owners]
        free = [j for j in range(12) if j not in owners]
        r.shuffle(free)
        for _ in range(decoys):
            plan.insert(r.randrange(len(plan) + 1), [free.pop(), False, r.choice([0, 1, 1, 2])])
        if r.random() < 0.35:
            plan.insert(r.randrange(len(plan) + 1), [free.pop(), True, r.choice([0, 1, 2])])
        plan.sort(key=lambda e: e[2])
        case["pipe"] = plan
        if r.random() < 0.7:
            # settings of the detector's sub-objects, read back by every run: pre-amplification, full well, ADC bits,
            # thickness, pixel sizes (small integers)
            # ... and of the readout handed to every task: time of the only step, destructive or not
            case["det"] = [r.randrange(1, 13), r.randrange(1, 13), r.randrange(8, 13), r.randrange(1, 13),
                           r.randrange(1, 13), r.randrange(1, 13), r.randrange(1, 13), r.randrange(0, 2)]
    return case


def pick_scheds(r, k, pickled=0):
    """k of the in-memory schedulers + `pickled` of the pickling ones"""
    s = [SCHEDS[i] for i in sorted(r.sample(range(len(SCHEDS)), k))]
    s += [PICKLED[i] for i in sorted(r.sample(range(len(PICKLED)), pickled))]
    return s


def corpus_cases():
    import pathlib

    d = pathlib.Path(__file__).resolve().parent.parent / "corpus" / "C07"
    out = []
    for f in sorted(d.glob("*.json")):
        c = json.loads(f.read_text())
        c.setdefault("scheds", [SCHEDS[0]])
        c["corpus"] = f.stem
        out.append(c)
    return out


def gen_cases(ctx: Ctx):
    r = ctx.rng("cases")
    # the formerly failing inputs first (defects repaired in round 2; DESIGN section 7) + minimised seeded misses
    cases = corpus_cases()
    ncorpus = len(cases)
    n_enc = ctx.budget(44, 220)
    plan = []
    for mode in ("product", "custom", "sequential"):
        for npar in (1, 2, 3):
            plan.append((mode, npar, ""))
    plan += [("product", 2, "dup"), ("custom", 2, "one_list"), ("sequential", 1, "vec"), ("product", 3, "dup"),
             ("custom", 3, "one_list"), ("product", 1, "dup")]
    k = 0
    while len(cases) < ncorpus + n_enc:
        mode, npar, fl = plan[k % len(plan)] if k < 2 * len(plan) else (
            r.choice(["product", "product", "custom", "sequential"]), r.randrange(1, 4), r.choice(["", "", "dup", "one_list"]))
        k += 1
        c = gen_enc(r, mode, npar, fl)
        pk = 1 if k % 2 == 0 else 0          # every second case: one pickling member in place of an in-memory one
        c["scheds"] = pick_scheds(r, (2 if ctx.quick else 3) - pk, pickled=pk)
        c["outputs"] = (k % 3 == 0)
        cases.append(c)
    # parameters whose short names collide (dimension names '<model>.<argument>'): every position pattern
    # (set partition of the parameter positions) for 1..4 parameters; modes rotate with the seed in the quick tier
    pats = [p for n in (1, 2, 3, 4) for p in partitions(n)]
    modes3 = ["product", "custom", "sequential"]
    rot = r.randrange(3)
    for i, pat in enumerate(pats):
        collide = len(set(pat)) < len(pat)
        for mi, mode in enumerate(modes3):
            if ctx.quick and not (mi == (i + rot) % 3 or (collide and len(pat) == 3 and mi == (i + rot + 1) % 3)):
                continue
            for rep in range(1 if ctx.quick else 2):
                # most pipelines also hold models that are SWITCHED OFF (and an execution trace): what a worker receives
                # must not execute them -- under the in-memory schedulers and under the pickling ones
                c = gen_encs(r, mode, pat, vector=("mix" if rep == 0 else "all"),
                             decoys=(None if (i + mi + rep) % 5 == 4 else r.choice([0, 1, 1, 2])))
                c["scheds"] = pick_scheds(r, 1 if ctx.quick else 2, pickled=(1 if ctx.quick else 2))
                c["outputs"] = ((i + mi + rep) % 3 == 0)
                cases.append(c)
    if not ctx.quick:
        # exhaustive small scope: every shape of a product space with 1..3 parameters of 1..3 values, files on
        # (file index = row-major rank of the cell for every small shape), threaded
        import itertools
        for n in (1, 2, 3):
            for shape in itertools.product((1, 2, 3), repeat=n):
                ps = [dict(values=gen_values(r, 0, k)) for k in shape]
                cases.append(dict(kind="enc", mode="product", params=ps, defaults=[0] * n, outputs=True,
                                  sleep_scale=0.02, sleep_mult=r.randrange(1, 5),
                                  scheds=[dict(scheduler="threads", workers=4)]))
    if not ctx.quick:
        # exhaustive small scope: 1..3 further probe instances next to the one that owns the swept argument, EVERY
        # assignment of switched on / off, every pickling member of the scheduler dimension
        import itertools
        for extra in (1, 2, 3):
            for mask in itertools.product((False, True), repeat=extra):
                c = gen_encs(r, "product", [0], vector="none", decoys=0)
                own = c["layout"][0][0]
                plan = [[own, True, 1]] + [[own + 1 + k, en, r.choice([0, 1, 2])] for k, en in enumerate(mask)]
                r.shuffle(plan)
                plan.sort(key=lambda e: e[2])
                c["pipe"] = plan
                c["scheds"] = [SCHEDS[0], SCHEDS[3]] + PICKLED
                c["outputs"] = (extra == 2)
                cases.append(c)
    # process pool (slow to start): a few cases
    for j in range(ctx.budget(1, 6)):
        c = gen_enc(r, ["product", "custom"][j % 2], 2, "")
        c["scheds"] = [PROC]
        c["outputs"] = (j % 2 == 0)
        cases.append(c)
    # ... every one of these with a model that is switched off: a real worker process must not execute it
    for j in range(ctx.budget(3, 9)):
        c = gen_encs(r, modes3[(j + rot) % 3], r.choice([q for q in pats if len(q) == (3 if j % 2 == 0 else 2)]),
                     decoys=1 + j % 2)
        c["scheds"] = [PROC]
        c["outputs"] = (j % 2 == 1)
        cases.append(c)
    # seeded-stochastic pipelines: forced witness schedule and natural interleavings
    for j in range(ctx.budget(3, 8)):
        cases.append(dict(kind="draw", mode="product", params=[dict(values=[1, 2])], pipeline_seed=r.randrange(1, 10 ** 6),
                          sync=True, first=[1, 2][j % 2], ndraw=1 + j % 2,
                          scheds=[dict(scheduler="threads", workers=[2, 4, 16][j % 3]), SCHEDS[0]]))
    for j in range(ctx.budget(2, 6)):
        cases.append(dict(kind="draw", mode=["product", "sequential"][j % 2],
                          params=[dict(values=gen_values(r, 0, r.randrange(3, 7)))],
                          pipeline_seed=r.randrange(1, 10 ** 6), sync=False, ndraw=2, pause=0.002,
                          scheds=[dict(scheduler="threads", workers=1), dict(scheduler="threads", workers=4), SCHEDS[0]]
                          + ([PROC] if j == 0 else [])))
    # calibration: islands and batch fitness evaluation
    for j in range(ctx.budget(3, 10)):
        cases.append(dict(kind="islands", n=r.randrange(3, 7), pop=r.randrange(5, 8), seed=r.randrange(1, 10 ** 6),
                          scale=0.004))
    # ... with the dask batch fitness evaluator creating the populations, under several schedulers / worker counts,
    # followed by one evolution of every island (DaskIsland): seeds, first fitness and champions per island
    for j in range(ctx.budget(3, 10)):
        cases.append(dict(kind="islands", n=r.randrange(2, 5), pop=r.randrange(7, 10), seed=r.randrange(1, 10 ** 6),
                          scale=0.002, bfe=True, chunk=r.choice([None, 1, 2, 3]), evolve=True, generations=2,
                          scheds=[SCHEDS[0], dict(scheduler="threads", workers=[2, 4, 16][j % 3])]
                          + ([PICKLED[j % 2]] if j % 3 != 2 else [])))
    for j in range(ctx.budget(3, 10)):
        cases.append(dict(kind="bfe", n=r.randrange(3, 12), seed=r.randrange(1, 10 ** 6),
                          chunk=r.choice([None, 1, 2, 3, 5]), scale=0.003, scheds=pick_scheds(r, 2) + [PICKLED[j % 2]]))
    # pyxel's own calibration problem on a pipeline with models that are switched off: candidates evaluated one by one
    # here vs. through DaskBFE (every scheduler kind, the pickling ones always among them), and islands evolved by
    # DaskIsland vs. the in-thread reference evolution
    for j in range(ctx.budget(4, 12)):
        cases.append(dict(kind="bfe", n=r.randrange(3, 9), seed=r.randrange(1, 10 ** 6), chunk=r.choice([None, 1, 2, 3]),
                          fit=gen_fit(r), scheds=pick_scheds(r, 1) + [PICKLED[j % 2]]))
    for j in range(ctx.budget(2, 6)):
        cases.append(dict(kind="islands", n=r.randrange(2, 4), pop=r.randrange(7, 9), seed=r.randrange(1, 10 ** 6),
                          bfe=(j % 2 == 0), chunk=r.choice([None, 2]), evolve=True, generations=1, fit=gen_fit(r),
                          scheds=[SCHEDS[0], PICKLED[j % 2]]))
    return cases


def gen_fit(r):
    rows, cols = r.choice([(1, 2), (2, 2), (2, 3)])
    return dict(pattern=[[r.randrange(1, 9) for _ in range(cols)] for _ in range(rows)],
                target=[[r.randrange(0, 40) for _ in range(cols)] for _ in range(rows)],
                off=[r.randrange(0, 3) for _ in range(r.choice([1, 1, 2]))])


# ------------------------------------------------------------------------------------------ Coq emission


def cpval(v) -> str:
    if v is None:
        return "(PS (-777))"
    if isinstance(v, list):
        return "(PV " + core.clist(core.cz(int(x)) for x in v) + ")"
    return f"(PS {core.cz(int(v))})"


def cparams(vs) -> str:
    if vs is None:
        return "[PS (-777)%Z]"
    return core.clist(cpval(v) for v in vs)


def ccell(c) -> str:
    return f"(mkCell {cparams(c['label'])} {cparams(c['data'])} {core.cz(int(c['mem']))})"


def cmode(case) -> str:
    if case["kind"] not in ("enc", "encs"):
        return "(Product nil)"
    if case["mode"] == "product":
        return "(Product " + core.clist(core.clist(cpval(v) for v in p["values"]) for p in case["params"]) + ")"
    if case["mode"] == "sequential":
        return ("(Sequential " + cparams(case["defaults"]) + " "
                + core.clist(core.clist(cpval(v) for v in p["values"]) for p in case["params"]) + ")")
    ps = core.clist("CScalar" if p["w"] is None else f"(CVec {p['w']})" for p in case["params"])
    tb = core.clist(core.clist(core.cz(int(x)) for x in row) for row in case["table"])
    return f"(Custom {ps} {tb})"


def expand(case, obs):
    """one driver result -> list of (sub-case description, Coq record fields)"""
    out = []
    if case["kind"] == "islands":
        def cells(lst):
            if isinstance(lst, dict):
                return None
            return [dict(label=[k], data=[e["seed"], e["f0"]] + ([e["champ_f"], e["champ_x"]] if "champ_f" in e else []),
                         mem=0) for k, e in enumerate(lst)]
        s = cells(obs["seq"])
        scheds = case.get("scheds") or [None]
        for sched, par in zip(scheds, obs.get("pars") or [obs["par"]]):
            p = cells(par)
            out.append((dict(case=case, sched="thread-pool" + ("+" + sname(sched) if sched else "")), s,
                        None if p is None else ([len(p)], p), None, dict(seq=obs["seq"], par=par)))
        return out
    if case["kind"] == "bfe":
        s = [dict(label=[k], data=[v], mem=0) for k, v in enumerate(obs["seq"])]
        for sched, d in zip(case["scheds"], obs["dask"]):
            p = None if "raised" in d else [dict(label=[k], data=[v], mem=0) for k, v in enumerate(d["values"])]
            out.append((dict(case=case, sched=sname(sched)), s, None if p is None else ([len(p)], p), None, d))
        return out
    seq = obs["seq"]
    s = None if "raised" in seq else list(seq["cells"])
    if s is not None and case["kind"] == "draw":
        s = s + [dict(label=[-1], data=[seq["leak"]], mem=0)]
    for sched, d in zip(case["scheds"], obs["dask"]):
        if "raised" in d:
            out.append((dict(case=case, sched=sname(sched), pickled=is_pickled(sched)), s, None, None, d))
            continue
        cells = list(d["cells"])
        if case["kind"] == "draw":
            cells = cells + [dict(label=[-1], data=[d["leak"]], mem=0)]
        files = None
        if "files" in d:
            files = [(f["index"], f["data"]) for f in d["files"]]
        out.append((dict(case=case, sched=sname(sched), pickled=is_pickled(sched)), s, (d["shape"], cells), files, d))
    return out


def emit_case(sub) -> str:
    desc, s, p, files, _ = sub
    case = desc["case"]
    seq = "None" if s is None else "(Some " + core.clist(ccell(c) for c in s) + ")"
    if p is None:
        dk = "None"
    else:
        dk = "(Some (" + core.clist(core.cnat(n) for n in p[0]) + ", " + core.clist(ccell(c) for c in p[1]) + "))"
    fl = "None" if files is None else "(Some " + core.clist(
        f"({core.cnat(i) if 0 <= i < 5000 else '4999%nat'}, {cparams(d)})" for i, d in files) + ")"
    return (f"(mkCase {cmode(case)} {core.cbool(case['kind'] in ('enc', 'encs'))} {seq} {dk} {fl} {cpipe(desc)})")


def cpipe(desc) -> str:
    case = desc["case"]
    if case["kind"] != "encs" or not case.get("pipe"):
        return "None"
    ms = core.clist(f"(mkMI {core.cz(int(j))} {core.cbool(bool(en))})" for j, en, _ in case["pipe"])
    st = "None" if not case.get("det") else "(Some " + core.clist(core.cz(int(x)) for x in case["det"]) + ")"
    return f"(Some ({ms}, {core.cbool(bool(desc.get('pickled')))}, {st}))"


def emit_file(subs) -> str:
    body = ";\n  ".join(emit_case(s) for s in subs)
    return ("From Coq Require Import ZArith List.\nFrom PyxelV Require Import Model.Parallel.\n"
            "From PyxelGen Require Import Gen_C07.\nImport ListNotations.\n"
            f"Definition cases : list par_case := [\n  {body}\n].\n"
            "Eval vm_compute in mismatches_cfg src_cfg src_pickle_hooks cases.\nEval vm_compute in violations cases.\n")


# ------------------------------------------------------------------------------------------ classification


def classify(sub, is_mismatch):
    desc, s, p, files, raw = sub
    case, sched = desc["case"], desc["sched"]
    kind = case["kind"]
    extra = dict(problem="model_fitting") if case.get("fit") else {}
    if kind == "islands":
        if case.get("evolve"):
            return "calibration_outcome", dict(clause="calibration_outcome", scheduler=sched, **extra)
        return "island_order", dict(clause="island_order")
    if kind == "bfe":
        return "bfe", dict(clause="bfe", scheduler=sched, **extra)
    if kind == "draw":
        wk = ">1" if sched.startswith("threads") and sched != "threads1" else "1"
        return "seeded_threads", dict(clause="seeded_threads", scheduler=sched.rstrip("0123456789"), workers=wk)
    mode, npar = case["mode"], len(case["params"])
    cls = "other"
    if not is_mismatch:
        # the faithful model of the unchanged code predicts exactly this behaviour: one of the refuted statements
        if mode == "sequential" and npar >= 2:
            cls = "zip_truncates"
        elif mode == "product" and p is None and any(
                len({json.dumps(v) for v in q["values"]}) < len(q["values"]) for q in case["params"]):
            cls = "duplicate_values"
        elif mode == "custom" and any(q["w"] == 1 for q in case["params"]):
            cls = "one_element_list"
    sig = dict(clause="params_agree", mode=mode, **{"class": cls})
    if cls == "other":
        sig["scheduler"] = sched
        if desc.get("pickled"):
            sig["tasks_pickled"] = True
        if case.get("pipe"):
            sig["disabled_models"] = sum(1 for _, en, _ in case["pipe"] if not en)
        if kind == "encs":
            sig["short_names"] = "collide" if len(set(case["pattern"])) < len(case["pattern"]) else "distinct"
        if files is not None and s is not None and p is not None:
            sig["files"] = True
    return "params_agree", sig


def to_violation(sub, is_mismatch) -> Violation:
    desc, s, p, files, raw = sub
    clause, sig = classify(sub, is_mismatch)
    case = dict(desc["case"])
    return Violation(clause=clause, case=dict(case=case, sched=desc["sched"]),
                     observed=dict(parallel=(raw if not isinstance(raw, dict) or "cells" not in raw else
                                             dict(shape=raw["shape"], cells=raw["cells"][:12], files=raw.get("files"))),
                                   sequential=None if s is None else s[:12]),
                     expected="under every parameter label the parallel result holds the data of the sequential "
                              "result; same set of labels; files 0..n-1 one per cell in row-major order",
                     what=f"{case['kind']} {case.get('mode', '')} under {desc['sched']}: {sig}", sig=sig)


# ------------------------------------------------------------------------------------------ legs


def correspondence(ctx: Ctx, cases, tag="c"):
    # neighbours in the case list cost alike (process pools, islands): deal them out over the driver chunks
    nchunk = 24
    order = sorted(range(len(cases)), key=lambda i: (i % nchunk, i))
    res = core.run_driver(ctx, "c07", [cases[i] for i in order], workers=8, chunk=max(1, (len(cases) + nchunk - 1) // nchunk),
                          timeout=1500)
    obs = [None] * len(cases)
    for i, o in zip(order, res):
        obs[i] = o
    subs = []
    for c, o in zip(cases, obs):
        if "crash" in o or "driver_error" in o:
            ctx.broken.append(Broken("correspondence", "implementation driver failed", str(o)[:600], c))
            continue
        subs += expand(c, o)
    per = 40
    files = {f"{tag}_{k // per:03d}": emit_file(subs[k:k + per]) for k in range(0, len(subs), per)}
    res = core.coq_eval_many(ctx, files, timeout=900, par=6)
    mism, viol = [], []
    for k, name in enumerate(sorted(files)):
        ok, evals, se = res[name]
        chunk = subs[k * per:(k + 1) * per]
        if not ok or len(evals) != 2:
            ctx.broken.append(Broken("correspondence", f"case file {name}.v did not evaluate", core.tail(se, 15)))
            continue
        mi = set(core.parse_int_list(evals[0]))
        mism += [chunk[i] for i in sorted(mi)]
        viol += [(chunk[i], i in mi) for i in core.parse_int_list(evals[1])]
    return subs, mism, viol


def ncell_of(p):
    return len(p[1]) if p else 0


def account(ctx: Ctx, subs):
    seen = set()
    for desc, s, p, files, raw in subs:
        c = desc["case"]
        ctx.count("evaluations", (len(s) if s else 0) + (len(p[1]) if p else 0))
        ctx.dist("kind", c["kind"])
        ctx.dist("scheduler", desc["sched"])
        if c["kind"] == "encs":
            ctx.dist("short-name pattern", f"{len(c['pattern'])}:{c['pattern']}")
            ctx.dist("collision/mode", f"{'collide' if len(set(c['pattern'])) < len(c['pattern']) else 'distinct'}/{c['mode']}")
        if c["kind"] in ("enc", "encs"):
            ps = c["params"]
            if c["mode"] == "custom":
                ctx.dist("custom widths", "/".join("s" if q["w"] is None else str(q["w"]) for q in ps))
                ctx.dist("one-element list declared", any(q["w"] == 1 for q in ps))
            else:
                ctx.dist("vector-valued parameters", sum(1 for q in ps if q["values"] and isinstance(q["values"][0], list)))
                ctx.dist("a list repeats a value", any(len({json.dumps(v) for v in q["values"]}) < len(q["values"]) for q in ps))
                ctx.dist("a list is unsorted", any(q["values"] != sorted(q["values"]) for q in ps))
            ctx.dist("cells in the parallel result", min(ncell_of(p), 20))
        if c["kind"] == "encs":
            pat = c["pattern"]
            # a group with >= 2 members one of which is listed after a parameter of another group
            shaped = any(pat.count(g) >= 2 and any(pat[i] != g for i in range(max(k for k, x in enumerate(pat) if x == g)))
                         for g in set(pat))
            ctx.dist("colliding name listed after another parameter", shaped)
            keys = [f"m{j}.{a}" for j, a in c["layout"]]
            ctx.dist("keys listed in alphabetical order", keys == sorted(keys))
            ctx.dist("one key is a detector setting", "detector_key" in c)
            plan = c.get("pipe")
            ctx.dist("models switched off in the pipeline", "no trace" if plan is None else sum(1 for _, en, _ in plan if not en))
            if plan is not None:
                ctx.dist("switched-off model x tasks pickled",
                         f"{'off>=1' if any(not en for _, en, _ in plan) else 'off=0'}/{'pickled' if desc.get('pickled') else 'in-memory'}")
                ctx.dist("groups holding probe instances", len({g for _, _, g in plan}))
        ctx.dist("tasks pickled", bool(desc.get("pickled")))
        if c["kind"] in ("enc", "encs", "draw"):
            ctx.dist("mode/nparams", f"{c['mode']}/{len(c['params'])}")
            ctx.dist("outputs", bool(files is not None))
        ncell = len(p[1]) if p else 0
        if ncell >= 2 and desc["sched"] != "synchronous":
            seen.add(json.dumps([c, desc["sched"]], sort_keys=True, default=str))
    ctx.cov["distinct_nontrivial"] = ctx.cov.get("distinct_nontrivial", 0) + len(seen)


def translate_leg(ctx: Ctx) -> dict:
    try:
        text = tr.translate(ctx.repo)
        ctx.cov["translated_rows"] = tr.rows(ctx.repo)
    except TranslationError as ex:
        ctx.broken.append(Broken("translation", "translator/c07.py (how the dask path builds and binds the parameter "
                                 "array)", str(ex)))
        ctx.log(f"translation failed (fail closed): {ex}")
        text = tr.FALLBACK
    return {"Gen_C07.v": text}


def ensure_gen(ctx: Ctx):
    """(replay mode) write + compile Gen_C07.v so that case files can import it"""
    gd = ctx.build / "gen"
    gd.mkdir(parents=True, exist_ok=True)
    try:
        text = tr.translate(ctx.repo)
    except TranslationError:
        text = tr.FALLBACK
    (gd / "Gen_C07.v").write_text(text)
    core.ensure_lib(ctx, targets=["theories/Model/Parallel.vo"])
    core.coqc(ctx, gd / "Gen_C07.v", [(gd, "PyxelGen")])


def run(ctx: Ctx):
    ctx.trusted += TRUSTED
    ctx.assumptions += [
        "parameter keys are distinct (model arguments, optionally one detector setting); values are numbers or "
        "equal-length number vectors (no mixed levels); sweeps of observation.readout.times are C02's subject "
        "(C02-ObsTimes: the non-dask path ignores them)",
        "each run is a function of (copy of the processor, parameter values) -- C06; checked here only through the "
        "trace counter the probe leaves on the detector it is given",
        "a lossy pickle hook on a class WITHOUT its own __deepcopy__ changes every deep copy alike (sequential = parallel): "
        "reported through the broken theorem / fail-closed translator, without a failing input of THIS property",
        "dask executes every chunk once and places it by index (not proved; sampled under the schedulers listed)",
        "the thread-RNG defect is exhibited on the real code only by the forced schedule (barrier probes), not by the theorem",
    ]
    core.proof_leg(ctx, translate_leg(ctx), PROP_FILE)
    cases = gen_cases(ctx)
    subs, mism, viol = correspondence(ctx, cases)
    account(ctx, subs)
    ctx.cov["rule"] = ("one evaluation = one result entry (label, decoded data, trace counter) compared inside Coq; "
                       "non-trivial = a parallel result with >= 2 entries computed under a non-synchronous scheduler "
                       "(distinct case x scheduler)")
    ctx.cov["traces_validated_against_impl"] = len(subs)
    ctx.cov["disagreements_checked"] = len(mism)
    for sub in subs[:60:12]:
        ctx.sample(dict(case={k: v for k, v in sub[0]["case"].items() if k != "scheds"}, sched=sub[0]["sched"],
                        parallel_shape=(sub[2][0] if sub[2] else None)))
    for sub, is_m in viol:
        ctx.violations.append(to_violation(sub, is_m))
    (ctx.build / "mismatches.json").write_text(json.dumps([dict(desc=s[0], raw=s[4]) for s in mism], indent=1, default=str))
    for sub in mism:
        ctx.broken.append(Broken("correspondence", "Model/Parallel.v vs implementation",
                                 f"model and implementation differ: {sub[0]['case'].get('mode')} under {sub[0]['sched']}",
                                 dict(case=sub[0]["case"], sched=sub[0]["sched"], observed=sub[4])))
    if ctx.broken and not new_violations(ctx):
        search(ctx)


def new_violations(ctx: Ctx):
    fs = core.load_findings(ctx.prop)
    return [v for v in ctx.violations if not any(core.finding_matches(e, v) for e in fs)]


def search(ctx: Ctx):
    """The correspondence broke without a new spec violation: look harder (more spaces, all schedulers)."""
    ctx.log("searching for a concrete failing input (more parameter spaces, every scheduler, outputs on)")
    r = ctx.rng("search")
    cases = []
    for mode in ("product", "custom", "sequential"):
        for npar in (1, 2, 3):
            if mode == "sequential" and npar > 1:
                continue
            for _ in range(5):
                c = gen_enc(r, mode, npar, "")
                c["sleep_scale"] = 0.06
                c["scheds"] = [SCHEDS[0], SCHEDS[3]]
                c["outputs"] = True
                cases.append(c)
    # short names that collide, every position pattern of 3 and 4 parameters, all modes (binding of values to keys)
    for pat in [q for n in (2, 3, 4) for q in partitions(n) if len(set(q)) < len(q)]:
        for mode in ("product", "custom", "sequential"):
            c = gen_encs(r, mode, pat, vector="mix")
            c["scheds"] = [SCHEDS[0]]
            c["outputs"] = (mode == "product")
            cases.append(c)
    # what a worker receives: pipelines with models that are switched off (every group, 1..3 of them), every pickling
    # member of the scheduler dimension
    for pat in [q for n in (1, 2, 3) for q in partitions(n)]:
        for mode in ("product", "custom", "sequential"):
            c = gen_encs(r, mode, pat, vector="mix", decoys=1 + (len(cases) % 3))
            c["scheds"] = [SCHEDS[0]] + PICKLED
            c["outputs"] = (mode == "custom")
            cases.append(c)
    # the inputs of the repaired defects (a regression is reported with a concrete input)
    cases += corpus_cases()
    subs, mism, viol = correspondence(ctx, cases, tag="s")
    for sub, is_m in viol:
        ctx.violations.append(to_violation(sub, is_m))
    ctx.cov["search_cases"] = len(subs)


def replay(ctx: Ctx, rp: dict) -> int:
    case = rp.get("case")
    if rp.get("kind") != "input" or not case:
        print(f"replay names a {rp.get('kind')} that no longer checks: {rp.get('no_longer_checks')}")
        print(rp.get("detail", ""))
        return 1
    c = dict(case["case"])
    want = case.get("sched")
    if "scheds" in c:
        c["scheds"] = [s for s in c["scheds"] if sname(s) == want] or [s for s in ALL_SCHEDS + [PROC] if sname(s) == want] \
            or c["scheds"]
    obs = core.run_driver(ctx, "c07", [c], workers=1)[0]
    print("case:", json.dumps(c)[:1500])
    print("implementation now returns:", json.dumps(obs, default=str)[:3000])
    if "crash" in obs or "driver_error" in obs:
        return 1
    ensure_gen(ctx)
    subs = expand(c, obs)
    ok, evals, se = core.coq_eval(ctx, "replay", emit_file(subs))
    bad = (not ok) or core.parse_int_list(evals[1]) != []
    print("specification (evaluated in Coq):", "VIOLATED" if bad else "holds")
    return 1 if bad else 0


META = dict(
    level_text=(
        "Coq theorems (no axioms) over an executable model of the parallel path whose rows are REGENERATED from the "
        "source on every run (translator/c07.py -> src_cfg: which rows create_params of the three modes builds, how the "
        "dask path binds a cell's values to the parameter keys, file index / island order / DaskBFE shapes; fail closed). "
        "Proved for all inputs: END TO END (C07_parallel_equals_sequential, instantiated with the regenerated rows as "
        "C07_parallel_equals_sequential_as_coded): for product / sequential / custom mode, any parameter space (repeated "
        "values, one-element lists, any lengths and defaults), any distinct keys, any run function of the received values "
        "and EVERY completion order of the tasks, the parallel result and the sequential result are the same label->data "
        "map; per mode: product cells = sequential runs as a set, no double cell, #cells = prod shape, a permutation when "
        "no list repeats a value, cell at rank(mi) holds the values its coordinates name; sequential mode: identical run "
        "list, one parameter at a time with defaults; custom: identical rows; positional binding is right iff the zipped "
        "mapping iterates in the tuples' order (soundness + necessity); assembly independent of every completion order, "
        "rank/unrank bijective for any shape, island k created from seed k, DaskBFE chunking; interleaving model of "
        "save/seed/draw/restore on one shared generator (threads: REFUTED with a witness schedule, open finding; one "
        "worker or one generator per worker: always the sequential outcome). WHAT A WORKER RECEIVES (round 2b): the rows of "
        "every __getstate__/__setstate__ of the classes that travel to workers are regenerated; proved: when every "
        "attribute of every hooked class comes back (hooks_faithful, re-checked against the regenerated rows by "
        "C07_pickle_hooks_as_coded) the pipeline a task works on -- pickled (process pool) or deep-copied (sequential "
        "path, threads) -- is the caller's, for every pipeline and every assignment of enabled flags, and the end-to-end "
        "statement holds under every scheduler kind (C07_any_scheduler_as_coded); deep copies bypass the hooks of a class "
        "with its own __deepcopy__; a group rebuilt from definitions without `enabled` executes every model and differs "
        "from the sequential run as soon as one model is switched off. That the implementation behaves like the "
        "model is established by correspondence (testing): the same observation run with_dask=False and True under "
        "synchronous / 1,2,4,16 threads / 2 processes / dask's process-pool serialisation driven in-process (sync and 4 "
        "threads) / caller's detector+pipeline sent through pickle or cloudpickle first, with data-dependent delays, "
        "pipelines holding switched-off models in every group (execution trace of every run), detector and readout "
        "settings read back by every run, pyxel's own calibration problem evaluated through DaskBFE / DaskIsland by "
        "workers that received it through pickle, parameter sets whose short names "
        "collide in every position pattern of 1..4 parameters, every result entry (label, values each run RECEIVED per "
        "parameter, trace counter, executions counted), output files vs. index, islands (seeds, first fitness, champions "
        "after an evolution vs. an in-thread reference evolution), DaskBFE values -- compared inside Coq against the "
        "model and against the specification."),
    level_note=(
        "Trusted: Coq kernel + vm_compute; translator/c07.py + translator/c07_norm.py (what is extracted, and that the "
        "normal form the functions are read in preserves behaviour, is believed; unknown shapes fail closed); the "
        "correspondence harness and probes; pandas/xarray/dask/pygmo/ThreadPoolExecutor behaviour as modelled (dask "
        "computes every chunk once and places it by index: a hypothesis of the theorems, sampled incl. an execution "
        "counter, not proved); runs are functions of their own copy (C06). The shared-generator defect is a theorem "
        "about the model and is exhibited on the real code only by a forced schedule."),
    technique="Coq proof over executable model regenerated in part from the source (permutation invariance, mixed "
              "radix, positional binding, interleaving semantics) + in-Coq correspondence/spec evaluation of sequential "
              "vs. parallel runs under several dask schedulers",
    design_ref="DESIGN.md section 6, C07",
)
