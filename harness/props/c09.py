"""C09 — a failing model always fails the run, with its identity attached."""
from __future__ import annotations

import itertools
import json

from .. import core
from ..core import Broken, Ctx, Violation

PROP_FILE = "Properties/C09.v"

GROUPS = ["photon_collection", "charge_generation", "charge_collection", "charge_transfer",
          "charge_measurement", "readout_electronics", "data_processing"]
CLASSES = ["ValueError", "KeyError", "ZeroDivisionError", "RuntimeError", "ProbeError",
           # round 2: two Exception subclasses with a special role and three classes that `except Exception` does not see
           "StopIteration", "KeyboardInterrupt", "FloatingPointError", "SystemExit", "BaseProbeError"]
ENTRIES = ["run_mode", "run_file", "cli", "method", "deprecated"]
FUNC = "verif_probes_c09.node"
T_KEY = "detector.environment.temperature"
Q_KEY = "detector.characteristics.quantum_efficiency"
Q_VALUES = [0.25, 0.5, 0.75, 1.0]
TAGS = ["pa", "qb", "rc", "sd"]

CLAUSE = {1: "result_returned", 2: "class_changed", 3: "message_lost", 4: "identity_missing",
          5: "parameters_missing", 6: "calls_after_fault", 7: "parallel_not_surfaced", 8: "calibration_not_surfaced",
          9: "original_lost_under_cleanup_failure", 10: "context_lost", 11: "capture_failure_not_surfaced"}

TRUSTED = [
    "translator/c09.py (for the 41 functions on the paths from the entry points to a model call: every except handler, "
    "finally block and with item as a shape; which functions refer to which; the list of context managers taken as "
    "non-suppressing: standard library, numpy, dask, tqdm, xarray; its normalisations: helper calls followed to depth 3, "
    "names bound once and imported names replaced by what they are bound to, constructs inside handler / finally bodies "
    "judged through that handler / finally block, helpers that name no function of the paths left out)",
    "the paths themselves (Model/Failure.v all_entry_paths: entry point x mode -> functions) are hand-written from the "
    "source; the translator checks that every function exists and refers to the next one; calls that go through pygmo/dask "
    "(lib_edges) are taken on trust",
    "correspondence harness: harness/props/c09.py generators, harness/drivers/c09.py, probes/verif_probes_c09.py "
    "(run identity read from detector.environment.temperature / quantum_efficiency / a published run tag)",
    "Section hypotheses, sampled at every position but not proved: dask `compute` forces every cell and surfaces "
    "the exception of a failing cell (compute_forces_all); pygmo's wait_check re-raises with the original "
    "traceback text, i.e. str(exc) and its notes (transport_keeps_text)",
    "modelled, not verified: BaseException.add_note appends and keeps class/message; str(KeyError(x)) = repr(x); "
    "`raise` inside an except block re-raises the same object",
]


# ------------------------------------------------------------------------------------------ generation


def gen_pipeline(r, max_models=6, min_groups=2):
    while True:
        ng = r.randrange(min_groups, 5)
        names = sorted(r.sample(GROUPS, ng), key=GROUPS.index)
        groups, key = [], 0
        for g in names:
            ms = []
            for _ in range(r.randrange(1, 4)):
                ms.append(dict(name=f"m{key}x", enabled=(r.random() > 0.15), key=key))
                key += 1
            groups.append(dict(name=g, models=ms))
        n_en = sum(m["enabled"] for g in groups for m in g["models"])
        if key <= max_models and n_en >= 2:
            return groups


def first_enabled(groups):
    for g in groups:
        for m in g["models"]:
            if m["enabled"]:
                return g["name"], m["name"]
    raise ValueError


DEFAULTS = {"t": 200.0, "q": 1.0, "arg": "?"}     # what a run sees for a parameter that it does not sweep


def make_runs(groups, params, pmode="product"):
    """The runs of an observation, in order, with the (key, repr(value)) of each.
    product: the cartesian product of the value lists (first parameter outermost);
    sequential: one parameter after the other, the others staying at the configured values."""
    g0, m0 = first_enabled(groups)
    keys = {"t": T_KEY, "q": Q_KEY, "arg": f"pipeline.{g0}.{m0}.arguments.arg"}
    field = {"t": "t", "q": "q", "arg": "tag"}
    runs = []
    if pmode == "sequential":
        for p in params:
            for v in p["values"]:
                run = dict(id=len(runs), t=None, q=None, tag=None, params=[[keys[p["kind"]], repr(v)]])
                for other in params:
                    run[field[other["kind"]]] = DEFAULTS[other["kind"]]
                run[field[p["kind"]]] = v
                runs.append(run)
        return runs
    for i, combo in enumerate(itertools.product(*[p["values"] for p in params])):
        run = dict(id=i, t=None, q=None, tag=None, params=[])
        for p, v in zip(params, combo):
            run[field[p["kind"]]] = v
            run["params"].append([keys[p["kind"]], repr(v)])
        runs.append(run)
    return runs


def gen_params(r, mode, entry="run_mode", pmode="product"):
    if mode == "exposure":
        return []
    if pmode == "sequential":
        kinds = r.choice([["t", "q"], ["q", "t"], ["t", "arg"], ["arg", "q"], ["t", "q", "arg"]] if entry != "deprecated"
                         else [["t", "q"], ["q", "t"]])
        sizes = r.choice([[2, 2], [1, 2], [2, 1], [3, 1]]) if len(kinds) == 2 else [1, 2, 1]
        return _param_values(r, kinds, sizes, distinct_from_defaults=True)
    if entry == "deprecated":
        kinds = r.choice([["t"], ["t"], ["t", "q"], ["q", "t"], ["q"]])
        sizes = [r.randrange(2, 5)] if len(kinds) == 1 else [2, 2]
        return _param_values(r, kinds, sizes)
    if mode == "obs_dask":
        kinds = r.choice([["t"], ["t"], ["t", "q"], ["q", "t"]])
    else:
        # up to three nested sweeps
        kinds = r.choice([["t"], ["t", "q"], ["arg"], ["arg", "t"], ["q", "t"], ["t", "arg"], ["t", "q", "arg"], ["arg", "t", "q"]])
    if len(kinds) == 3:
        sizes = r.choice([[2, 1, 2], [1, 2, 2], [2, 2, 1], [2, 2, 2]])
    else:
        sizes = [r.randrange(2, 5)] if len(kinds) == 1 else r.choice([[2, 2], [2, 2], [1, 3], [3, 1], [2, 1]])
    return _param_values(r, kinds, sizes)


def _param_values(r, kinds, sizes, distinct_from_defaults=False):
    params = []
    for k, n in zip(kinds, sizes):
        if k == "t":
            base = r.randrange(100, 170)
            vals = [base + 7 * i for i in range(n)]
        elif k == "q":
            vals = r.sample([q for q in Q_VALUES if not (distinct_from_defaults and q == DEFAULTS["q"])], n)
        else:
            vals = r.sample(TAGS, n)
        params.append(dict(kind=k, values=vals))
    return params


def scenario(r, mode, max_positions, entry="run_mode"):
    while True:
        groups = gen_pipeline(r, max_models=6 if mode == "exposure" else 5)
        nsteps = r.randrange(1, 4)
        # the `sequential` parameter mode under dask is C05's (a known defect there): sequential execution only
        pmode = "sequential" if (mode == "obs_seq" and r.random() < 0.25) else "product"
        params = gen_params(r, mode, entry, pmode)
        runs = make_runs(groups, params, pmode) if params else [dict(id=0, t=None, q=None, tag=None, params=[])]
        nmod = sum(len(g["models"]) for g in groups)
        if len(runs) * nsteps * nmod <= max_positions and (mode == "exposure" or 2 <= len(runs) <= (8 if mode == "obs_seq" else 4)):
            sc = dict(mode=mode, groups=groups, nsteps=nsteps, params=params, runs=runs)
            if pmode != "product":
                sc["pmode"] = pmode
            if r.random() < 0.3:
                sc["seed"] = r.randrange(1, 1000)       # pipeline_seed: the run goes through set_random_seed's try/finally
            return sc


def cases_of_scenario(r, sc, cls_cycle, extra=True, entry="run_mode", outputs=False, every=1):
    """One case per (run, step, model) - enabled or not - plus no-fault and multi-fault cases.
    `every` > 1 keeps every n-th position only (the entry-point matrix repeats the scenario shapes)."""
    cases = []
    base = dict(sc, entry=entry, outputs=outputs)
    seq = sc["mode"] in ("exposure", "obs_seq")
    positions = [(run["id"], s, m["key"]) for run in sc["runs"] for s in range(sc["nsteps"])
                 for g in sc["groups"] for m in g["models"]]
    off = r.randrange(every)
    for i, (rid, s, k) in enumerate(positions):
        if r.random() < 0.3:          # keep the class sequence from aligning with the pipeline's period
            next(cls_cycle)
        c = next(cls_cycle)
        if every > 1 and i % every != off:
            continue
        if entry == "cli" and c == "KeyboardInterrupt":
            c = "BaseProbeError"      # click reports Ctrl-C as click.Abort (chained): the command line's convention, not pyxel's
        f = dict(run=rid, step=s, key=k, cls=c, msg=f"boom-r{rid}-s{s}-k{k}")
        case = dict(base, faults=[f], scheduler=r.choice(["threads", "single-threaded"]))
        if seq and r.random() < 0.15:
            case["chained"] = True      # raised while another exception is being handled
        if sc["mode"] == "exposure" and entry in ("run_mode", "method") and r.random() < 0.3:
            case["debug"] = True
        cases.append(case)
    if extra:
        cases.append(dict(base, faults=[], scheduler="threads"))
        for _ in range(2):
            fs = []
            for (rid, s, k) in r.sample(positions, min(len(positions), r.randrange(2, 4))):
                c = next(cls_cycle)
                if entry == "cli" and c == "KeyboardInterrupt":
                    c = "BaseProbeError"
                fs.append(dict(run=rid, step=s, key=k, cls=c, msg=f"multi-r{rid}-s{s}-k{k}"))
            cases.append(dict(base, faults=fs, scheduler=r.choice(["threads", "single-threaded"])))
    return cases


def calib_cases(r, cls_cycle, n_scen, entries=("run_mode",), max_islands=1):
    cases = []
    for i in range(n_scen):
        groups = gen_pipeline(r, max_models=3, min_groups=1) if r.random() < 0.7 else \
            [dict(name="charge_collection", models=[dict(name="m0x", enabled=True, key=0)])]
        for g in groups:
            for m in g["models"]:
                m["enabled"] = True
        entry = r.choice(list(entries))
        islands = r.randrange(1, max_islands + 1)
        pop, evol = 7, r.choice([1, 2])
        init = pop * islands
        total = init * (1 + evol)
        keys = [m["key"] for g in groups for m in g["models"]]
        ns = [0, r.randrange(1, init), init + r.randrange(0, init)]      # initial population x2, evolution 1
        if evol == 2:
            ns.append(2 * init + r.randrange(0, init))
        if entry in ("run_mode", "method", "deprecated"):
            ns.append(total)       # the lazily recomputed champion data (pyxel.run never computes it)
        for n in ns:
            k = r.choice(keys)
            f = dict(run=n, step=0, key=k, cls=next(cls_cycle), msg=f"boom-e{n}-k{k}")
            cases.append(dict(mode="calib", entry=entry, outputs=(r.random() < 0.4), groups=groups, nsteps=1, params=[],
                              pop=pop, evolutions=evol, islands=islands,
                              runs=[dict(id=i, t=None, q=None, tag=None, params=[]) for i in range(total + 1)],
                              faults=[f], scheduler="threads"))
            if entry == "method" and (n >= init or len(cases) % 2 == 0):
                # Calibration.run_calibration(with_progress_bar=False) - the only way to switch the bar off; the same
                # behaviour is due (the other entry points cover the evolutions with the bar on)
                cases[-1]["no_bar"] = True
    return cases


def entry_matrix(ctx, r, cyc, scale=1):
    """Every public entry point that starts a simulation x with/without outputs x every mode (round 2)."""
    cases = []
    n = ctx.budget(1, 2) * scale
    for mode, cap in (("exposure", 12), ("obs_seq", 20)):
        for entry in ENTRIES:
            for outputs in (False, True):
                if entry == "run_mode" and not outputs:
                    continue            # that is the round-1 stream
                for _ in range(n):
                    cases += cases_of_scenario(r, scenario(r, mode, cap, entry), cyc, entry=entry, outputs=outputs,
                                                every=ctx.budget(2, 1))
    # dask: pyxel.run without outputs computes nothing but the first run, so there is nothing to surface
    dask_cases = []
    for entry, outputs in (("run_mode", True), ("method", False), ("method", True), ("deprecated", False),
                           ("deprecated", True), ("run_file", True), ("cli", True)):
        for _ in range(n):
            dask_cases += cases_of_scenario(r, scenario(r, "obs_dask", 16, entry), cyc, entry=entry, outputs=outputs,
                                            every=ctx.budget(2, 1))
    cases += dask_cases
    # debug mode: a model returns but leaves a bucket that the capture after it cannot read; sometimes a
    # model raises at another position too (whichever comes first in execution order decides)
    for entry in ("run_mode", "method"):
        for _ in range(n):
            sc = scenario(r, "exposure", 10)
            positions = [(s, m["key"]) for s in range(sc["nsteps"]) for g in sc["groups"] for m in g["models"]]
            for (s, k) in r.sample(positions, min(len(positions), ctx.budget(4, 10))):
                fs = [dict(run=0, step=s, key=k, cls="ValueError", msg="corrupt", corrupt=True)]
                if r.random() < 0.4:
                    s2, k2 = r.choice(positions)
                    if (s2, k2) != (s, k):
                        fs.append(dict(run=0, step=s2, key=k2, cls=next(cyc), msg=f"boom-r0-s{s2}-k{k2}"))
                cases.append(dict(sc, entry=entry, outputs=False, debug=True, faults=fs, scheduler="threads"))
    # the clean-up step of pyxel.run's finally block fails on top of the model's failure
    for mode, cap in (("exposure", 8), ("obs_seq", 12)):
        for entry in ("run_file", "cli"):
            for c in cases_of_scenario(r, scenario(r, mode, cap), cyc, entry=entry, outputs=True, every=ctx.budget(2, 1)):
                cases.append(dict(c, cleanup_fails=True))
    return cases


def exhaustive_small(ctx):
    """Thorough tier: one small pipeline, EVERY entry point x outputs x {exposure, sequential observation} x class x
    position of an enabled model (small-scope exhaustive enumeration)."""
    groups = [dict(name="photon_collection", models=[dict(name="m0x", enabled=True, key=0), dict(name="m1x", enabled=False, key=1)]),
              dict(name="charge_measurement", models=[dict(name="m2x", enabled=True, key=2)])]
    cases = []
    for mode in ("exposure", "obs_seq"):
        params = [] if mode == "exposure" else [dict(kind="t", values=[121, 128])]
        runs = make_runs(groups, params) if params else [dict(id=0, t=None, q=None, tag=None, params=[])]
        sc = dict(mode=mode, groups=groups, nsteps=2, params=params, runs=runs)
        for entry in ENTRIES:
            for outputs in (False, True):
                for cls in CLASSES:
                    if entry == "cli" and cls == "KeyboardInterrupt":
                        continue
                    for run in runs:
                        for st in range(2):
                            for k in (0, 2):
                                f = dict(run=run["id"], step=st, key=k, cls=cls, msg=f"x-r{run['id']}-s{st}-k{k}")
                                cases.append(dict(sc, entry=entry, outputs=outputs, faults=[f], scheduler="threads"))
    return cases


def widen_schedulers(ctx, r, cases):
    """dask's process pool for some of the dask cases (start-up cost: seconds per case)."""
    idx = [i for i, c in enumerate(cases) if c["mode"] == "obs_dask"]
    for i in r.sample(idx, min(len(idx), ctx.budget(4, 40))):
        cases[i] = dict(cases[i], scheduler="processes")


def corpus_cases():
    """Minimised past failures and the shapes of the seeded / repaired defects: run first."""
    d = core.VERIF / "harness" / "corpus" / "C09"
    return [json.loads(f.read_text()) for f in sorted(d.glob("*.json"))] if d.exists() else []


def gen_cases(ctx: Ctx, salt="cases", scale=1):
    r = ctx.rng(salt)
    cyc = itertools.cycle(CLASSES)
    cases = corpus_cases() if salt == "cases" else []
    n_exp = ctx.budget(5, 12) * scale
    n_seq = ctx.budget(6, 16) * scale
    n_dask = ctx.budget(3, 10) * scale
    for _ in range(n_exp):
        cases += cases_of_scenario(r, scenario(r, "exposure", 18), cyc)
    for _ in range(n_seq):
        cases += cases_of_scenario(r, scenario(r, "obs_seq", ctx.budget(36, 60)), cyc)
    for _ in range(n_dask):
        cases += cases_of_scenario(r, scenario(r, "obs_dask", ctx.budget(24, 48)), cyc)
    cases += entry_matrix(ctx, r, cyc, scale)
    widen_schedulers(ctx, r, cases)
    if ctx.quick:
        cases += calib_cases(r, cyc, 2 * scale, entries=("run_file", "run_mode", "cli", "deprecated", "method"), max_islands=2)
    else:
        cases += calib_cases(r, cyc, 3 * scale)
        cases += calib_cases(r, cyc, 10 * scale, entries=ENTRIES, max_islands=3)
        if salt == "cases":
            cases += exhaustive_small(ctx)
    return cases


# ------------------------------------------------------------------------------------------ Coq emission


def s_(x: str) -> str:
    x = "".join(ch if 32 <= ord(ch) < 127 else " " for ch in x)
    return '"' + x.replace('"', '""') + '"'


def emit_outcome(o) -> str:
    if o.get("returned"):
        return "Returned"
    if o.get("raised"):
        chain = core.clist(f"({s_(x['cls'])}, {s_(x['msg'])})" for x in o["chain"])
        return (f"(Raised {s_(o['cls'])} {core.clist(s_(k) for k in o['mro'])} {s_(o['msg'])} "
                f"{core.clist(s_(n) for n in o['notes'])} {chain})")
    return "NotRun"


MODE = {"exposure": "MExposure", "obs_seq": "MObsSeq", "obs_dask": "MObsDask", "calib": "MCalib"}
ENTRY = {"run_mode": "ERunMode", "run_file": "ERunFile", "cli": "ECli", "method": "EMethod", "deprecated": "EDeprecated"}


def emit_case(c, o) -> str:
    pl = core.clist(
        "{| g_name := %s; g_models := %s |}" % (s_(g["name"]), core.clist(
            "{| m_name := %s; m_func := %s; m_enabled := %s; m_key := %d |}" % (
                s_(m["name"]), s_(FUNC), core.cbool(m["enabled"]), m["key"]) for m in g["models"]))
        for g in c["groups"])
    runs = core.clist("{| r_id := %d; r_params := %s |}" % (
        r["id"], core.clist(f"({s_(k)}, {s_(v)})" for k, v in r["params"])) for r in c["runs"])
    faults = core.clist(f"({f['run']}, {f['step']}, {f['key']}, {f['cls']}, {s_(f['msg'])})" for f in c["faults"]
                        if not f.get("corrupt"))
    corrupt = core.clist(f"({f['run']}, {f['step']}, {f['key']})" for f in c["faults"] if f.get("corrupt"))
    trace = core.clist(f"({a}, {b}, {s_(n)})" for a, b, n in o.get("trace", []))
    pop = c.get("pop", 0) * c.get("islands", 1)
    evals = pop * c.get("evolutions", 0)
    return (f"{{| c_mode := {MODE[c['mode']]}; c_entry := {ENTRY[c.get('entry', 'run_mode')]}; "
            f"c_outputs := {core.cbool(bool(c.get('outputs')))}; "
            f"c_cleanup_fails := {core.cbool(bool(c.get('cleanup_fails')))}; "
            f"c_chained := {core.cbool(bool(c.get('chained')))}; c_debug := {core.cbool(bool(c.get('debug')))}; "
            f"c_corrupt := {corrupt}; c_pl := {pl}; c_nsteps := {c['nsteps']}; c_runs := {runs}; "
            f"c_faults := {faults}; c_pop := {pop}; c_evals := {evals}; o_call := {emit_outcome(o['call'])}; "
            f"o_load := {emit_outcome(o['load'])}; o_trace := {trace} |}}")


def emit_file(pairs) -> str:
    body = ";\n  ".join(emit_case(c, o) for c, o in pairs)
    return ("From Coq Require Import List String Arith.\nFrom PyxelV Require Import Model.Failure.\n"
            "Import ListNotations.\nOpen Scope string_scope.\nOpen Scope list_scope.\n"
            f"Definition cases : list c09_case := [\n  {body}\n].\n"
            "Eval vm_compute in mismatches cases.\n"
            "Eval vm_compute in violations cases.\n")


# ------------------------------------------------------------------------------------------ legs


def slim(c):
    return {k: c[k] for k in ("mode", "entry", "outputs", "debug", "cleanup_fails", "chained", "pmode", "seed", "groups", "nsteps",
                              "params", "runs", "faults", "scheduler", "pop", "evolutions", "islands", "no_bar")
            if k in c}


def first_fault(c):
    """The injected fault that is met first (sequential modes: execution order; otherwise the first listed)."""
    if c["mode"] in ("exposure", "obs_seq"):
        for run in c["runs"]:
            for st in range(c["nsteps"]):
                for g in c["groups"]:
                    for m in g["models"]:
                        if not m.get("enabled", True):
                            continue
                        for f in c["faults"]:
                            if (f["run"], f["step"], f["key"]) == (run["id"], st, m["key"]):
                                return f
        return {}
    return c["faults"][0] if c["faults"] else {}


def to_violation(c, o, code) -> Violation:
    clause = CLAUSE.get(code, f"code{code}")
    f = first_fault(c)
    seen = o["call"] if o["call"].get("raised") else o["load"]
    observed = dict(call={k: v for k, v in o["call"].items() if k != "mro"},
                    load={k: v for k, v in o["load"].items() if k != "mro"},
                    n_calls=o.get("n_trace"), runs_seen=o.get("runs_seen"))
    for part in ("call", "load"):
        if isinstance(observed[part].get("msg"), str) and len(observed[part]["msg"]) > 600:
            observed[part]["msg"] = "..." + observed[part]["msg"][-600:]
    sig = dict(clause=clause, mode=c["mode"], entry=c.get("entry", "run_mode"))
    sig["injected"] = f.get("cls")
    sig["stop_iteration"] = any(x["cls"] == "StopIteration" for x in c["faults"])
    if clause == "class_changed":
        sig["observed"] = seen.get("cls")
    expected = ("the call raises the injected exception: class %s, message containing str(exc), one note naming the "
                "group and the model of the faulting call%s; no object is returned; no model call after the fault"
                % (f.get("cls"), ", every key: value of the faulting run" if c["mode"] == "obs_seq" else ""))
    what = (f"{c['mode']} through {c.get('entry', 'run_mode')} ({'with' if c.get('outputs') else 'no'} outputs): "
            f"fault {f.get('cls')}({f.get('msg')!r}) injected at run {f.get('run')}, step {f.get('step')}, "
            f"model key {f.get('key')} -> {clause}")
    return Violation(clause=clause, case=slim(c), observed=observed, expected=expected, what=what, sig=sig)


def cost(c) -> float:
    """Rough seconds of one case (a calibration starts pygmo, dask's process pool starts interpreters)."""
    if c["mode"] == "calib":
        return 5.0
    if c.get("scheduler") == "processes":
        return 3.0
    if c["mode"] == "obs_dask":
        return 0.5
    return 0.15 + (0.1 if c.get("entry") in ("run_file", "cli") else 0.0)


def spread(cases, chunk):
    """A permutation of the case indices such that the contiguous chunks handed to the worker processes get
    equal shares of the expensive cases."""
    n = len(cases)
    nchunks = (n + chunk - 1) // chunk
    sizes = [min(chunk, n - k * chunk) for k in range(nchunks)]
    buckets = [[] for _ in range(nchunks)]
    load = [0.0] * nchunks
    for i in sorted(range(n), key=lambda i: -cost(cases[i])):
        k = min((k for k in range(nchunks) if len(buckets[k]) < sizes[k]), key=lambda k: load[k])
        buckets[k].append(i)
        load[k] += cost(cases[i])
    return [i for b in buckets for i in sorted(b)]


def correspondence(ctx: Ctx, cases, tag="c", confirm=True):
    import time

    workers = 8
    t0 = time.time()
    chunk = max(1, (len(cases) + 2 * workers - 1) // (2 * workers))
    order = spread(cases, chunk)
    obs_p = core.run_driver(ctx, "c09", [cases[i] for i in order], workers=workers, timeout=1500, chunk=chunk)
    obs = [None] * len(cases)
    for i, o in zip(order, obs_p):
        obs[i] = o
    failed = [i for i, o in enumerate(obs) if "crash" in o or "driver_error" in o]
    if failed and confirm:
        # a worker process that died (machine load, timeout) takes its whole chunk with it: run those again, alone
        ctx.log(f"{len(failed)} driver results missing ({str(obs[failed[0]])[:200]}); running them again")
        again = core.run_driver(ctx, "c09", [cases[i] for i in failed], workers=4, timeout=1500, chunk=4)
        for i, o in zip(failed, again):
            obs[i] = o
        ctx.count("driver_retries", len(failed))
    pairs = []
    for c, o in zip(cases, obs):
        if "crash" in o or "driver_error" in o:
            ctx.broken.append(Broken("correspondence", "implementation driver failed", str(o)[:800], slim(c)))
            ctx.log("driver failed:", str(o)[:600])
            continue
        pairs.append((c, o))
    files, per = {}, 40
    for k in range(0, len(pairs), per):
        files[f"{tag}_{k // per:03d}"] = emit_file(pairs[k:k + per])
    t1 = time.time()
    res = core.coq_eval_many(ctx, files, timeout=900, par=8)
    secs = {}
    for c, o in pairs:
        key = c["mode"] + ("/processes" if c.get("scheduler") == "processes" else "")
        n, t = secs.get(key, (0, 0.0))
        secs[key] = (n + 1, t + o.get("secs", 0.0))
    ctx.log(f"{len(pairs)} cases: implementation {t1 - t0:.1f}s wall, evaluation in Coq {time.time() - t1:.1f}s "
            f"({len(files)} files); cpu seconds per kind: "
            + ", ".join(f"{k}: {n} cases {t:.0f}s" for k, (n, t) in sorted(secs.items())))
    mism, viol = [], []
    for k, name in enumerate(sorted(files)):
        ok, evals, se = res[name]
        chunk = pairs[k * per:(k + 1) * per]
        if not ok or len(evals) != 2:
            ctx.broken.append(Broken("correspondence", f"case file {name}.v did not evaluate", core.tail(se, 15)))
            ctx.log(f"case file {name}.v did not evaluate:", core.tail(se, 6))
            continue
        mism += [chunk[i] for i in core.parse_int_list(evals[0])]
        flat = core.parse_int_list(evals[1])
        viol += [(chunk[flat[j]][0], chunk[flat[j]][1], flat[j + 1]) for j in range(0, len(flat), 2)]
    for c, o in (pairs if confirm else []):
        ctx.count("evaluations")
        ctx.dist("mode", c["mode"])
        ctx.dist("entry", c.get("entry", "run_mode"))
        ctx.dist("entry_x_outputs_x_mode", f"{c.get('entry', 'run_mode')}/{'out' if c.get('outputs') else 'noout'}/{c['mode']}")
        if c["mode"] in ("obs_dask", "calib"):
            ctx.dist("scheduler", c.get("scheduler"))
        if c["mode"] == "calib":
            ctx.dist("islands", c.get("islands", 1))
        for flag in ("debug", "cleanup_fails", "chained", "no_bar"):
            if c.get(flag):
                ctx.dist("flags", flag)
        ctx.dist("faults", len(c["faults"]))
        for f in c["faults"]:
            ctx.dist("class", "(corrupts a bucket)" if f.get("corrupt") else f["cls"])
        ctx.dist("outcome", "raised" if (o["call"].get("raised") or o["load"].get("raised")) else "returned")
        if c["mode"] != "exposure":
            ctx.dist("runs", len(c["runs"]) if c["mode"] != "calib" else "calibration")
            ctx.dist("swept_parameters", f"{c.get('pmode', 'product')}:{len(c['params'])}")
        ctx.dist("steps", c["nsteps"])
    if mism and confirm:
        # a disagreement must be reproducible to count: run exactly those cases once more
        ctx.log(f"{len(mism)} disagreement(s) between model and implementation; running those cases again")
        m2, v2, p2 = correspondence(ctx, [c for c, _ in mism], tag=tag + "r", confirm=False)
        ctx.cov["transient_disagreements"] = ctx.cov.get("transient_disagreements", 0) + len(mism) - len(m2)
        mism = m2
        viol += v2
    return mism, viol, pairs


def run(ctx: Ctx):
    from translator import c09 as tr

    ctx.trusted += TRUSTED
    ctx.assumptions += [
        "a model's behaviour is a function of (run, step, model): deterministic models on per-run copies of the processor",
        "classes that are not Exception subclasses (KeyboardInterrupt, SystemExit, custom BaseException) must propagate with "
        "class and message and stop the run; the group/model and parameter notes are only due for Exception subclasses "
        "(the handlers are `except Exception`)",
        "the command line reports KeyboardInterrupt as click.Abort (click's convention): not injected through `pyxel run`",
        "a StopIteration raised while the islands of a calibration are created surfaces as RuntimeError('generator raised "
        "StopIteration') with the original as its cause (PEP 479, tqdm iterator): accepted when the original is in the chain",
        "Python >= 3.11 (add_note exists); dask and pygmo error transport as stated in the two Section hypotheses",
    ]
    gen = {}
    try:
        gen["Gen_C09.v"] = tr.translate(ctx.repo)
    except core.TranslationError as ex:
        ctx.broken.append(Broken("translation", "exception handlers of the anchored functions", str(ex)))
        ctx.log("translation failed:", ex)
        gen["Gen_C09.v"] = tr.FALLBACK
    core.proof_leg(ctx, gen, PROP_FILE, extra_sources=["From PyxelV Require Import Model.Failure.\n"])

    cases = gen_cases(ctx)
    ctx.log(f"{len(cases)} fault-injection cases")
    mism, viol, pairs = correspondence(ctx, cases)
    record(ctx, mism, viol, pairs)
    confirm_new(ctx)
    if ctx.broken and not new_violations(ctx):
        search(ctx)
        confirm_new(ctx)


def record(ctx, mism, viol, pairs):
    distinct = set()
    for c, o in pairs:
        if c["faults"]:
            distinct.add(json.dumps([c["mode"], c.get("entry"), c.get("outputs"), c.get("cleanup_fails"), c.get("chained"),
                                     c["groups"], c["nsteps"], c["params"], c["faults"]], sort_keys=True))
    ctx.cov["distinct_nontrivial"] = ctx.cov.get("distinct_nontrivial", 0) + len(distinct)
    ctx.cov["rule"] = ("one case = one simulation started through one entry point (pyxel.run_mode, pyxel.run(file), the pyxel "
                       "run command, a method of the mode object, a deprecated pyxel.*_mode function), with or without outputs, on a "
                       "generated pipeline (2-4 groups, 1-3 models each, some disabled; 1-3 readouts; observation with 2-8 "
                       "runs over 1-3 swept parameters, product or sequential) with faults injected at chosen (run, step, model) "
                       "positions; in the run_mode stream every position of every scenario is used once, in the entry-point "
                       "matrix every second one; non-trivial = at least one injected fault; distinct = distinct (mode, entry, "
                       "outputs, flags, pipeline, steps, parameters, faults)")
    ctx.cov["traces_validated_against_impl"] = ctx.cov.get("traces_validated_against_impl", 0) + sum(
        1 for c, o in pairs if c["mode"] in ("exposure", "obs_seq"))
    ctx.cov["disagreements_checked"] = ctx.cov.get("disagreements_checked", 0) + len(mism)
    for c, o in pairs[:60:20]:
        ctx.sample(dict(mode=c["mode"], groups=[[g["name"], [m["name"] for m in g["models"]]] for g in c["groups"]],
                        nsteps=c["nsteps"], params=c["params"], faults=c["faults"],
                        observed=dict(cls=o["call"].get("cls"), msg=(o["call"].get("msg") or "")[:80],
                                      notes=o["call"].get("notes"), n_calls=o.get("n_trace"))))
    for c, o, code in viol:
        ctx.violations.append(to_violation(c, o, code))
    (ctx.build / "violations.json").write_text(json.dumps(
        [dict(code=code, clause=CLAUSE.get(code), case=slim(c), call=o["call"], load=o["load"]) for c, o, code in viol][:200],
        indent=1))
    if mism:
        (ctx.build / "mismatches.json").write_text(json.dumps([dict(case=slim(c), observed=o) for c, o in mism][:20], indent=1))
    for c, o in mism[:1]:
        ctx.log("model != implementation:", json.dumps(dict(case=slim(c), call=o["call"], load=o["load"],
                                                            n_trace=o.get("n_trace")))[:1500])
    for c, o in mism:
        ctx.broken.append(Broken("correspondence", "Model/Failure.v vs implementation",
                                 f"model and implementation differ ({c['mode']}, faults={c['faults']}): "
                                 f"call={o['call'].get('cls') or o['call']}, calls logged={o.get('n_trace')}",
                                 dict(case=slim(c), observed=o)))


def new_violations(ctx: Ctx):
    fs = core.load_findings(ctx.prop)
    return [v for v in ctx.violations if not any(core.finding_matches(e, v) for e in fs)]


def confirm_new(ctx: Ctx, per_class=3, classes=12):
    """A VIOLATION line with a replay file claims a concrete failing input: a behavioural fact. Every violation of
    this module is the specification (evaluated in Coq) judging what one run of the implementation did - never
    something read off the translated tables (those only produce broken obligations, which go through the search
    and end as `no-failing-input-found`). This step makes the claim reproducible as well: the cases of every NEW
    class of violation (signature x clause, as core.finish groups them) are run once more; only those that violate
    the same clause again are kept, and they come first in their class. A class none of whose cases violates again
    becomes a broken correspondence obligation (no concrete input is claimed for it)."""
    fs = core.load_findings(ctx.prop)
    known = [v for v in ctx.violations if any(core.finding_matches(e, v) for e in fs)]
    new = [v for v in ctx.violations if not any(core.finding_matches(e, v) for e in fs)]
    if not new:
        return
    by_class: dict[str, list] = {}
    for v in new:
        by_class.setdefault(json.dumps(v.sig, sort_keys=True) + v.clause, []).append(v)
    todo = []
    for key in list(by_class)[:classes]:
        todo += by_class[key][:per_class]
    if all(id(v) in CONFIRMED for v in todo):
        return
    _, viol, _ = correspondence(ctx, [v.case for v in todo], tag="v" + str(len(CONFIRMED)), confirm=False)
    again = {(json.dumps(slim(c), sort_keys=True), CLAUSE.get(code, f"code{code}")) for c, _, code in viol}
    kept, lost = [], 0
    for key in list(by_class)[:classes]:
        ok = [v for v in by_class[key][:per_class] if (json.dumps(v.case, sort_keys=True), v.clause) in again]
        for v in ok:
            CONFIRMED.add(id(v))
        if ok:
            kept += ok
        else:
            lost += 1
            v = by_class[key][0]
            ctx.broken.append(Broken("correspondence", f"{v.clause}: observed once, not on the second run of the same case",
                                     v.what, v.case))
    ctx.cov["violation_classes_confirmed_by_second_run"] = len([1 for k in list(by_class)[:classes]]) - lost
    ctx.cov["violation_classes_not_reproduced"] = ctx.cov.get("violation_classes_not_reproduced", 0) + lost
    ctx.log(f"{len(by_class)} new class(es) of violation: {len(kept)} case(s) confirmed by a second run, "
            f"{lost} class(es) not reproduced")
    ctx.violations[:] = known + kept


CONFIRMED: set = set()


def search(ctx: Ctx):
    """A proof obligation, the translation or the correspondence broke: inject faults at every position of
    more and larger scenarios."""
    ctx.log("searching for a concrete failing input (more scenarios, every position)")
    cases = gen_cases(ctx, salt="search", scale=2)
    if ctx.quick:   # the quick stream has little calibration; the broken obligation may be about it
        cases += calib_cases(ctx.rng("search-calib"), itertools.cycle(CLASSES), 5, entries=ENTRIES, max_islands=2)
    mism, viol, pairs = correspondence(ctx, cases, tag="s")
    for c, o, code in viol:
        ctx.violations.append(to_violation(c, o, code))
    ctx.cov["search_cases"] = len(pairs)


def replay(ctx: Ctx, rp: dict) -> int:
    case = rp.get("case")
    if rp.get("kind") != "input" or not case or "mode" not in case:
        print(f"replay names a {rp.get('kind')} that no longer checks: {rp.get('no_longer_checks')}")
        print(rp.get("detail", ""))
        return 1
    obs = core.run_driver(ctx, "c09", [case], workers=1)[0]
    print("case:", json.dumps(case)[:2000])
    print("implementation now gives:", json.dumps({k: obs.get(k) for k in ("call", "load", "n_trace", "runs_seen")})[:3000])
    if "crash" in obs or "driver_error" in obs:
        print("driver failed:", obs)
        return 1
    core.ensure_lib(ctx, targets=["theories/Model/Failure.vo"])
    ok, evals, se = core.coq_eval(ctx, "replay", emit_file([(case, obs)]))
    if not ok or len(evals) != 2:
        print("case file did not evaluate:", core.tail(se, 10))
        return 1
    flat = core.parse_int_list(evals[1])
    bad = flat != []
    print("specification (evaluated in Coq):", f"VIOLATED ({CLAUSE.get(flat[1], flat[1])})" if bad else "holds")
    return 1 if bad else 0


META = dict(
    level_text=(
        "Coq theorems over an executable model of the error path of all four running modes (ModelGroup.run adding the "
        "group/model note and re-raising, Processor over groups, exposure over steps - also in debug mode, with the capture "
        "step after every call -, the sequential observation loop adding the run's parameters, the dask path as eager first "
        "run + lazy cells, calibration as initial population + evolutions) and of what lies between them and the caller of "
        "every public entry point (pyxel.run_mode, pyxel.run(file) with its try/finally, the `pyxel run` command, the methods "
        "of Exposure/Observation/Calibration, the deprecated pyxel.exposure_mode/observation_mode/calibration_mode): for every "
        "behaviour of the model functions - any fault position, any class including KeyboardInterrupt/SystemExit/custom "
        "BaseException, any number of faults - and any pipeline, schedule and parameter space (induction over "
        "runs/steps/groups/models) the driver raises the original class and message, carries (for Exception subclasses) the "
        "note naming the faulting group and model and every key: value of the faulting run, returns no result, and makes "
        "exactly the calls up to the fault; any stack of except/finally/with constructs none of which can drop an exception "
        "(handler ending in a bare raise, finally block not left by return/break/continue, non-suppressing context manager) "
        "hands the exception to its caller - itself, or as the context of a clean-up failure - for any run-time behaviour of "
        "the clean-up steps. The parallel and calibration theorems hold under two explicit hypotheses about dask (compute "
        "surfaces a failing cell) and pygmo (the re-raised text contains the original). The model is tied to the code (a) by a "
        "translator that on every run reads all 41 functions on the 37 paths from the entry points to a model call and "
        "re-proves, over the regenerated tables, that every function exists, refers to the next one and contains no "
        "construct that can drop an exception, and (b) by fault injection at every (run, step, model) position of generated "
        "scenarios through every entry point, with and without outputs, in every mode: the observed exception (type, MRO, "
        "message, notes, chain), returned object and call log are compared with the model and judged against the "
        "specification inside Coq. That the implementation behaves like the model is established by this correspondence, "
        "i.e. by testing."),
    level_note=(
        "Trusted: Coq kernel + vm_compute; translator/c09.py (incl. its list of non-suppressing context managers) and the "
        "hand-written path table (call edges through pygmo/dask are not checked); the correspondence harness and probes; "
        "CPython semantics of add_note / bare raise / try-finally / PEP 479 / str(exc); dask and pygmo error transport "
        "(Section hypotheses, sampled with the threaded, synchronous and process schedulers and 1-3 islands). The deprecated "
        "observation path attaches no run parameters and, under dask.bag, drops a run whose model raises StopIteration (open "
        "findings; the full statements are kept and refuted). `pyxel run` reports KeyboardInterrupt as click.Abort (not "
        "injected there). pyxel.run on a dask observation without outputs computes nothing, so nothing can surface (not "
        "generated). Model behaviour is assumed to be a function of (run, step, model)."),
    technique="Coq proof over a result-monad model of the drivers, the entry points and the exception-dropping constructs + "
              "regenerated path/construct tables + in-Coq correspondence/spec evaluation of fault injection",
    design_ref="DESIGN.md section 6, C09",
)
