"""C05 — Observation runs exactly the requested parameter space, correctly labelled."""
from __future__ import annotations

import json

from translator import c05 as tr

from .. import core
from ..core import Broken, Ctx, Violation

PROP_FILE = "Properties/C05.v"

TRUSTED = [
    "translator/c05.py: what it reads from pyxel/observation/{misc,observation}.py is believed (name fallback and third "
    "naming stage, enabled_steps filters, short(), CustomMode.build guards and column selection, convert_custom_data "
    "column addressing and scalar test, the dimensions _add_custom_parameters gives a vector parameter, whether "
    "_get_parameter_types rebuilds its dict); it fails closed on any other shape",
    "that Observation.parameter_types is the ONLY state the run path keeps between two runs of one object is a syntactic "
    "net of the translator (declared fields of the mode classes, attributes set by the constructors, no write to an "
    "attribute / item of self, cls, an argument or a module-level name, no setattr / __dict__ / vars, no memoisation "
    "decorator or import, no module- or class-level variable, no mutable default) over observation/{misc,observation,"
    "observation_dask,parameter_values}.py, evaluator.py and the key access of pipelines/processor.py; state hidden "
    "behind an alias or inside a called library is only found by the history leg (testing)",
    "the loops of the three modes (itertools.product / the sequential double loop / the column cursor) and of the dask "
    "path (create_params, run_pipelines_with_dask) are hand-written in Model/ParamSpace.v and tied to the code only by "
    "the correspondence leg (testing)",
    "correspondence harness: harness/props/c05.py generators, harness/drivers/c05.py (DataTree dump via .isel/.sel, "
    "dask path under the synchronous scheduler), probes/verif_probes_c05.py (records received values, writes their "
    "base-64 code into pixel)",
    "modelled, not verified: itertools.product / zip / dict insertion order (= iproduct / combine / dict_set), "
    "toolz.unique, pandas DataFrame.loc label slicing, iterrows, MultiIndex.from_product + Series.to_xarray (= a "
    "permutation of every level; proved irrelevant for the label->data map), xarray expand_dims / assign_coords / merge "
    "(= labelled entries merged when equal), xarray.apply_ufunc over a chunked object array (= one run per cell, stored "
    "in that cell), numpy expression strings evaluated by eval_range (the model receives the list the harness rendered "
    "the expression from)",
]

P1 = "pipeline.charge_collection.{m}.arguments."
P2 = "pipeline.charge_measurement.{m}.arguments."
QE = "detector.characteristics.quantum_efficiency"
TEMP = "detector.environment.temperature"
ADC = "detector.characteristics.adc_voltage_range"


# ------------------------------------------------------------------------------------------ layouts
# slot = (key, where, name, kind, lo, hi): where "arg"/"det"; kind scalar (0) or vector length


def layout(name):
    """probes + slots of a pipeline.  Every layout keeps <= 8 flattened values (exact base-64 code)."""
    A, B = "m1", "m2"
    if name == "L1":      # distinct short names, scalar + vector args, two detector fields
        pa = [("a", 0), ("v", 2), ("det:characteristics.quantum_efficiency", 0)]
        pb = [("b", 0), ("w", 2), ("det:environment.temperature", 0)]
    elif name == "L2":    # F19: same model name and argument name in two groups
        B = "m1"
        pa = [("a", 0), ("det:characteristics.quantum_efficiency", 0)]
        pb = [("a", 0), ("w", 2)]
    elif name == "L3":    # same argument name, different model names: fallback names are distinct
        pa = [("a", 0), ("v", 2)]
        pb = [("a", 0), ("det:characteristics.quantum_efficiency", 0), ("det:characteristics.adc_voltage_range", 2)]
    elif name == "L4":    # two vector arguments of different lengths
        pa = [("a", 0), ("v", 2)]
        pb = [("b", 0), ("w", 3)]
    elif name == "L5":    # a model argument called like a detector field
        pa = [("temperature", 0), ("a", 0)]
        pb = [("b", 0), ("det:environment.temperature", 0)]
    else:
        raise ValueError(name)
    probes, slots, base = [], [], 0
    for grp, mname, items, pref in (("charge_collection", A, pa, P1), ("charge_measurement", B, pb, P2)):
        pr = dict(group=grp, name=mname, base=base, slots=[], args={})
        for nm, vlen in items:
            if nm.startswith("det:"):
                key = "detector." + nm[4:]
                pr["slots"].append(nm)
            else:
                key = pref.format(m=mname) + nm
                pr["slots"].append("arg:" + nm)
            lo, hi = (0, 8) if key == QE else (1, 63)
            slots.append(dict(key=key, vlen=vlen, lo=lo, hi=hi, default=None, arg=None if nm.startswith("det:") else nm,
                              probe=len(probes)))
            base += max(1, vlen)
        probes.append(pr)
    return probes, slots


def rand_val(r, s, integral=False):
    """One value for the slot (numerator in eighths).  A slot marked "neg" (model arguments of a case
    that allows negative values) takes values in [-31, 31] \\ {-1}: the probe's positional code stays
    injective (digit range below 64) and -1 stays the marker of a value that is not a multiple of 1/8."""
    def one():
        if s.get("neg"):
            if integral:
                v = 8 * r.randrange(1, 4)
            else:
                v = r.randrange(max(1, s["lo"]), min(31, s["hi"]) + 1)
            if r.random() < 0.4:
                v = -v
            return -2 if v == -1 else v
        if integral and s["hi"] >= 16:
            return 8 * r.randrange(max(1, (s["lo"] + 7) // 8), s["hi"] // 8 + 1)
        return r.randrange(s["lo"], s["hi"] + 1)
    if s["vlen"] == 0:
        return one()
    if s["key"] == ADC:
        a = r.randrange(0, 30)
        return [a, a + r.randrange(1, 30)]
    return [one() for _ in range(s["vlen"])]


def _order(r, vals, style):
    """Impose the requested order on a value list: "desc" = descending, "unsorted" = neither ascending nor
    (where three distinct values allow it) descending, None = as drawn."""
    key = (lambda v: tuple(v)) if vals and isinstance(vals[0], list) else (lambda v: v)
    if style == "desc":
        return sorted(vals, key=key, reverse=True)
    if style == "unsorted" and len({json.dumps(v) for v in vals}) >= 2:
        asc = sorted(vals, key=key)
        for _ in range(20):
            r.shuffle(vals)
            if vals != asc and (vals != asc[::-1] or len(vals) < 3):
                break
        if vals == asc:
            vals = asc[::-1]
    return vals


def gen_values(r, s, style=None, nodup=False, fine=False):
    """A list of 1..4 values for the slot, and how it is written (literal list / numpy expression).
    style: None | "desc" | "unsorted" (see _order); nodup: no value twice."""
    n = r.choice([1, 1, 2, 2, 3, 3, 4]) if style is None else r.choice([2, 3, 3, 4])
    p = dict(kind="lit")
    if s["vlen"] > 0:
        n = min(n, 3)
        vals = [rand_val(r, s) for _ in range(n)]
        if r.random() < 0.25 and n > 1 and not nodup:
            vals[r.randrange(1, n)] = list(vals[0])      # duplicate vector
        if nodup:
            vals = [list(t) for t in dict.fromkeys(tuple(v) for v in vals)]
        p["values"] = _order(r, vals, style)
        return p
    how = r.choice(["list", "list", "ints", "array", "arange", "linspace"])
    if s.get("neg") and how in ("arange", "linspace"):
        how = "array"
    if fine and how in ("ints", "arange"):
        how = "array"               # fine values (0.5 + n / 2**30) are never integral
    fl = (lambda e: repr(0.5 + e / 2.0 ** 30)) if fine else (lambda e: repr(e / 8.0))
    if how in ("arange", "linspace"):
        unit = 8 if how == "arange" else r.choice([1, 2, 4])
        step = unit * r.randrange(1, 3)
        nmax = max(1, (s["hi"] - s["lo"]) // step)
        n = min(n, nmax)
        lo_k = (s["lo"] + unit - 1) // unit
        hi_k = (s["hi"] - (n - 1) * step) // unit
        if hi_k < lo_k:
            how = "list"
        else:
            start = unit * r.randrange(lo_k, hi_k + 1)
            vals = [start + i * step for i in range(n)]
            if style in ("desc", "unsorted") and n > 1:
                # the same numbers written as a descending numpy expression
                vals = vals[::-1]
                if how == "arange":
                    p["expr"] = f"numpy.arange({vals[0] // 8}, {start // 8 - 1}, {-(step // 8)})"
                else:
                    p["expr"] = f"numpy.linspace({fl(vals[0])}, {fl(vals[-1])}, {n})"
            elif how == "arange":
                p["expr"] = f"numpy.arange({start // 8}, {(start + n * step) // 8}, {step // 8})"
            else:
                p["expr"] = f"numpy.linspace({fl(start)}, {fl(vals[-1])}, {n})"
            p["values"] = vals
            return p
    vals = [rand_val(r, s, integral=(how == "ints")) for _ in range(n)]
    if n > 1 and r.random() < 0.3 and not nodup:
        vals[r.randrange(1, n)] = vals[0]                                # duplicate value
    if nodup:
        vals = list(dict.fromkeys(vals))
    vals = _order(r, vals, style)
    p["values"] = vals
    if how == "ints":
        p["ints"] = True
    elif how == "array":
        if all(v % 8 == 0 for v in vals) and r.random() < 0.5 and not fine:
            p["expr"] = "numpy.array([" + ", ".join(str(v // 8) for v in vals) + "])"
        else:
            p["expr"] = "numpy.array([" + ", ".join(fl(v) for v in vals) + "])"
    return p


def fill_custom_table(r, case, slots, kind="valid", dask=False, fine=False):
    """Table, column range and file type of a custom-mode case, fitting the enabled placeholder parameters
    (kind "width_mismatch": deliberately not fitting; "no_range": without a column range)."""
    params = case["params"]
    widths = []
    cols = []
    for p in params:
        if p["enabled"] and p["kind"] != "lit":
            w = 1 if p["kind"] == "under" else p["n"]
            widths.append(w)
            cols += [slots[p["slot"]]] * w
    total = sum(widths)
    nrows = r.randrange(1, 7)
    extra_l = r.choice([0, 0, 0, 1, 2])
    if dask and r.random() < 0.8:
        extra_l = 0             # the dask path addresses the selected columns by the labels 0,1,..
    extra_r = r.choice([0, 0, 1])
    ncols = total
    if kind == "width_mismatch":
        ncols = max(1, total + r.choice([-1, 1, 1, 2]))
        if ncols == total:
            ncols += 1
    table = []
    for _ in range(nrows):
        row = [r.randrange(1, 8) for _ in range(extra_l)]
        for j in range(ncols):
            s = cols[j] if j < len(cols) else dict(lo=1, hi=8, vlen=0, key="")
            if s["key"] == ADC:
                row.append(8 * (1 + (j % 2) * 3) + r.randrange(0, 8))
            elif s.get("neg"):
                row.append(rand_val(r, dict(s, vlen=0)))
            else:
                row.append(r.randrange(s["lo"], s["hi"] + 1))
        row += [r.randrange(1, 8) for _ in range(extra_r)]
        table.append(row)
    case["table"] = table
    case["range"] = [extra_l, extra_l + ncols - 1] if ncols > 0 else [extra_l, extra_l]
    if kind == "no_range":
        case["range"] = None
    # text tables only for n/8 values: pandas' default float parser is not correctly rounded for 17-digit decimals
    # (reading files faithfully is C20's subject)
    case["file"] = "txt" if (len(table[0]) >= 2 and r.random() < 0.3 and not fine) else "npy"


def gen_case(r, mode=None, lay=None, kind="valid", dask=False, style=None, nodup=None, neg=None, nparams=None,
             fine=None):
    """dask: run on the dask path; style: order of the value lists (None | "desc" | "unsorted" | "mixed" = drawn
    per parameter); nodup: no value twice in a list; neg: model arguments may be negative."""
    mode = mode or r.choice(["product", "product", "sequential", "sequential", "custom", "custom"])
    lay = lay or r.choices(["L1", "L3", "L2", "L4", "L5"], [8, 3, 1, 1, 1])[0]
    probes, slots = layout(lay)
    if neg is None:
        neg = r.random() < 0.3
    if fine is None:
        fine = r.random() < 0.15    # values 0.5 + n / 2**30 (31 significant bits) instead of n / 8
    if nodup is None:
        nodup = dask and r.random() < 0.85
    for s in slots:
        if neg and s["arg"] is not None:
            s["neg"] = True
    for s in slots:
        s["default"] = rand_val(r, s)
        if s["arg"] is not None:
            probes[s["probe"]]["args"][s["arg"]] = s["default"]
    if nparams is None:
        nparams = r.choice([1, 2, 2, 3, 3, 4])
        if dask and mode == "sequential" and r.random() < 0.6:
            nparams = 1             # the dask path of sequential mode only does what was asked with one parameter
    pool = list(range(len(slots)))
    if mode == "product":
        # keep the product small: at most two long lists
        pass
    chosen = r.sample(pool, min(nparams, len(pool)))
    if lay in ("L2", "L3") and r.random() < 0.8:
        ia = [i for i, s in enumerate(slots) if s["key"].endswith(".a")]
        chosen = list(dict.fromkeys(ia + chosen))[:max(2, nparams)]
    if lay == "L4" and r.random() < 0.8:
        iv = [i for i, s in enumerate(slots) if s["vlen"] > 0]
        chosen = list(dict.fromkeys(iv + chosen))[:max(2, nparams)]
    if lay == "L5" and r.random() < 0.8:
        it = [i for i, s in enumerate(slots) if s["key"].endswith("temperature")]
        chosen = list(dict.fromkeys(it + chosen))[:max(2, nparams)]
    r.shuffle(chosen)
    params = []
    for i in chosen:
        s = slots[i]
        en = r.random() < 0.78
        if mode == "custom":
            if s["vlen"] == 0:
                if s["arg"] is not None and r.random() < (0.06 if dask else 0.15):
                    p = dict(kind="unders", n=1)
                else:
                    p = dict(kind="under")
            else:
                p = dict(kind="unders", n=s["vlen"])
            if kind == "literal_in_custom" and r.random() < 0.5:
                p = gen_values(r, s, fine=fine)
        else:
            st = r.choice([None, "desc", "unsorted", "unsorted"]) if style == "mixed" else style
            p = gen_values(r, s, style=st, nodup=nodup, fine=fine)
            if kind == "placeholder_in_noncustom" and r.random() < 0.5:
                p = dict(kind="under") if s["vlen"] == 0 else dict(kind="unders", n=s["vlen"])
        p.update(key=s["key"], enabled=en, slot=i)
        params.append(p)
    if mode == "sequential" and r.random() < 0.12 and params and params[0]["kind"] == "lit":
        # the same key swept twice is allowed in sequential mode
        s = slots[params[0]["slot"]]
        p = gen_values(r, s, fine=fine)
        p.update(key=s["key"], enabled=True, slot=params[0]["slot"])
        params.append(p)
    if not any(p["enabled"] for p in params) or r.random() < 0.5:
        params[r.randrange(len(params))]["enabled"] = True
    if dask and mode == "sequential" and nparams == 1:
        for p in params[1:]:
            p["enabled"] = False
        params[0]["enabled"] = True
    if mode == "product":
        # bound the number of runs
        tot = 1
        for p in params:
            if p["enabled"] and p["kind"] == "lit":
                while tot * len(p["values"]) > (12 if dask else 24) and len(p["values"]) > 1:
                    p["values"] = p["values"][:-1]
                    p.pop("expr", None)
                tot *= len(p["values"])
    case = dict(mode=mode, layout=lay, probes=probes, params=params, dask=bool(dask), fine=bool(fine), neg=bool(neg),
                inherit=bool(dask or r.random() >= 0.12),        # with_inherited_coords (the dask path requires True)
                slots=[dict(key=s["key"], default=s["default"]) for s in slots], table=[], range=None, file="npy")
    if mode == "custom":
        fill_custom_table(r, case, slots, kind=kind, dask=dask, fine=fine)
    return case


def canon(case):
    return json.dumps({k: case.get(k) for k in ("mode", "layout", "params", "slots", "table", "range", "dask", "inherit", "fine")},
                      sort_keys=True)


CORPUS = core.VERIF / "harness" / "corpus" / "C05"


def load_corpus(histories=False):
    """Minimised past failures (formerly failing inputs of repaired defects, inputs that exposed seeded changes).
    An entry with a "history" key is a history on one object (run, edit, run ...); the others are single runs."""
    out = []
    if CORPUS.is_dir():
        for f in sorted(CORPUS.glob("*.json")):
            data = json.loads(f.read_text())
            for c in (data if isinstance(data, list) else [data]):
                if ("history" in c) != histories:
                    continue
                for st in (c["history"] if histories else [c]):
                    st.setdefault("dask", False)
                c["corpus"] = f.name
                out.append(c)
    return out


# ------------------------------------------------------------------------------------------ histories on one object


def _slots_meta(case):
    _, slots = layout(case["layout"])
    for s in slots:
        if case.get("neg") and s["arg"] is not None:
            s["neg"] = True
    return slots


def _bound_product(step):
    if step["mode"] != "product":
        return
    tot = 1
    for p in step["params"]:
        if p["enabled"] and p["kind"] == "lit":
            while tot * len(p["values"]) > (12 if step["dask"] else 24) and len(p["values"]) > 1:
                p["values"] = p["values"][:-1]
                p.pop("expr", None)
            tot *= len(p["values"])


EDIT_KINDS = ["default", "default", "default_unswept", "values", "toggle", "reorder", "drop", "add", "table", "dask",
              "mode", "nothing", "placeholder"]


def edit_step(r, prev, kind):
    """The next configuration of a history: a copy of `prev` with one edit of the given kind (and, in custom mode, a
    table that fits the edited parameters).  Returns (step, kind actually applied)."""
    import copy
    step = copy.deepcopy(prev)
    step.pop("corpus", None)
    slots = _slots_meta(step)
    fine = bool(step.get("fine"))
    en = [p for p in step["params"] if p["enabled"]]
    custom = step["mode"] == "custom"
    refit = False
    if kind in ("default", "default_unswept"):
        swept = {p["key"] for p in en}
        pool = [i for i, s in enumerate(slots) if (s["key"] in swept) == (kind == "default")]
        if not pool:
            pool = list(range(len(slots)))
        for i in r.sample(pool, r.choice([1, 1, 2]) if len(pool) > 1 else 1):
            old = step["slots"][i]["default"]
            for _ in range(8):
                v = rand_val(r, slots[i])
                if v != old:
                    break
            step["slots"][i]["default"] = v
            if slots[i]["arg"] is not None:         # keep the description of a NEW object with this configuration in step
                step["probes"][slots[i]["probe"]]["args"][slots[i]["arg"]] = v
    elif kind == "values":
        lits = [p for p in en if p["kind"] == "lit"]
        if not lits:
            kind = "table"
        else:
            p = r.choice(lits)
            q = gen_values(r, slots[p["slot"]], style=r.choice([None, "desc", "unsorted"]), nodup=step["dask"], fine=fine)
            for k in ("values", "expr", "ints"):
                p.pop(k, None)
            p.update(q)
    elif kind == "toggle":
        p = r.choice(step["params"])
        p["enabled"] = not p["enabled"]
        if not any(q["enabled"] for q in step["params"]):
            p["enabled"] = True
            others = [q for q in step["params"] if q is not p]
            if others:
                r.choice(others)["enabled"] = False
            else:
                kind = "nothing"
        refit = True
    elif kind == "reorder":
        if len(step["params"]) < 2:
            kind = "default"
            return edit_step(r, prev, kind)
        old = [p["key"] for p in step["params"]]
        for _ in range(6):
            r.shuffle(step["params"])
            if [p["key"] for p in step["params"]] != old:
                break
        refit = True
    elif kind == "drop":
        if len(step["params"]) < 2:
            return edit_step(r, prev, "add")
        del step["params"][r.randrange(len(step["params"]))]
        if not any(q["enabled"] for q in step["params"]):
            step["params"][0]["enabled"] = True
        refit = True
    elif kind == "add":
        used = {p["key"] for p in step["params"]}
        pool = [i for i, s in enumerate(slots) if s["key"] not in used]
        if not pool:
            return edit_step(r, prev, "values" if not custom else "table")
        i = r.choice(pool)
        sl = slots[i]
        if custom:
            p = dict(kind="under") if sl["vlen"] == 0 else dict(kind="unders", n=sl["vlen"])
        else:
            p = gen_values(r, sl, style=r.choice([None, "unsorted"]), nodup=step["dask"], fine=fine)
        p.update(key=sl["key"], enabled=True, slot=i)
        step["params"].insert(r.randrange(len(step["params"]) + 1), p)
        refit = True
    elif kind == "table":
        if not custom:
            return edit_step(r, prev, "values")
        refit = True
    elif kind == "dask":
        step["dask"] = not step["dask"]
        if step["dask"]:
            step["inherit"] = True
            for p in step["params"]:                    # the dask path of product mode merges a value listed twice
                if p["kind"] == "lit" and step["mode"] == "product":
                    seen = []
                    for v in p["values"]:
                        if v not in seen:
                            seen.append(v)
                    if len(seen) != len(p["values"]):
                        p["values"] = seen
                        p.pop("expr", None)
    elif kind == "placeholder":
        # a request that must be refused ('_' outside custom mode) -- or, if the previous one was, a valid one again
        if custom:
            return edit_step(r, prev, "table")
        ph = [p for p in step["params"] if p["kind"] != "lit"]
        if ph:
            for p in ph:
                q = gen_values(r, slots[p["slot"]], nodup=step["dask"], fine=fine)
                p.pop("n", None)
                p.update(q)
            kind = "unplaceholder"
        else:
            p = r.choice(en)
            for k in ("values", "expr", "ints"):
                p.pop(k, None)
            sl = slots[p["slot"]]
            p.update(dict(kind="under") if sl["vlen"] == 0 else dict(kind="unders", n=sl["vlen"]))
    elif kind == "mode":
        if custom:
            return edit_step(r, prev, "table")
        step["mode"] = "sequential" if step["mode"] == "product" else "product"
        if step["mode"] == "product":
            # product mode needs distinct keys
            seen, keep = set(), []
            for p in step["params"]:
                if p["key"] not in seen:
                    keep.append(p)
                    seen.add(p["key"])
            step["params"] = keep
    if custom and (refit or kind == "table"):
        fill_custom_table(r, step, slots, dask=step["dask"], fine=fine)
    _bound_product(step)
    step["edit"] = kind
    if kind == "mode":
        step["edit_style"] = "rebuild"
    elif kind in ("default", "default_unswept", "dask", "nothing"):
        step["edit_style"] = "replace"
    else:
        step["edit_style"] = r.choice(["replace", "replace", "inplace", "rebuild"])
    # the next run gets the SAME detector and pipeline objects, edited in place -- or new ones with that configuration
    step["objects"] = "new" if r.random() < 0.3 else "same"
    return step, kind


def gen_history(r, mode=None, lay=None, dask=None, edits=None, nruns=None, fine=None):
    """2..3 runs of ONE Observation object; between the runs one edit each of the declared configuration."""
    if dask is None:
        dask = r.random() < 0.4
    mode = mode or r.choice(["product", "sequential", "sequential", "sequential", "custom"])
    first = gen_case(r, mode, lay, dask=dask, style=r.choice([None, "unsorted"]), nodup=True if dask else None,
                     fine=fine, nparams=r.choice([2, 2, 3, 3, 4]))
    first["edit"] = "first"
    steps = [first]
    nruns = nruns or r.choice([2, 2, 3])
    for k in range(1, nruns):
        kind = edits[k - 1] if edits and k - 1 < len(edits) else r.choice(EDIT_KINDS)
        step, _ = edit_step(r, steps[-1], kind)
        steps.append(step)
    return dict(history=steps)


def enum_histories(r):
    """Thorough tier: exhaustive small scope of two-run histories -- every ordered pair of distinct configurations out
    of {sweep a | a, b | b, a | a and b disabled} x {two sets of configured values}, sequential and product mode, both
    paths; the second configuration is reached by editing the object that ran the first."""
    import copy
    import itertools
    out = []
    base = gen_case(r, "product", "L3", nparams=1, neg=False, fine=False, dask=False)
    idx = {s["key"]: i for i, s in enumerate(base["slots"])}
    _, meta = layout("L3")
    ka, kb = P1.format(m="m1") + "a", P2.format(m="m2") + "a"

    def conf(mode, dask, params, defaults):
        c = copy.deepcopy(base)
        c.update(mode=mode, dask=dask, inherit=True, table=[], range=None,
                 params=[dict(p, slot=idx[p["key"]]) for p in params])
        for k, v in defaults.items():
            c["slots"][idx[k]]["default"] = v
            c["probes"][meta[idx[k]]["probe"]]["args"][meta[idx[k]]["arg"]] = v
        return c

    pa = dict(kind="lit", key=ka, values=[24, 8], enabled=True)
    pb = dict(kind="lit", key=kb, values=[40], enabled=True)
    variants = [[pa], [pa, pb], [pb, pa], [pa, dict(pb, enabled=False)]]
    defaults = [{ka: 5, kb: 50}, {ka: 7, kb: 56}]
    for mode in ("sequential", "product"):
        for dask in (False, True):
            confs = [conf(mode, dask, v, d) for v in variants for d in defaults]
            for i, j in itertools.permutations(range(len(confs)), 2):
                a, b = copy.deepcopy(confs[i]), copy.deepcopy(confs[j])
                a["edit"] = "first"
                b.update(edit="enum", edit_style="replace", objects="same")
                out.append(dict(history=[a, b]))
    return out


def gen_histories(ctx: Ctx, budget: int):
    r = ctx.rng("histories")
    out = load_corpus(histories=True)
    # every kind of edit in every mode, both paths, first
    for mode in ("sequential", "product", "custom"):
        for dask in (False, True):
            for kind in ("default", "toggle", "reorder", "values", "drop", "add", "default_unswept"):
                out.append(gen_history(r, mode, "L1" if kind != "toggle" else "L3", dask=dask, edits=[kind], nruns=2,
                                       fine=False))
    for dask in (False, True):
        out.append(gen_history(r, "product", "L1", dask=dask, edits=["placeholder", "placeholder"], nruns=3))
        out.append(gen_history(r, "custom", "L1", dask=dask, edits=["table", "default"], nruns=3))
        out.append(gen_history(r, "sequential", "L1", dask=dask, edits=["dask", "default"], nruns=3))
        out.append(gen_history(r, "product", "L3", dask=dask, edits=["mode", "toggle"], nruns=3))
        out.append(gen_history(r, "sequential", "L3", dask=dask, edits=["nothing", "default"], nruns=3))
    while len(out) < budget:
        out.append(gen_history(r))
    extra = [] if ctx.quick else enum_histories(ctx.rng("enum_histories"))
    ctx.cov["exhaustive_small_scope_histories"] = len(extra)
    return out + extra



def gen_dask_case(r, mode=None):
    """A case for the dask path, aimed at the labelling clause: lists that are not ascending, descending lists,
    negative and float values, vector-valued parameters; mostly without the inputs of the known defects of that path
    (a value twice in a product list, >= 2 sequential parameters, a one-element placeholder list, a column range not
    starting at 0, colliding names) -- those are still generated, at a low rate, and always in gen_cases' fixed list."""
    mode = mode or r.choice(["product", "product", "product", "sequential", "custom", "custom"])
    lay = r.choices(["L1", "L3", "L4", "L2", "L5"], [10, 4, 2, 1, 1])[0]
    style = r.choice(["unsorted", "unsorted", "desc", "mixed", None])
    return gen_case(r, mode, lay, dask=True, style=style, neg=r.random() < 0.5)


def enum_cases(r):
    """Thorough tier: exhaustive small scope on both paths -- every order of a 3-value scalar list against every order
    of a 2- or 3-value list of a second parameter (scalar or vector valued), product mode; every order of a 3-value
    list, sequential mode (one parameter); every order of 3 table rows, custom mode."""
    import itertools
    out = []
    base = gen_case(r, "product", "L1", nparams=1, neg=False, fine=False, dask=False)
    slots = {s["key"]: i for i, s in enumerate(base["slots"])}
    ka, kb, kw = P1.format(m="m1") + "a", P2.format(m="m2") + "b", P2.format(m="m2") + "w"

    def case(mode, params, dask, table=None, rng=None):
        c = json.loads(json.dumps(base))
        c.update(mode=mode, dask=dask, inherit=True, table=table or [], range=rng,
                 params=[dict(p, enabled=True, slot=slots[p["key"]]) for p in params])
        return c

    for dask in (False, True):
        for pa in itertools.permutations([8, 16, 24]):
            for second in ([40, 48], [[8, 16], [4, 2], [4, 40]]):
                key2 = kb if not isinstance(second[0], list) else kw
                for pb in itertools.permutations(second):
                    out.append(case("product", [dict(kind="lit", key=ka, values=list(pa)),
                                                dict(kind="lit", key=key2, values=[v for v in pb])], dask))
            out.append(case("sequential", [dict(kind="lit", key=ka, values=list(pa))], dask))
        for rows in itertools.permutations([[8, 40, 9], [16, 20, 30], [24, 8, 16]]):
            out.append(case("custom", [dict(kind="under", key=ka), dict(kind="unders", n=2, key=kw)], dask,
                            table=[list(x) for x in rows], rng=[0, 2]))
    return out


def gen_cases(ctx: Ctx, budget: int, dask_budget: int):
    r = ctx.rng("cases")
    cases = load_corpus()
    # adversarial list first (the mutations and the findings the property text names)
    for mode in ("product", "sequential", "custom"):
        for lay in ("L1", "L3", "L2", "L4", "L5"):
            cases.append(gen_case(r, mode, lay))
    for _ in range(4):
        cases.append(gen_case(r, "custom", "L1", kind="width_mismatch"))
    cases.append(gen_case(r, "custom", "L1", kind="no_range"))
    cases.append(gen_case(r, "custom", "L1", kind="literal_in_custom"))
    cases.append(gen_case(r, "product", "L1", kind="placeholder_in_noncustom"))
    cases.append(gen_case(r, "sequential", "L1", kind="placeholder_in_noncustom"))
    # unsorted / descending lists and negative values on the non-dask path too
    for mode in ("product", "sequential"):
        for style in ("unsorted", "desc"):
            cases.append(gen_case(r, mode, "L1", style=style, neg=True))
    while len(cases) < budget:
        k = r.random()
        kind = "valid"
        if k < 0.05:
            kind = "width_mismatch"
        elif k < 0.07:
            kind = "literal_in_custom"
        elif k < 0.09:
            kind = "placeholder_in_noncustom"
        elif k < 0.10:
            kind = "no_range"
        style = r.choice([None, None, "mixed", "unsorted", "desc"])
        c = gen_case(r, kind=kind, style=style)
        if kind in ("width_mismatch", "literal_in_custom", "no_range"):
            c = gen_case(r, "custom", kind=kind)
        cases.append(c)
    # ---- the dask path (with_dask=True, synchronous scheduler)
    rd = ctx.rng("dask")
    dcases = []
    for mode in ("product", "sequential", "custom"):
        for lay in ("L1", "L3", "L4"):
            for style in ("unsorted", "desc"):
                dcases.append(gen_case(rd, mode, lay, dask=True, style=style, nodup=True, neg=(style == "desc"),
                                       nparams=1 if mode == "sequential" else None))
        for lay in ("L2", "L5"):                       # name collisions / undefined names on the dask path
            dcases.append(gen_case(rd, mode, lay, dask=True, style="unsorted", nodup=True))
    dcases.append(gen_case(rd, "product", "L1", dask=True, nodup=False, style=None, nparams=2))
    dcases.append(gen_case(rd, "sequential", "L1", dask=True, style="unsorted", nparams=3))
    for kind in ("width_mismatch", "no_range", "literal_in_custom"):
        dcases.append(gen_case(rd, "custom", "L1", kind=kind, dask=True))
    for mode in ("product", "sequential"):
        dcases.append(gen_case(rd, mode, "L1", kind="placeholder_in_noncustom", dask=True))
    while len(dcases) < dask_budget:
        k = rd.random()
        if k < 0.04:
            dcases.append(gen_case(rd, "custom", kind=rd.choice(["width_mismatch", "literal_in_custom", "no_range"]),
                                   dask=True))
        elif k < 0.06:
            dcases.append(gen_case(rd, rd.choice(["product", "sequential"]), kind="placeholder_in_noncustom", dask=True))
        else:
            dcases.append(gen_dask_case(rd))
    extra = [] if ctx.quick else enum_cases(ctx.rng("enum"))
    ctx.cov["exhaustive_small_scope_cases"] = len(extra)
    return cases + dcases + extra


# ------------------------------------------------------------------------------------------ Coq emission


def cpval(v) -> str:
    if isinstance(v, list):
        return "(Vec " + core.clist(core.cz(int(x)) for x in v) + ")"
    return f"(Sc {core.cz(int(v))})"


def cparam(p) -> str:
    if p["kind"] == "under":
        vals = "Under"
    elif p["kind"] == "unders":
        vals = f"(Unders {p['n']})"
    else:
        vals = "(Lit " + core.clist(cpval(v) for v in p["values"]) + ")"
    return f"(mkParam {core.cstr(p['key'])} {vals} {core.cbool(p['enabled'])})"


def clabel(lab) -> str:
    items = []
    for name, kind, v in lab:
        items.append(f"({core.cstr(name)}, " + (f"LI {int(v)}" if kind == "i" else f"LV {cpval(v)}") + ")")
    return core.clist(items)


def emit_case(c, o) -> str:
    mode = {"product": "Product", "sequential": "Sequential", "custom": "Custom"}[c["mode"]]
    runs = core.clist(core.clist(cpval(v) for v in run) for run in o["runs"])
    result = core.clist(f"({clabel(e['label'])}, {core.cz(int(e['data']))})" for e in o["result"])
    obs = f"(mkObserved {core.cbool(bool(o['raised']))} {runs} {result})"
    slots = core.clist(f"({core.cstr(s['key'])}, {cpval(s['default'])})" for s in c["slots"])
    table = core.clist(core.clist(core.cz(int(x)) for x in row) for row in c["table"])
    rng = "None" if not c["range"] else f"(Some ({c['range'][0]}, {c['range'][1]}))"
    return (f"(mkCase {mode} {core.clist(cparam(p) for p in c['params'])}\n    {slots}\n    {table} {rng} "
            f"{core.cbool(bool(c.get('dask')))}\n    {obs})")


def emit_file(pairs) -> str:
    body = ";\n  ".join(emit_case(c, o) for c, o in pairs)
    return ("From Coq Require Import ZArith List String.\nFrom PyxelV Require Import Model.ParamSpace.\n"
            "From PyxelGen Require Import Gen_C05.\n"
            "Import ListNotations.\nLocal Open Scope list_scope.\nLocal Open Scope nat_scope.\n"
            f"Definition cases : list case := [\n  {body}\n].\n"
            "Eval vm_compute in mismatches src_cfg cases.\nEval vm_compute in violations src_cfg cases.\n")


# ------------------------------------------------------------------------------------------ classification


def _wm(key):
    parts = key.split(".")
    return (parts[2], parts[4]) if len(parts) == 5 else None


def _short(key):
    return "readout_time" if key == "observation.readout.times" else key.split(".")[-1]


def _has_dup(p):
    vals = [json.dumps(v) for v in p.get("values", [])]
    return len(set(vals)) < len(vals)


# the source configuration the translator read (names of Model/ParamSpace.v cfg fields); a recorded defect that the
# source no longer has is never used to explain a violation
FLAGS = dict(name_fallback_full=False, name_stage3=False, custom_dims_distinct=False, custom_range_optional=False,
             dask_custom_positional=False, dask_custom_scalar_is_placeholder=False, dask_product_dedup=False,
             dask_sequential_rows=False, types_fresh=False)


def set_flags(gen_text: str):
    import re
    m = re.search(r"mkCfg((?:\s+(?:true|false))+)\s*\.", gen_text)
    vals = [v == "true" for v in m.group(1).split()] if m else []
    if len(vals) == len(FLAGS):
        for k, v in zip(list(FLAGS), vals):
            FLAGS[k] = v


def classify(c, o, explained=True):
    """Python-side classification of a case that Coq judged to violate the specification (signature only).
    explained = the as-coded model (which contains the recorded defects of the unchanged tree) reproduces what the
    implementation did; a violation the model does not reproduce is never attributed to a recorded defect."""
    if not explained:
        if not o["raised"]:
            return "runs_or_labels_differ"
        return "raises_on_valid_request" if _accepts(c) else "unclassified"
    dask = bool(c.get("dask"))
    en = [p for p in c["params"] if p["enabled"]]
    keys = list(dict.fromkeys(p["key"] for p in en))
    shorts = [_short(k) for k in keys]
    shared = [k for k in keys if shorts.count(_short(k)) > 1]
    collide = (not FLAGS["name_stage3"]) and any(_wm(a) is not None and _wm(a) == _wm(b)
                                                 for i, a in enumerate(keys) for b in keys[i + 1:])
    undefined = (not FLAGS["name_fallback_full"]) and any(_wm(k) is None for k in shared)
    vlens = set()
    for p in en:
        if p["kind"] == "unders" and p["n"] >= 1:
            vlens.add(p["n"])
        elif p["kind"] == "lit" and p["values"] and isinstance(p["values"][0], list):
            vlens.add(len(p["values"][0]))
    if not _accepts(c):
        return "accepts_invalid_request" if not o["raised"] else "unclassified"
    if o["raised"]:
        if c["mode"] == "custom" and not c["range"] and not FLAGS["custom_range_optional"]:
            return "custom_without_column_range_raises"
        if undefined:
            return "dim_name_undefined_raises"
        if collide and (c["mode"] == "product" or dask):
            return "dim_name_collision_raises"
        if dask and c["mode"] == "product" and any(_has_dup(p) for p in en) and not FLAGS["dask_product_dedup"]:
            return "dask_product_duplicate_values_raises"
        if dask and c["mode"] == "custom" and c["range"] and c["range"][0] > 0 and not FLAGS["dask_custom_positional"]:
            return "dask_custom_column_offset_raises"
        if c["mode"] != "product" and len(vlens) > 1 and not dask and not FLAGS["custom_dims_distinct"]:
            return "vector_lengths_differ_raises"
        return "raises_on_valid_request"
    if collide and c["mode"] != "product" and not dask:
        return "dim_name_collision_silent"
    if dask and c["mode"] == "sequential" and len(en) >= 2 and not FLAGS["dask_sequential_rows"]:
        return "dask_sequential_zips"
    if dask and c["mode"] == "custom" and any(p["kind"] == "unders" and p["n"] == 1 for p in en) \
            and not FLAGS["dask_custom_scalar_is_placeholder"]:
        return "dask_custom_one_element_list_scalar"
    return "runs_or_labels_differ"


def _accepts(c) -> bool:
    """Is the request well-formed (python mirror of spec_accepts, used for the signature only)?"""
    en = [p for p in c["params"] if p["enabled"]]
    if c["mode"] == "custom":
        accepts = all(p["kind"] != "lit" for p in en)
        total = sum(1 if p["kind"] == "under" else p.get("n", 0) for p in en if p["kind"] != "lit")
        ncols = (c["range"][1] + 1 - c["range"][0]) if c["range"] else (len(c["table"][0]) if c["table"] else 0)
        if c["range"] and c["table"]:
            ncols = len(c["table"][0][c["range"][0]:c["range"][1] + 1])
        return accepts and total != 0 and total == ncols
    return all(p["kind"] == "lit" for p in en)


def to_violation(c, o, explained=True) -> Violation:
    clause = classify(c, o, explained)
    sig = dict(clause=clause, mode=c["mode"], dask=bool(c.get("dask")))
    en = [p for p in c["params"] if p["enabled"]]
    what = (f"{c['mode']} observation{' (with_dask=True)' if c.get('dask') else ''} over "
            f"{[p['key'] for p in en]}: {clause}"
            + (f" ({o['raised']}: {o.get('msg', '')[:120]})" if o.get("raised") else ""))
    v = Violation(clause=clause, case=c, observed=dict(raised=o["raised"], runs=o["runs"], result=o["result"][:40]),
                  expected="exactly the requested runs (in order; on the dask path as a multiset), each found under its "
                           "own labels with its own data, nothing else stored (spec_holds in Model/ParamSpace.v)",
                  what=what, sig=sig)
    v.full_obs = o
    return v


# ------------------------------------------------------------------------------------------ legs


def nontrivial(c) -> bool:
    en = [p for p in c["params"] if p["enabled"]]
    if c["mode"] == "custom":
        return len(en) >= 2 and len(c["table"]) >= 2
    lens = {len(p.get("values", [])) for p in en if p["kind"] == "lit"}
    return len(en) >= 2 and len(lens) >= 2


def correspondence(ctx: Ctx, cases, tag="c"):
    obs = core.run_driver(ctx, "c05", cases, workers=8, chunk=25)
    # a worker killed from outside (shared machine) loses its chunk: run those payloads once more
    again = [i for i, o in enumerate(obs) if "crash" in o]
    if again and len(again) < len(cases):
        ctx.log(f"re-running {len(again)} payload(s) whose worker was killed")
        for i, o in zip(again, core.run_driver(ctx, "c05", [cases[i] for i in again], workers=4, chunk=10)):
            obs[i] = o
    pairs = []
    for c, o in zip(cases, obs):
        if "crash" in o or "driver_error" in o:
            ctx.broken.append(Broken("correspondence", "implementation driver failed", str(o)[:600], c))
            continue
        pairs.append((c, o))
    files, per = {}, 40
    for k in range(0, len(pairs), per):
        files[f"{tag}_{k // per:03d}"] = emit_file(pairs[k:k + per])
    res = core.coq_eval_many(ctx, files, timeout=600, par=8)
    mism, viol = [], []
    for k, name in enumerate(sorted(files)):
        ok, evals, se = res[name]
        chunk = pairs[k * per:(k + 1) * per]
        if not ok or len(evals) != 2:
            ctx.broken.append(Broken("correspondence", f"case file {name}.v did not evaluate", core.tail(se, 15)))
            continue
        mism += [chunk[i] for i in core.parse_int_list(evals[0])]
        viol += [chunk[i] for i in core.parse_int_list(evals[1])]
    for c, o in pairs:
        ctx.count("evaluations", max(1, len(o["runs"])))
        ctx.count("observations")
        ctx.dist("mode", c["mode"] + ("/dask" if c.get("dask") else ""))
        ctx.dist("layout", c["layout"])
        ctx.dist("with_inherited_coords", bool(c.get("inherit", True)))
        ctx.dist("value_unit", "0.5+n/2^30" if c.get("fine") else "n/8")
        ctx.dist("enabled_params", sum(1 for p in c["params"] if p["enabled"]))
        ctx.dist("runs", len(o["runs"]))
        ctx.dist("outcome", o["raised"] or "ok")
        for p in c["params"]:
            ctx.dist("values_written_as", "expr:" + p["expr"].split("(")[0] if p.get("expr") else p["kind"])
            if p["enabled"] and p["kind"] == "lit":
                vs = [tuple(v) if isinstance(v, list) else (v,) for v in p["values"]]
                order = ("single" if len(vs) < 2 else "repeats" if len(set(vs)) < len(vs) else
                         "ascending" if vs == sorted(vs) else "descending" if vs == sorted(vs, reverse=True) else "unsorted")
                ctx.dist("list_order" + ("/dask" if c.get("dask") else ""), order)
                ctx.dist("list_values", ("vector" if isinstance(p["values"][0], list) else "scalar")
                         + ("/negative" if any(x < 0 for v in vs for x in v) else ""))
    return mism, viol, pairs


def _size(c):
    return (sum(1 for p in c["params"]), sum(len(p.get("values", [])) for p in c["params"]), len(c["table"]),
            sum(1 for p in c["params"] if p.get("expr")))


def _reductions(c):
    """One-step reductions of a case that keep it well-formed."""
    import copy
    out = []
    ps = c["params"]
    for k, p in enumerate(ps):
        lit_or_off = p["kind"] == "lit" or not p["enabled"]
        if len(ps) > 1 and (c["mode"] != "custom" or not p["enabled"]):
            d = copy.deepcopy(c)
            del d["params"][k]
            if any(q["enabled"] for q in d["params"]):
                out.append(d)
        if p["kind"] == "lit" and p.get("expr"):
            d = copy.deepcopy(c)
            d["params"][k].pop("expr")
            out.append(d)
        if p["kind"] == "lit" and not p.get("expr") and len(p["values"]) > 1 and lit_or_off:
            for j in range(len(p["values"])):
                d = copy.deepcopy(c)
                del d["params"][k]["values"][j]
                out.append(d)
    if c["mode"] == "custom" and len(c["table"]) > 1:
        for j in range(len(c["table"])):
            d = copy.deepcopy(c)
            del d["table"][j]
            out.append(d)
    return out


def shrink(ctx: Ctx, c, o, explained, rounds=8):
    """Greedy shrinking of a violating case: keep a one-step reduction that still violates the specification
    (judged in Coq) with the same classification; stop when none does."""
    clause = classify(c, o, explained)
    for rnd in range(rounds):
        cands = _reductions(c)
        if not cands:
            break
        cands.sort(key=_size)
        cands = cands[:24]
        obs = core.run_driver(ctx, "c05", cands, workers=4, chunk=6)
        pairs = [(d, b) for d, b in zip(cands, obs) if "crash" not in b and "driver_error" not in b]
        if not pairs:
            break
        ok, evals, se = core.coq_eval(ctx, f"shrink_{rnd}", emit_file(pairs))
        if not ok or len(evals) != 2:
            break
        mism = set(core.parse_int_list(evals[0]))
        keep = [(pairs[i][0], pairs[i][1], i not in mism) for i in core.parse_int_list(evals[1])]
        keep = [(d, b, e) for d, b, e in keep if classify(d, b, e) == clause and e == explained]
        if not keep:
            break
        c, o, explained = min(keep, key=lambda t: _size(t[0]))
    return c, o, explained


# ------------------------------------------------------------------------------------------ history leg


def emit_hist_file(hpairs) -> str:
    """hpairs: [[(step, observed), ...], ...]"""
    body = ";\n  ".join("[" + ";\n   ".join(emit_case(c, o) for c, o in h) + "]" for h in hpairs)
    return ("From Coq Require Import ZArith List String.\nFrom PyxelV Require Import Model.ParamSpace.\n"
            "From PyxelGen Require Import Gen_C05.\n"
            "Import ListNotations.\nLocal Open Scope list_scope.\nLocal Open Scope nat_scope.\n"
            f"Definition hists : list (list case) := [\n  {body}\n].\n"
            "Eval vm_compute in hist_mismatches src_cfg hists.\nEval vm_compute in hist_violations src_cfg hists.\n")


def _hist_pairs(ctx, hists, obs):
    out = []
    for h, o in zip(hists, obs):
        if "crash" in o or "driver_error" in o or "history" not in o:
            ctx.broken.append(Broken("correspondence", "implementation driver failed (history)", str(o)[:600], h))
            continue
        out.append((h, list(zip(h["history"], o["history"]))))
    return out


def _stale_keys(steps, k) -> bool:
    """Do the enabled keys of the earlier runs differ (as an ordered list of first occurrences) from those of run k?"""
    def keys(st):
        return list(dict.fromkeys(p["key"] for p in st["params"] if p["enabled"]))
    acc = []
    for st in steps[:k]:
        for key in keys(st):
            if key not in acc:
                acc.append(key)
    for key in keys(steps[k]):
        if key not in acc:
            acc.append(key)
    return acc != keys(steps[k])


def hist_violation(h, pairs, k, explained, alone_ok) -> Violation:
    """Run k of the history breaks the specification for the configuration at that time.  alone_ok: a new object
    with that configuration does what was asked (the violation needs the history)."""
    steps = [c for c, _ in pairs]
    c, o = pairs[k]
    if alone_ok is False:
        clause = classify(c, o, explained)              # the configuration alone already fails
    elif explained and not FLAGS["types_fresh"] and _stale_keys(steps, k):
        clause = "history_stale_parameter_types"
    else:
        clause = "history_run_differs"
    sig = dict(clause=clause, mode=c["mode"], dask=bool(c.get("dask")), history=True)
    en = [p for p in c["params"] if p["enabled"]]
    what = (f"run {k + 1} of {len(steps)} on ONE Observation object ({c['mode']}"
            f"{', with_dask=True' if c.get('dask') else ''}; edits: {[st.get('edit') for st in steps[1:k + 1]]}) over "
            f"{[p['key'] for p in en]}: {clause}"
            + (f" ({o['raised']}: {o.get('msg', '')[:120]})" if o.get("raised") else ""))
    v = Violation(clause=clause, case=dict(history=steps[:k + 1]),
                  observed=dict(run=k, raised=o["raised"], runs=o["runs"], result=o["result"][:40]),
                  expected="every run of a history does what a NEW object with the configuration at that time does: "
                           "exactly the requested runs, each found under its own labels with its own data "
                           "(spec_holds on the configuration of run k; C05_history)",
                  what=what, sig=sig)
    v.full_obs = o
    return v


def _hist_reductions(steps):
    import copy
    out = []
    n = len(steps)
    if n > 2:                                   # drop a step before the last one
        for j in range(n - 1):
            d = copy.deepcopy(steps[:j] + steps[j + 1:])
            out.append(d)
    if all(st["mode"] != "custom" for st in steps):
        keys = list(dict.fromkeys(p["key"] for st in steps for p in st["params"]))
        for key in keys:                        # sweep one key less, in every step
            d = copy.deepcopy(steps)
            for st in d:
                st["params"] = [p for p in st["params"] if p["key"] != key]
            if all(any(p["enabled"] for p in st["params"]) for st in d):
                out.append(d)
        for j, st in enumerate(steps):          # shorter value lists, literal instead of expression
            for k, p in enumerate(st["params"]):
                if p["kind"] == "lit" and p.get("expr"):
                    d = copy.deepcopy(steps)
                    d[j]["params"][k].pop("expr")
                    out.append(d)
                elif p["kind"] == "lit" and len(p["values"]) > 1:
                    d = copy.deepcopy(steps)
                    del d[j]["params"][k]["values"][-1]
                    out.append(d)
    else:
        for j, st in enumerate(steps):
            if st["mode"] == "custom" and len(st["table"]) > 1:
                d = copy.deepcopy(steps)
                del d[j]["table"][-1]
                out.append(d)
    for d in out:
        for j in range(1, len(d)):
            if d[j].get("edit_style") == "inplace":
                d[j]["edit_style"] = "replace"
    return out


def shrink_history(ctx: Ctx, steps, rounds=6):
    """Greedy: keep a reduction in which the LAST run still violates the specification while the same configuration
    on a new object does not."""
    def size(st):
        return (len(st), sum(len(x["params"]) for x in st), sum(len(p.get("values", [])) for x in st for p in x["params"]),
                sum(len(x["table"]) for x in st))
    for rnd in range(rounds):
        cands = sorted(_hist_reductions(steps), key=size)[:16]
        if not cands:
            break
        obs = core.run_driver(ctx, "c05", [dict(history=d) for d in cands] + [d[-1] for d in cands], workers=4, chunk=4)
        ho, so = obs[:len(cands)], obs[len(cands):]
        good = []
        for d, a, b in zip(cands, ho, so):
            if "history" in a and len(a["history"]) == len(d) and "crash" not in b and "driver_error" not in b:
                good.append((d, a["history"], b))
        if not good:
            break
        ok1, ev1, _ = core.coq_eval(ctx, f"hshrink_{rnd}", emit_hist_file([list(zip(d, a)) for d, a, _ in good]))
        ok2, ev2, _ = core.coq_eval(ctx, f"hshrink_s{rnd}", emit_file([(d[-1], b) for d, _, b in good]))
        if not (ok1 and ok2 and len(ev1) == 2 and len(ev2) == 2):
            break
        hv = set(core.parse_int_list(ev1[1]))
        sv = set(core.parse_int_list(ev2[1]))
        keep = [d for i, (d, _, _) in enumerate(good) if (i * 100 + len(d) - 1) in hv and i not in sv]
        if not keep:
            break
        steps = min(keep, key=size)
    return steps


def history_leg(ctx: Ctx, hists, tag="h"):
    """Run every history on one object; judge every run, inside Coq, against the configuration at that time
    (hist_violations) and against the model of the object as coded (hist_mismatches)."""
    obs = core.run_driver(ctx, "c05", hists, workers=8, chunk=max(6, min(20, (len(hists) + 7) // 8)))
    again = [i for i, o in enumerate(obs) if "crash" in o]
    if again and len(again) < len(hists):
        ctx.log(f"re-running {len(again)} histor(y/ies) whose worker was killed")
        for i, o in zip(again, core.run_driver(ctx, "c05", [hists[i] for i in again], workers=4, chunk=4)):
            obs[i] = o
    hp = _hist_pairs(ctx, hists, obs)
    files, per = {}, 12
    for k in range(0, len(hp), per):
        files[f"{tag}_{k // per:03d}"] = emit_hist_file([pairs for _, pairs in hp[k:k + per]])
    res = core.coq_eval_many(ctx, files, timeout=600, par=8)
    mism, viol = [], []
    for k, name in enumerate(sorted(files)):
        ok, evals, se = res[name]
        chunk = hp[k * per:(k + 1) * per]
        if not ok or len(evals) != 2:
            ctx.broken.append(Broken("correspondence", f"history file {name}.v did not evaluate", core.tail(se, 15)))
            continue
        mism += [(chunk[i // 100], i % 100) for i in core.parse_int_list(evals[0])]
        viol += [(chunk[i // 100], i % 100) for i in core.parse_int_list(evals[1])]
    nruns = 0
    for h, pairs in hp:
        ctx.count("histories")
        ctx.dist("history_runs", len(pairs))
        for j, (c, o) in enumerate(pairs):
            nruns += 1
            ctx.count("evaluations", max(1, len(o["runs"])))
            ctx.count("observations")
            ctx.dist("history_mode", c["mode"] + ("/dask" if c.get("dask") else ""))
            if j:
                ctx.dist("history_edit", f"{c.get('edit')}/{c.get('edit_style')}")
                ctx.dist("history_objects", c.get("objects", "same"))
                ctx.dist("history_outcome_after_edit", o["raised"] or "ok")
    ctx.cov["history_runs_judged"] = ctx.cov.get("history_runs_judged", 0) + nruns
    return mism, viol, hp


def history_violations(ctx: Ctx, mism, viol):
    """Violations of the history leg -> core.Violation (the configuration of the failing run is run once more on a
    NEW object to tell a violation that needs the history from one the configuration alone gives)."""
    if not viol:
        return []
    unexplained = {(id(hp[0]), k) for hp, k in mism}
    singles = [hp[1][k][0] for hp, k in viol]
    sobs = core.run_driver(ctx, "c05", singles, workers=8, chunk=6)
    okp = [(c, o) for c, o in zip(singles, sobs) if "crash" not in o and "driver_error" not in o]
    alone_bad = set()
    if okp:
        ok, evals, se = core.coq_eval(ctx, "hist_alone", emit_file(okp))
        if ok and len(evals) == 2:
            alone_bad = {id(okp[i][0]) for i in core.parse_int_list(evals[1])}
    out = []
    for (h, pairs), k in viol:
        c = pairs[k][0]
        out.append(hist_violation(h, pairs, k, explained=(id(h), k) not in unexplained,
                                  alone_ok=id(c) not in alone_bad))
    return out



def new_violations(ctx: Ctx):
    fs = core.load_findings(ctx.prop)
    return [v for v in ctx.violations if not any(core.finding_matches(e, v) for e in fs)]


def run(ctx: Ctx):
    ctx.trusted += TRUSTED
    ctx.max_reported = 8        # one replay per clause (the violations are ordered so that distinct clauses come first)
    ctx.assumptions += [
        "both paths of Observation.run_pipelines: with_dask=False, and with_dask=True under the synchronous scheduler "
        "(other schedulers, output files and seeding under dask belong to C07)",
        "swept keys exist and their models are enabled (key resolution is C08); one readout time; values are multiples "
        "of 1/8, detector fields in [0, 8), model arguments in (-4, 8); every vector-valued setting keeps its length; "
        "custom tables have 1..6 rows",
        "product/custom requests have distinct enabled keys (a repeated key is only meaningful in sequential mode)",
        "on the dask path the executed runs are compared as a multiset and ONE further execution of a requested run is "
        "allowed (run_pipelines_with_dask runs the first cell once more to learn the output shape)",
        "histories: 2..3 runs of one Observation object; between two runs ONE edit through public attributes (configured "
        "value of a detector field / model argument on the same or on another detector+pipeline, parameter list replaced / "
        "edited in place / mode object rebuilt, custom table, with_dask, product<->sequential); custom-mode histories only "
        "hold tables that fit their parameters (CustomMode.build validates at construction, not at run time)",
    ]
    try:
        gen = {"Gen_C05.v": tr.translate(ctx.repo)}
    except core.TranslationError as ex:
        ctx.broken.append(Broken("translation", "translator/c05.py", str(ex)))
        ctx.log(f"translation failed (continuing with the FALLBACK model): {ex}")
        gen = {"Gen_C05.v": tr.FALLBACK}
    ctx.cov["src_cfg"] = gen["Gen_C05.v"].strip().splitlines()[-1]
    # recognisers that knew the code only in its normal form (helpers inlined, aliases substituted ...): which rewrites
    ctx.cov["translator_normal_form_used"] = [f"{w}: {', '.join(rw)}" for w, rw in tr.NORMAL_FORM_USED][:12]
    if tr.NORMAL_FORM_USED:
        # the table was read from a normal form: the normaliser's own differential self-test (every sample function run as
        # written and in normal form on the same inputs: results, exceptions, side-effect traces) must pass in this run
        try:
            from translator import c02_norm
            st = c02_norm.selftest()
            ctx.cov["normaliser_selftest"] = dict(functions=st.get("functions"), runs=st.get("runs"),
                                                  failures=len(st.get("failures") or []))
            if st.get("failures"):
                ctx.broken.append(Broken("translation", "translator/c02_norm.py self-test", str(st["failures"])[:600]))
        except Exception as ex:  # noqa: BLE001
            ctx.broken.append(Broken("translation", "translator/c02_norm.py self-test", f"{type(ex).__name__}: {ex}"))
    set_flags(gen["Gen_C05.v"])
    import time
    t0 = time.time()
    phases = ctx.cov.setdefault("phase_seconds", {})
    core.proof_leg(ctx, gen, PROP_FILE)
    phases["proof_leg"] = round(time.time() - t0, 1)
    t0 = time.time()
    cases = gen_cases(ctx, ctx.budget(340, 1500), ctx.budget(160, 600))
    mism, viol, pairs = correspondence(ctx, cases)
    phases["single_runs"] = round(time.time() - t0, 1)
    distinct = {canon(c) for c, _ in pairs if nontrivial(c)}
    ctx.cov["distinct_nontrivial"] = len(distinct)
    ctx.cov["rule"] = ("non-trivial = at least two enabled parameters with lists of different lengths (product, "
                       "sequential) or at least two enabled placeholder parameters and two table rows (custom); "
                       "distinct = distinct (mode, pipeline layout, parameters, defaults, table, column range)")
    ctx.cov["traces_validated_against_impl"] = len(pairs)
    ctx.cov["disagreements_checked"] = len(mism)
    for c, o in pairs[:40:9]:
        ctx.sample(dict(mode=c["mode"], params=[{k: p[k] for k in p if k != "slot"} for p in c["params"]],
                        runs=o["runs"][:4], result=o["result"][:2], raised=o["raised"]))
    unexplained = {id(c) for c, _ in mism}
    vs = []
    for c, o in viol:
        v = to_violation(c, o, explained=id(c) not in unexplained)
        ctx.dist("spec_violation", f"{v.clause}/{c['mode']}{'/dask' if c.get('dask') else ''}")
        vs.append(v)
    # ---- histories: ONE Observation object run, edited in place, run again (2..3 runs)
    t0 = time.time()
    hists = gen_histories(ctx, ctx.budget(84, 300))
    hmism, hviol, hp = history_leg(ctx, hists)
    phases["histories"] = round(time.time() - t0, 1)
    ctx.cov["histories"] = len(hp)
    ctx.cov["history_distinct_nontrivial"] = len({json.dumps([canon(c) for c, _ in pairs]) for _, pairs in hp
                                                   if len(pairs) >= 2 and canon(pairs[0][0]) != canon(pairs[-1][0])})
    ctx.cov["traces_validated_against_impl"] = len(pairs) + sum(len(x) for _, x in hp)
    ctx.cov["disagreements_checked"] = len(mism) + len(hmism)
    for (h, hpairs), k in hmism:
        c, o = hpairs[k]
        ctx.broken.append(Broken("correspondence", "Model/ParamSpace.v (object with a past) vs implementation",
                                 f"model and implementation differ on run {k + 1} of a history on one {c['mode']} "
                                 f"observation object ({o['raised'] or 'ran'}, {len(o['runs'])} runs)",
                                 dict(case=dict(history=[x for x, _ in hpairs[:k + 1]]), observed=o)))
    for v in history_violations(ctx, hmism, hviol):
        ctx.dist("spec_violation", f"{v.clause}/{v.sig['mode']}{'/dask' if v.sig['dask'] else ''}/history")
        vs.append(v)
    # core.finish reports at most five distinct signatures: put one violation of every clause first
    first, rest, seen = [], [], set()
    for v in vs:
        (rest if v.clause in seen else first).append(v)
        seen.add(v.clause)
    # shrink what will be reported as new (not what matches a recorded defect): one case per signature
    fs = core.load_findings(ctx.prop)
    done = set()
    for k, v in enumerate(first + rest):
        key = json.dumps(v.sig, sort_keys=True)
        if key in done or len(done) >= ctx.max_reported or any(core.finding_matches(e, v) for e in fs):
            continue
        done.add(key)
        try:
            if "history" in v.case:
                st2 = shrink_history(ctx, v.case["history"])
                if len(json.dumps(st2)) < len(json.dumps(v.case["history"])):
                    o2 = core.run_driver(ctx, "c05", [dict(history=st2)], workers=1)[0]
                    if "history" in o2 and len(o2["history"]) == len(st2):
                        w = hist_violation(dict(history=st2), list(zip(st2, o2["history"])), len(st2) - 1, True, True)
                        w.clause, w.sig = v.clause, v.sig
                        w.what = w.what.rsplit(": ", 1)[0] + ": " + v.clause if not o2["history"][-1].get("raised") else w.what
                        (first if k < len(first) else rest)[k if k < len(first) else k - len(first)] = w
                        ctx.count("shrunk_cases")
                continue
            c2, o2, e2 = shrink(ctx, v.case, v.full_obs, id(v.case) not in unexplained)
            if c2 is not v.case:
                w = to_violation(c2, o2, e2)
                if w.sig == v.sig:
                    (first if k < len(first) else rest)[k if k < len(first) else k - len(first)] = w
                    ctx.count("shrunk_cases")
        except Exception as ex:  # noqa: BLE001 -- shrinking is best effort, the unshrunk case is still reported
            ctx.log(f"shrinking failed: {type(ex).__name__}: {ex}")
    ctx.violations += first + rest
    (ctx.build / "mismatches.json").write_text(json.dumps([dict(case=c, observed=o) for c, o in mism], indent=1))
    for c, o in mism:
        ctx.broken.append(Broken("correspondence", "Model/ParamSpace.v vs implementation",
                                 f"model and implementation differ on a {c['mode']} observation "
                                 f"({o['raised'] or 'ran'}, {len(o['runs'])} runs)", dict(case=c, observed=o)))
    if ctx.broken and not new_violations(ctx):
        search(ctx)


def search(ctx: Ctx):
    ctx.log("searching for a concrete failing input (second stream, all layouts x modes)")
    r = ctx.rng("search")
    cases = []
    for _ in range(ctx.budget(12, 40)):
        for mode in ("product", "sequential", "custom"):
            for lay in ("L1", "L3"):
                cases.append(gen_case(r, mode, lay))
    mism, viol, pairs = correspondence(ctx, cases, tag="s")
    unexplained = {id(c) for c, _ in mism}
    for c, o in viol:
        ctx.violations.append(to_violation(c, o, explained=id(c) not in unexplained))
    ctx.cov["search_cases"] = len(pairs)
    # histories: every kind of edit, every mode, both paths
    hists = []
    for _ in range(ctx.budget(2, 6)):
        for mode in ("sequential", "product", "custom"):
            for dask in (False, True):
                for kind in EDIT_KINDS[:10:2] + ["toggle", "reorder"]:
                    hists.append(gen_history(r, mode, r.choice(["L1", "L3"]), dask=dask, edits=[kind, r.choice(EDIT_KINDS)],
                                             nruns=r.choice([2, 3])))
    hmism, hviol, hp = history_leg(ctx, hists, tag="sh")
    ctx.violations += history_violations(ctx, hmism, hviol)
    ctx.cov["search_histories"] = len(hp)


def replay(ctx: Ctx, rp: dict) -> int:
    case = rp.get("case")
    if rp.get("kind") != "input" or not case:
        print(f"replay names a {rp.get('kind')} that no longer checks: {rp.get('no_longer_checks')}")
        print(rp.get("detail", ""))
        return 1
    obs = core.run_driver(ctx, "c05", [case], workers=1)[0]
    if "history" in case:
        for k, st in enumerate(case["history"]):
            print(f"configuration at run {k + 1} ({st.get('edit')}, {st.get('edit_style', '-')}):",
                  json.dumps({q: st.get(q) for q in ("mode", "dask", "params", "slots", "table", "range")})[:1200])
    else:
        print("case:", json.dumps({k: case.get(k) for k in ("mode", "dask", "params", "table", "range")})[:1500])
    print("implementation now returns:", json.dumps(obs)[:2500])
    if "crash" in obs or "driver_error" in obs:
        return 1
    core.ensure_lib(ctx, targets=["theories/Model/ParamSpace.vo"])
    try:
        gen = tr.translate(ctx.repo)
    except core.TranslationError as ex:
        print(f"translation failed ({ex}); the specification is evaluated for the FALLBACK source configuration")
        gen = tr.FALLBACK
    gd = ctx.build / "gen"
    gd.mkdir(parents=True, exist_ok=True)
    (gd / "Gen_C05.v").write_text(gen)
    core.coqc(ctx, gd / "Gen_C05.v", [(gd, "PyxelGen")])
    if "history" in case:
        if "history" not in obs or len(obs["history"]) != len(case["history"]):
            print("the history could not be run to its end")
            return 1
        ok, evals, se = core.coq_eval(ctx, "replay", emit_hist_file([list(zip(case["history"], obs["history"]))]))
        if ok:
            print("runs that break the specification for the configuration at that time:",
                  [i % 100 + 1 for i in core.parse_int_list(evals[1])])
    else:
        ok, evals, se = core.coq_eval(ctx, "replay", emit_file([(case, obs)]))
    bad = (not ok) or core.parse_int_list(evals[1]) != []
    print("specification (evaluated in Coq):", "VIOLATED" if bad else "holds")
    return 1 if bad else 0


META = dict(
    level_text=(
        "Coq theorems, for any number of parameters and any list lengths, over an executable model of ProductMode / "
        "SequentialMode / CustomMode, of the dimension-name rule as read from the source by a translator, of the "
        "coordinate attachment and of the merge: the product run list is the row-major Cartesian product (count, distinct "
        "and exhaustive index tuples, run n = mixed-radix digits of n, index i_k carries element i_k of list k), sequential "
        "runs are the configured defaults with one key replaced at a time, custom runs consume columns at prefix-sum "
        "offsets and are refused exactly on a width/column mismatch, disabled parameters never contribute; distinct swept "
        "keys get distinct, defined dimension names (as strings); after the merge every run is found under its own labels "
        "with its own data, nothing else is stored, and the merge fails exactly on equal labels with different data; for "
        "each mode the modelled observation as a whole runs and maps each run's labels to that run's data. Dask path: for "
        "every reordering of the levels the product cells are the requested runs, each once, each found under the label "
        "made of exactly its values; custom cells take the requested columns; whether sequential rows are the requested "
        "runs and a repeated value is accepted is decided by what the source does (both repaired under C07; full "
        "statements kept visible). Histories on ONE "
        "object: for every op sequence Run | Edit (configured value, parameter list, custom table, with_dask, mode) and "
        "every past of the object, run k does exactly what a new object configured like the object at that moment does "
        "(C05_history, by induction; the object's only state, Observation.parameter_types, is rebuilt on every run -- read "
        "from the source; a fail-closed syntactic net excludes any other state on the run path). That the hand-written "
        "loops of the model are what the code does, and that the returned DataTree stores each run's data under that "
        "run's labels, is established by correspondence (testing): real observations on both paths with a probe model "
        "that records what each run received, single runs and 2..3-run histories on one object edited in place; run list "
        "and complete label->data map of every run compared and judged inside Coq against the configuration at that time."),
    level_note=(
        "Trusted: Coq kernel + vm_compute; the translator (declarative parts only, fail-closed) and the hand-written model "
        "of the loops; the harness, driver and probe; itertools/zip/dict/pandas/xarray/dask semantics as modelled. The "
        "theorems about the whole observation are about the model; the tie to the implementation is testing. Assumes "
        "existing keys, enabled models, one readout time, fixed vector lengths, distinct keys in product/custom; dask "
        "only under the synchronous scheduler (C07 covers schedulers)."),
    technique="Coq proof over an executable Gallina model + source translator + in-Coq correspondence/specification "
              "evaluation on real observations (non-dask and dask path)",
    design_ref="DESIGN.md section 6, C05",
)
