"""C20 — input files are read and placed on the detector faithfully."""
from __future__ import annotations

import itertools
import json
import re

from .. import core
from ..core import Broken, Ctx, Violation

PROP_FILE = "Properties/C20.v"
ALIGNS = ["center", "top_left", "top_right", "bottom_left", "bottom_right"]
DELIMS = {"tab": ("\t", "DTab"), "space": (" ", "DSpace"), "comma": (",", "DComma"), "bar": ("|", "DBar"),
          "semicolon": (";", "DSemicolon")}
CH2D = {ch: coq for ch, coq in DELIMS.values()}

TRUSTED = [
    "translator/c20.py (Alignment members, the integer expressions of _set_relative_position, decorator + parameter "
    "list of load_cropped_and_aligned_image, the separator tuple of load_image; fails closed on any other shape)",
    "correspondence harness: harness/props/c20.py generators and text tokeniser, harness/drivers/c20.py",
    "modelled, not verified: np.intersect1d on ascending ranges = ordered intersection, numpy basic slicing and block "
    "assignment, int(a / 2) = truncation toward zero (exact for |a| < 2^53), functools.lru_cache = LRU map keyed by the "
    "argument list, np.loadtxt field splitting / blank stripping / float(); np.save, astropy.io.fits, pandas and "
    "csv.Sniffer are exercised (round trips) but not modelled",
]

# ------------------------------------------------------------------------------------------ emitters


def cmat(m) -> str:
    return core.clist(core.clist(core.cz(int(v)) for v in row) for row in m)


def cobs(o) -> str:
    return f"(Some {cmat(o['out'])})" if "out" in o else "None"


def calign(a) -> str:
    return "None" if a is None else f"(Some {core.cstr(a)})"


def emit_fit_case(c, o) -> str:
    return (f"{{| c_ay := {core.cz(c['ay'])}; c_ax := {core.cz(c['ax'])}; c_data := {cmat(c['data'])}; "
            f"c_oy := {core.cz(c['oy'])}; c_ox := {core.cz(c['ox'])}; "
            f"c_pos := ({core.cz(c['pos'][0])}, {core.cz(c['pos'][1])}); c_align := {calign(c['align'])}; "
            f"c_allow := {core.cbool(c['allow'])}; c_mult := {core.cz(c.get('mult', 1))}; c_obs := {cobs(o)} |}}")


HEAD = ("From Coq Require Import ZArith List String.\n"
        "From PyxelV Require Import Model.Placement Model.Memo Model.Delim.\n"
        "From PyxelGen Require Import Gen_C20.\nImport ListNotations.\nOpen Scope Z_scope.\n")


def emit_fit_file(pairs) -> str:
    body = ";\n  ".join(emit_fit_case(c, o) for c, o in pairs)
    return (HEAD + f"Definition cases : list fit_case := [\n  {body}\n].\n"
            "Eval vm_compute in Placement.mismatches src_align src_align_names cases.\n"
            "Eval vm_compute in Placement.violations cases.\n")


def emit_event(ev) -> str:
    if "w" in ev:
        return f"Write {core.cstr(ev['w'])} ({core.cz(ev['ay'])}, {core.cz(ev['ax'])}, {cmat(ev['data'])})"
    q = ev["l"]
    return (f"Load {{| q_shape := ({core.cz(q['shape'][0])}, {core.cz(q['shape'][1])}); q_file := {core.cstr(q['file'])}; "
            f"q_px := {core.cz(q['px'])}; q_py := {core.cz(q['py'])}; q_align := {calign(q['align'])}; "
            f"q_allow := {core.cbool(q['allow'])} |}}")


def emit_memo_file(pairs) -> str:
    body = ";\n  ".join(
        f"{{| m_hist := {core.clist(emit_event(e) for e in c['events'])}; "
        f"m_obs := {core.clist(cobs(r) for r in o['results'])} |}}" for c, o in pairs)
    return (HEAD + f"Definition cases : list memo_case := [\n  {body}\n].\n"
            "Eval vm_compute in memo_mismatches src_align src_align_names src_memoised src_memo_maxsize src_memo_key cases.\n"
            "Eval vm_compute in memo_violations cases.\n")


_TOK = re.compile(r"-?\d+|[\t ,|;]")


def tokenise(text: str):
    """Text -> list of lines of tokens; None if the text has anything but integers and the five separators."""
    lines = []
    for ln in text.split("\n"):
        pos, toks = 0, []
        for m in _TOK.finditer(ln):
            if m.start() != pos:
                return None
            pos = m.end()
            t = m.group(0)
            toks.append(f"Sep {CH2D[t]}" if t in CH2D else f"Num {core.cz(int(t))}")
        if pos != len(ln):
            return None
        lines.append(toks)
    if lines and lines[-1] == []:
        lines.pop()
    return lines


def emit_text_file(pairs) -> str:
    body = ";\n  ".join(
        f"{{| d_lines := {core.clist(core.clist(t) for t in tokenise(c['text']))}; d_obs := {cobs(o)} |}}"
        for c, o in pairs)
    return (HEAD + f"Definition cases : list delim_case := [\n  {body}\n].\n"
            "Eval vm_compute in delim_mismatches src_delims cases.\n")


def emit_rt_file(pairs) -> str:
    body = ";\n  ".join(f"{{| r_table := {cmat(c['table'])}; r_obs := {cobs(o)} |}}" for c, o in pairs)
    return (HEAD + f"Definition cases : list roundtrip_case := [\n  {body}\n].\n"
            "Eval vm_compute in roundtrip_violations cases.\n")


# ------------------------------------------------------------------------------------------ generators


def mk_data(r, ay, ax, positive=False):
    sgn = 1 if positive or r.random() < 0.7 else -1
    base = r.choice([1, 1, 10, 100])
    return [[sgn * (base + i * ax + j) for j in range(ax)] for i in range(ay)]


def fit_case(r, path="fit", malformed=False):
    ay, ax = r.randint(1, 6), r.randint(1, 6)
    oy, ox = r.randint(1, 6), r.randint(1, 6)
    if path == "fit" and r.random() < 0.04:
        if r.random() < 0.5:
            ay = 0
        else:
            ax = 0
    k = r.random()
    if k < 0.45:
        py, px = r.randint(-ay - 1, oy + 1), r.randint(-ax - 1, ox + 1)       # around both edges
    elif k < 0.6:
        py, px = r.choice([-ay, -ay + 1, oy - 1, oy]), r.choice([-ax, -ax + 1, ox - 1, ox])   # boundary of overlap
    elif k < 0.7:
        py, px = r.randint(-40, 40), r.randint(-40, 40)
    else:
        py, px = r.randint(-2, 2), r.randint(-2, 2)
    align = None
    if r.random() < 0.4:
        align = r.choice(ALIGNS)
    if malformed:
        align = r.choice(["", "middle", "Center", "top-left", "bottomleft"])
    allow = True if path in ("photon", "charge") else (r.random() < 0.75)
    mult = r.choice([1, 2, 4]) if path in ("photon", "charge") else 1
    return dict(kind="fit", path=path, ay=ay, ax=ax, data=mk_data(r, ay, ax, positive=path != "fit"),
                oy=oy, ox=ox, pos=[py, px], align=align, allow=allow, mult=mult)


def gen_fit_cases(ctx: Ctx):
    r = ctx.rng("fit")
    cases = []
    # every keyword x every size relation (smaller / equal / larger, odd and even differences), both settings
    for al in ALIGNS:
        for (ay, oy) in [(1, 4), (2, 5), (4, 1), (5, 2), (3, 3), (2, 4), (4, 2)]:
            for (ax, ox) in [(1, 4), (5, 2), (3, 3), (2, 5), (4, 2)]:
                cases.append(dict(kind="fit", path="fit", ay=ay, ax=ax, data=mk_data(r, ay, ax), oy=oy, ox=ox,
                                  pos=[r.randint(-3, 3), r.randint(-3, 3)], align=al, allow=True, mult=1))
    for _ in range(ctx.budget(1400, 6000)):
        cases.append(fit_case(r, "fit"))
    for _ in range(ctx.budget(60, 300)):
        cases.append(fit_case(r, "fit", malformed=True))
    for path, n in (("lcai", ctx.budget(150, 600)), ("photon", ctx.budget(120, 500)), ("charge", ctx.budget(120, 500))):
        for al in ALIGNS:
            c = fit_case(r, path)
            c["align"] = al
            cases.append(c)
        for _ in range(n):
            cases.append(fit_case(r, path))
    return cases


def exhaustive_fit_cases(n=4, off=5):
    """All input shapes x detector shapes <= n x n x all offsets -off..off (+ the five keywords)."""
    cases = []
    for ay, ax, oy, ox in itertools.product(range(1, n + 1), repeat=4):
        data = [[1 + i * ax + j for j in range(ax)] for i in range(ay)]
        for py in range(-off, off + 1):
            for px in range(-off, off + 1):
                cases.append(dict(kind="fit", path="fit", ay=ay, ax=ax, data=data, oy=oy, ox=ox, pos=[py, px],
                                  align=None, allow=True, mult=1))
        for al in ALIGNS:
            for allow in (True, False):
                cases.append(dict(kind="fit", path="fit", ay=ay, ax=ax, data=data, oy=oy, ox=ox, pos=[0, 0],
                                  align=al, allow=allow, mult=1))
    return cases


def mk_write(r, name, ay=None, ax=None):
    ay, ax = ay or r.randint(1, 3), ax or r.randint(1, 3)
    return dict(w=name, ay=ay, ax=ax, data=mk_data(r, ay, ax, positive=True))


def mk_load(r, name, shape=None):
    return dict(l=dict(shape=shape or [r.randint(1, 3), r.randint(1, 3)], file=name, px=r.randint(-1, 1),
                       py=r.randint(-1, 1), align=r.choice([None, None, "center", "bottom_left"]), allow=True))


def gen_memo_cases(ctx: Ctx):
    r = ctx.rng("memo")
    cases = []
    one = lambda v: dict(w="f.npy", ay=1, ax=1, data=[[v]])
    ld = dict(l=dict(shape=[1, 1], file="f.npy", px=0, py=0, align=None, allow=True))
    # the minimal history named by the property: rewrite a file between two loads of one process
    for via in ("lcai", "photon", "charge"):
        cases.append(dict(kind="memo", via=via, events=[one(1), ld, one(2), ld]))
        cases.append(dict(kind="memo", via=via, events=[one(1), one(2), ld, ld]))          # no rewrite after load
    cases.append(dict(kind="memo", via="lcai", events=[ld, one(1), ld]))                    # missing file first
    for _ in range(ctx.budget(60, 400)):
        names = ["a.npy", "b.npy", "c.npy"][: r.randint(1, 3)]
        ev, reqs = [], []
        for _ in range(r.randint(3, 9)):
            k = r.random()
            if k < 0.4:
                ev.append(mk_write(r, r.choice(names)))
            elif k < 0.7 and reqs:
                ev.append(r.choice(reqs))                      # the same request again (cache hit)
            else:
                q = mk_load(r, r.choice(names))
                reqs.append(q)
                ev.append(q)
        cases.append(dict(kind="memo", via=r.choice(["lcai", "lcai", "photon", "charge"]), events=ev))
    if not ctx.quick:
        # more distinct requests than the cache holds: the evicted entry is recomputed (fresh), the kept one is stale
        ev = [dict(w="e.npy", ay=1, ax=1, data=[[5]])]
        first = dict(l=dict(shape=[1, 1], file="e.npy", px=0, py=0, align=None, allow=True))
        ev.append(first)
        for k in range(1, 131):
            ev.append(dict(l=dict(shape=[1, k + 1], file="e.npy", px=0, py=0, align=None, allow=True)))
        ev.append(dict(w="e.npy", ay=1, ax=1, data=[[6]]))
        ev.append(first)
        ev.append(dict(l=dict(shape=[1, 131], file="e.npy", px=0, py=0, align=None, allow=True)))
        cases.append(dict(kind="memo", via="lcai", events=ev))
    return cases


def gen_roundtrip_cases(ctx: Ctx):
    r = ctx.rng("rt")
    cases = []
    shapes = [(1, 1), (1, 3), (3, 1), (2, 2), (3, 4), (5, 2)]
    combos = [("npy", None, "image"), ("fits", None, "image"), ("npy", None, "table"), ("fitstable", None, "table")]
    for d in DELIMS:
        combos += [("txt", d, "image"), ("data", d, "image"), ("txt", d, "table"), ("data", d, "table"),
                   ("csv", d, "table")]
    for fmt, d, loader in combos:
        for (ny, nx) in shapes:
            for _ in range(ctx.budget(1, 4)):
                t = [[r.randint(-999, 999) if r.random() < 0.8 else r.choice([0, 1, -1, 10 ** 6])
                      for _ in range(nx)] for _ in range(ny)]
                cases.append(dict(kind="roundtrip", fmt=fmt, delim=d, loader=loader, table=t))
    return cases


def gen_text_cases(ctx: Ctx):
    r = ctx.rng("text")
    cases = []
    fixed = ["1, 2\n3, 4\n", "1 ,2\n", "1 | 2\n", "1  2\n", "1,,2\n", " 1 2\n", "1 2 \n", "1\t 2\n", "1\n2\n",
             "1,2\n3\n", "\n1,2\n\n3,4\n", "1;2|3\n", "1\t2 3\n", "1 \t2\n", ",1\n", "1,\n", "1;2\n3;4", "7\n",
             "1|2\n3;4\n", "1 2\n3\t4\n", "-1;-2\n"]
    for t in fixed:
        cases.append(dict(kind="text", text=t, ext=r.choice([".txt", ".data"])))
    seps = [s for s, _ in DELIMS.values()]
    for _ in range(ctx.budget(150, 800)):
        ny, nx = r.randint(1, 4), r.randint(1, 4)
        d = r.choice(seps)
        rows = []
        for i in range(ny):
            n = nx if r.random() < 0.9 else r.randint(1, 4)                      # sometimes ragged
            parts = [str(r.randint(-50, 50)) for _ in range(n)]
            s = parts[0]
            for p in parts[1:]:
                k = r.random()
                sep = d if k < 0.85 else r.choice(seps)                         # sometimes a foreign separator
                if r.random() < 0.08:
                    sep = sep + " "                                             # blank after the separator
                s += sep + p
            rows.append(s)
        cases.append(dict(kind="text", text="\n".join(rows) + ("\n" if r.random() < 0.8 else ""),
                          ext=r.choice([".txt", ".data"])))
    return [c for c in cases if tokenise(c["text"]) is not None]


# ------------------------------------------------------------------------------------------ evaluation


def run_cases(ctx: Ctx, cases, tag):
    obs = core.run_driver(ctx, "c20", cases, workers=8)
    pairs = []
    for c, o in zip(cases, obs):
        if "crash" in o or "driver_error" in o:
            ctx.broken.append(Broken("correspondence", "implementation driver failed", str(o)[:600], c))
            continue
        pairs.append((c, o))
    return pairs


def eval_files(ctx: Ctx, pairs, emit, per, tag, n_evals):
    files = {f"{tag}_{k // per:04d}": emit(pairs[k:k + per]) for k in range(0, len(pairs), per)}
    res = core.coq_eval_many(ctx, files, timeout=900, par=8)
    outs = [[] for _ in range(n_evals)]
    for k, name in enumerate(sorted(files)):
        ok, evals, se = res[name]
        chunk = pairs[k * per:(k + 1) * per]
        if not ok or len(evals) != n_evals:
            ctx.broken.append(Broken("correspondence", f"case file {name}.v did not evaluate", core.tail(se, 15)))
            continue
        for j in range(n_evals):
            outs[j] += [chunk[i] for i in core.parse_int_list(evals[j])]
    return outs


def py_spec_fit(c):
    """Python mirror of spec_fit, used ONLY to classify/describe a violation already decided inside Coq."""
    ay, ax, oy, ox = c["ay"], c["ax"], c["oy"], c["ox"]
    py, px = c["pos"]
    al = c["align"]
    if al:
        if al not in ALIGNS:
            return None
        q = lambda a: int(a / 2)
        py, px = {"center": (q(oy - ay), q(ox - ax)), "top_left": (oy - ay, 0), "top_right": (oy - ay, ox - ax),
                  "bottom_left": (0, 0), "bottom_right": (0, ox - ax)}[al]
    if not c["allow"] and (ay < oy or ax < ox):
        return None
    if not (max(py, 0) < min(py + ay, oy) and max(px, 0) < min(px + ax, ox)):
        return None
    m = c.get("mult", 1)
    return [[m * c["data"][i - py][j - px] if 0 <= i - py < ay and 0 <= j - px < ax else 0 for j in range(ox)]
            for i in range(oy)]


def fit_violation(c, o) -> Violation:
    exp = py_spec_fit(c)
    if exp is None and "out" in o:
        kind = "accepts_input_that_must_be_refused"
    elif exp is not None and "out" not in o:
        kind = "refuses_valid_input"
    elif exp is not None and [len(o["out"]), len(o["out"][0]) if o["out"] else 0] != [c["oy"], c["ox"]]:
        kind = "wrong_shape"
    else:
        kind = "wrong_pixels"
    return Violation(clause="placement", case=c, observed=o, expected=exp if exp is not None else "ValueError",
                     what=f"{c['path']}: input {c['ay']}x{c['ax']} on detector {c['oy']}x{c['ox']} at "
                          f"{c['pos'] if not c['align'] else c['align']}: {kind}",
                     sig=dict(clause="placement", path=c["path"], kind=kind, keyword=bool(c["align"])))


def memo_cause(c):
    loaded, content = set(), {}
    for ev in c["events"]:
        if "w" in ev:
            new = (ev["ay"], ev["ax"], json.dumps(ev["data"]))
            if ev["w"] in loaded and content.get(ev["w"]) != new:
                return "rewritten_after_load"
            content[ev["w"]] = new
        else:
            loaded.add(ev["l"]["file"])
    return "other"


def memo_violation(c, o) -> Violation:
    cause = memo_cause(c)
    return Violation(clause="fresh_content", case=c, observed=o, expected="every load returns the file's current content",
                     what=f"history of {len(c['events'])} events via {c.get('via')}: a load returned an earlier version "
                          f"of the file ({cause})",
                     sig=dict(clause="fresh_content", cause=cause))


def run(ctx: Ctx):
    from translator import c20 as tr

    ctx.trusted += TRUSTED
    ctx.assumptions += [
        "2-D inputs; integer pixel values (exact in float64); shapes and offsets are Python ints",
        "text files contain integers and the five separator characters only (numbers are atomic tokens)",
        "one process, one thread; the files are local paths (fsspec cache option off, its default)",
    ]
    gen = {}
    try:
        gen["Gen_C20.v"] = tr.translate(ctx.repo)
    except core.TranslationError as ex:
        ctx.broken.append(Broken("translation", "pyxel/util/image.py / pyxel/inputs/loader.py", str(ex)))
        ctx.log("translation failed:", ex)
        gen["Gen_C20.v"] = tr.FALLBACK
    core.proof_leg(ctx, gen, PROP_FILE)
    explore(ctx, deep=False)
    if ctx.broken and not new_violations(ctx):
        ctx.log("searching for a concrete failing input (exhaustive small scope)")
        explore(ctx, deep=True)


def explore(ctx: Ctx, deep: bool):
    # ---- placement
    if deep:
        fit_cases = exhaustive_fit_cases(3, 4)
    else:
        fit_cases = gen_fit_cases(ctx)
        if not ctx.quick:
            fit_cases += exhaustive_fit_cases(4, 5)
            ctx.cov["exhaustive"] = "fit_into_array: all input/detector shapes <= 4x4 x offsets -5..5 + 5 keywords x allow"
    tag = "s" if deep else "c"
    pairs = run_cases(ctx, fit_cases, tag)
    mism, viol = eval_files(ctx, pairs, emit_fit_file, 400, tag + "fit", 2)
    seen = set()
    for c, o in pairs:
        ctx.count("evaluations")
        ctx.dist("fit_path", c["path"])
        ctx.dist("fit_outcome", "placed" if "out" in o else "refused")
        ctx.dist("align", c["align"] if c["align"] is not None else "offset")
        exp = py_spec_fit(c)
        full = exp is not None and c["pos"] == [0, 0] and (c["ay"], c["ax"]) == (c["oy"], c["ox"])
        if not full:
            seen.add(json.dumps([c[k] for k in ("path", "ay", "ax", "oy", "ox", "pos", "align", "allow")]))
    for c, o in viol:
        ctx.violations.append(fit_violation(c, o))
    for c, o in mism:
        ctx.broken.append(Broken("correspondence", "Model/Placement.v vs implementation",
                                 f"{c['path']} {c['ay']}x{c['ax']} -> {c['oy']}x{c['ox']} pos={c['pos']} align={c['align']}",
                                 dict(case=c, observed=o)))
    for c, o in pairs[:2]:
        ctx.sample(dict(case=c, observed=o))
    n_traces = len(pairs)
    n_dis = len(mism)

    # ---- memoisation histories
    memo_cases = gen_memo_cases(ctx)
    mpairs = run_cases(ctx, memo_cases, tag)
    mm, mv = eval_files(ctx, mpairs, emit_memo_file, 40, tag + "memo", 2)
    for c, o in mpairs:
        ctx.count("evaluations", len(c["events"]))
        ctx.dist("memo_via", c.get("via"))
        ctx.dist("memo_cause", memo_cause(c))
        seen.add("memo" + json.dumps(c["events"]))
    mv.sort(key=lambda co: len(co[0]["events"]))
    for c, o in mv[:1] + [x for x in mv[1:] if memo_cause(x[0]) == "other"]:
        ctx.violations.append(memo_violation(c, o))
    ctx.cov["memo_histories_violating"] = ctx.cov.get("memo_histories_violating", 0) + len(mv)
    for c, o in mm:
        ctx.broken.append(Broken("correspondence", "Model/Memo.v vs implementation",
                                 f"history of {len(c['events'])} events via {c.get('via')}", dict(case=c, observed=o)))
    if mpairs:
        ctx.sample(dict(case=mpairs[0][0], observed=mpairs[0][1]))
    n_traces += len(mpairs)
    n_dis += len(mm)

    # ---- formats and delimiters
    rt_cases = gen_roundtrip_cases(ctx)
    rpairs = run_cases(ctx, rt_cases, tag)
    (rv,) = eval_files(ctx, rpairs, emit_rt_file, 300, tag + "rt", 1)
    for c, o in rpairs:
        ctx.count("evaluations")
        ctx.dist("format", f"{c['fmt']}/{c['delim']}/{c['loader']}")
        seen.add("rt" + json.dumps([c["fmt"], c["delim"], c["loader"], c["table"]]))
    for c, o in rv:
        ctx.violations.append(Violation(
            clause="roundtrip", case=c, observed=o, expected=c["table"],
            what=f"{c['fmt']} delimiter={c['delim']} loader={c['loader']}: table {len(c['table'])}x{len(c['table'][0])} "
                 "is not read back with the same shape and values",
            sig=dict(clause="roundtrip", fmt=c["fmt"], delim=c["delim"], loader=c["loader"],
                     shape=f"{len(c['table'])}x{len(c['table'][0])}")))
    tx_cases = gen_text_cases(ctx)
    tpairs = run_cases(ctx, tx_cases, tag)
    (tm,) = eval_files(ctx, tpairs, emit_text_file, 300, tag + "txt", 1)
    for c, o in tpairs:
        ctx.count("evaluations")
        ctx.dist("text_outcome", "parsed" if "out" in o else "refused")
        seen.add("tx" + c["text"])
    for c, o in tm:
        ctx.broken.append(Broken("correspondence", "Model/Delim.v vs implementation (load_image on text)",
                                 repr(c["text"])[:200], dict(case=c, observed=o)))
    n_traces += len(rpairs) + len(tpairs)
    n_dis += len(tm)

    ctx.cov["distinct_nontrivial"] = ctx.cov.get("distinct_nontrivial", 0) + len(seen)
    ctx.cov["rule"] = ("placement: distinct (entry point, shapes, offset/keyword, allow) except the trivial full-cover "
                       "case (same shape, offset 0); histories: distinct event lists (all contain >= 1 load); round "
                       "trips: distinct (format, delimiter, loader, table); texts: distinct file contents")
    ctx.cov["traces_validated_against_impl"] = ctx.cov.get("traces_validated_against_impl", 0) + n_traces
    ctx.cov["disagreements_checked"] = ctx.cov.get("disagreements_checked", 0) + n_dis


def new_violations(ctx: Ctx):
    fs = core.load_findings(ctx.prop)
    return [v for v in ctx.violations if not any(core.finding_matches(e, v) for e in fs)]


def replay(ctx: Ctx, rp: dict) -> int:
    case = rp.get("case")
    if rp.get("kind") != "input" or not case:
        print(f"replay names a {rp.get('kind')} that no longer checks: {rp.get('no_longer_checks')}")
        print(rp.get("detail", ""))
        return 1
    from translator import c20 as tr

    obs = core.run_driver(ctx, "c20", [case], workers=1)[0]
    print("case:", json.dumps(case)[:1500])
    print("implementation now returns:", json.dumps(obs)[:1500])
    if "crash" in obs or "driver_error" in obs:
        return 1
    gen = ctx.build / "gen"
    gen.mkdir(parents=True, exist_ok=True)
    try:
        text = tr.translate(ctx.repo)
    except core.TranslationError:
        text = tr.FALLBACK
    (gen / "Gen_C20.v").write_text(text)
    core.ensure_lib(ctx, targets=core.lib_targets_of([text]))
    core.coqc(ctx, gen / "Gen_C20.v", [(gen, "PyxelGen")])
    kind = case["kind"]
    if kind == "fit":
        ok, evals, se = core.coq_eval(ctx, "replay", emit_fit_file([(case, obs)]))
        bad = (not ok) or core.parse_int_list(evals[1]) != []
    elif kind == "memo":
        ok, evals, se = core.coq_eval(ctx, "replay", emit_memo_file([(case, obs)]))
        bad = (not ok) or core.parse_int_list(evals[1]) != []
    elif kind == "roundtrip":
        ok, evals, se = core.coq_eval(ctx, "replay", emit_rt_file([(case, obs)]))
        bad = (not ok) or core.parse_int_list(evals[0]) != []
    else:
        ok, evals, se = core.coq_eval(ctx, "replay", emit_text_file([(case, obs)]))
        bad = (not ok) or core.parse_int_list(evals[0]) != []
    print("specification (evaluated in Coq):", "VIOLATED" if bad else "holds")
    return 1 if bad else 0


META = dict(
    level_text=(
        "Coq theorems, closed under the global context: (1) fit_into_array modelled exactly as coded (coordinate ranges, "
        "intersect1d, first/last, two Python slices, block assignment into zeros) places, for ALL input shapes and "
        "contents, detector shapes, offsets and the five keywords, out[i][j] = in[i-py][j-px] where the input reaches and "
        "0 elsewhere, refuses exactly the non-overlapping inputs (and the smaller ones when disallowed); the keyword "
        "expressions and keyword strings are regenerated from the source on every run and proved equal to their "
        "documented meaning; (2) the lru_cache history model: the full freshness statement is REFUTED with a proved "
        "witness (key ignores file content), the restriction 'no file rewritten after it was loaded' is proved for all "
        "histories and cache sizes; (3) first-success delimiter detection reads back every rectangular table written "
        "with any tried separator, for the separator order regenerated from the source. The models are tied to the code "
        "by evaluating them inside Coq against the real fit_into_array, load_cropped_and_aligned_image, the load_image / "
        "load_charge models writing into photon / charge, and load_image on text files; NPY/FITS/text round trips through "
        "load_image and load_table are judged against 'same shape and values' (that part is testing, not proof)."),
    level_note=(
        "Trusted: Coq kernel + vm_compute; translator/c20.py; the correspondence harness and text tokeniser. Modelled, "
        "not verified: numpy slicing/intersect1d/loadtxt, functools.lru_cache, int(a/2) as truncation. Not modelled "
        "(round-trip tested only): np.save/np.load, astropy FITS, pandas readers, csv.Sniffer. Assumes 2-D integer-valued "
        "inputs, local files, one process and thread."),
    technique="Coq proof (lia index arithmetic over list models, history induction) + regenerated tables + in-Coq "
              "correspondence/spec evaluation",
    design_ref="DESIGN.md section 6, C20",
)
