"""C20 — input files are read and placed on the detector faithfully."""
from __future__ import annotations

import itertools
import json
import re
from fractions import Fraction

from .. import core
from ..core import Broken, Ctx, Violation

PROP_FILE = "Properties/C20.v"
ALIGNS = ["center", "top_left", "top_right", "bottom_left", "bottom_right"]
DELIMS = {"tab": ("\t", "DTab"), "space": (" ", "DSpace"), "comma": (",", "DComma"), "bar": ("|", "DBar"),
          "semicolon": (";", "DSemicolon")}
CH2D = {ch: coq for ch, coq in DELIMS.values()}

TRUSTED = [
    "translator/c20.py (Alignment members; the pair of integer expressions _set_relative_position returns for each "
    "member, found by partial evaluation of its body per member — if/elif, guard clauses, inverted / `in` tests, match, "
    "dispatch dicts, conditional expressions, local aliases, inlined private helpers, renamed parameters followed to the "
    "call in fit_into_array; decorator + parameter list of load_cropped_and_aligned_image; the separators of the one "
    "loop around np.loadtxt(delimiter=<loop variable>) in load_image or a private helper it calls, the list resolved "
    "through local / module-level names bound once and helper parameters; everything that could keep state between two "
    "calls in loader.py / image.py / the two loading models: caching decorators, module-level containers mutated in "
    "functions, mutable defaults, function attributes; the call sites of the two loading models read by an abstract "
    "evaluation of the default path with private helpers inlined; fails closed on any other shape)",
    "correspondence harness: harness/props/c20.py generators and text tokeniser, harness/drivers/c20.py (independent "
    "writers numpy.save / numpy.savetxt / astropy writeto / PIL / openpyxl; os.utime to give a rewritten file a chosen, "
    "different modification time)",
    "modelled, not verified: np.intersect1d on ascending ranges = ordered intersection, numpy basic slicing and block "
    "assignment, int(a / 2) = truncation toward zero (exact for |a| < 2^53), np.loadtxt field splitting / blank stripping "
    "/ float(); functools.lru_cache = LRU map keyed by the argument list (only used when the decorator is present: the "
    "failing-input search and C20_memo_on_arguments_goes_stale); np.save/np.load, astropy.io.fits, PIL, pandas readers "
    "and csv.Sniffer are exercised (round trips, histories) but not modelled",
]

# ------------------------------------------------------------------------------------------ emitters


def cmat(m) -> str:
    return core.clist(core.clist(core.cz(int(v)) for v in row) for row in m)


def cobs(o) -> str:
    return f"(Some {cmat(o['out'])})" if "out" in o else "None"


def calign(a) -> str:
    return "None" if a is None else f"(Some {core.cstr(a)})"


def eff_mult(c) -> int:
    """The exact integer factor the entry point applies: time_step / time_scale * multiplier (1 for fit / lcai)."""
    if "tm" in c:
        step, tscale, mult = c["tm"]
        f = Fraction(step) / Fraction(tscale) * Fraction(mult)
        assert f.denominator == 1, c
        return int(f)
    return c.get("mult", 1)


def emit_fit_case(c, o) -> str:
    return (f"{{| c_ay := {core.cz(c['ay'])}; c_ax := {core.cz(c['ax'])}; c_data := {cmat(c['data'])}; "
            f"c_oy := {core.cz(c['oy'])}; c_ox := {core.cz(c['ox'])}; "
            f"c_pos := ({core.cz(c['pos'][0])}, {core.cz(c['pos'][1])}); c_align := {calign(c['align'])}; "
            f"c_allow := {core.cbool(c['allow'])}; c_mult := {core.cz(eff_mult(c))}; c_obs := {cobs(o)} |}}")


HEAD = ("From Coq Require Import ZArith List String.\n"
        "From PyxelV Require Import Model.Placement Model.Memo Model.Delim.\n"
        "From PyxelGen Require Import Gen_C20.\nImport ListNotations.\nOpen Scope Z_scope.\n")


def emit_fit_file(pairs) -> str:
    body = ";\n  ".join(emit_fit_case(c, o) for c, o in pairs)
    return (HEAD + f"Definition cases : list fit_case := [\n  {body}\n].\n"
            "Eval vm_compute in Placement.mismatches src_align src_align_names cases.\n"
            "Eval vm_compute in Placement.violations cases.\n")


def emit_event(ev) -> str:
    if "w" in ev:
        return f"Write {core.cstr(ev['w'])} ({core.cz(ev['ay'])}, {core.cz(ev['ax'])}, {cmat(ev['data'])})"
    if "r" in ev:
        return f"LoadRaw {core.cstr(ev['r'])}"
    q = ev["l"]
    return (f"Load {{| q_shape := ({core.cz(q['shape'][0])}, {core.cz(q['shape'][1])}); q_file := {core.cstr(q['file'])}; "
            f"q_px := {core.cz(q['px'])}; q_py := {core.cz(q['py'])}; q_align := {calign(q['align'])}; "
            f"q_allow := {core.cbool(q['allow'])} |}}")


def emit_memo_file(pairs) -> str:
    body = ";\n  ".join(
        f"{{| m_hist := {core.clist(emit_event(e) for e in c['events'])}; "
        f"m_obs := {core.clist(cobs(r) for r in o['results'])} |}}" for c, o in pairs)
    return (HEAD + f"Definition cases : list memo_case := [\n  {body}\n].\n"
            "Eval vm_compute in memo_mismatches src_align src_align_names src_memoised src_memo_maxsize src_memo_key cases.\n"
            "Eval vm_compute in memo_violations cases.\n")


_TOK = re.compile(r"-?\d+|[\t ,|;]")


def tokenise(text: str):
    """Text -> list of lines of tokens; None if the text has anything but integers and the five separators."""
    lines = []
    for ln in text.split("\n"):
        pos, toks = 0, []
        for m in _TOK.finditer(ln):
            if m.start() != pos:
                return None
            pos = m.end()
            t = m.group(0)
            toks.append(f"Sep {CH2D[t]}" if t in CH2D else f"Num {core.cz(int(t))}")
        if pos != len(ln):
            return None
        lines.append(toks)
    if lines and lines[-1] == []:
        lines.pop()
    return lines


def emit_text_file(pairs) -> str:
    body = ";\n  ".join(
        f"{{| d_lines := {core.clist(core.clist(t) for t in tokenise(c['text']))}; d_obs := {cobs(o)} |}}"
        for c, o in pairs)
    return (HEAD + f"Definition cases : list delim_case := [\n  {body}\n].\n"
            "Eval vm_compute in delim_mismatches src_delims cases.\n")


def emit_rt_file(pairs) -> str:
    body = ";\n  ".join(f"{{| r_table := {cmat(rt_table_of(c))}; r_obs := {cobs(rt_obs_of(c, o))} |}}" for c, o in pairs)
    return (HEAD + f"Definition cases : list roundtrip_case := [\n  {body}\n].\n"
            "Eval vm_compute in roundtrip_violations cases.\n")


# ------------------------------------------------------------------------------------------ generators

LOADER_PATHS = ("lcai", "lcai_pos", "photon", "charge")
PIPE_PATHS = ("pipe_photon", "pipe_charge")
# (time_step, time_scale, multiplier) triples of the loading models whose factor step / scale * mult is an integer
TMS = [(1, 1, 1), (1, 1, 2), (1, 0.5, 1), (2, 1, 1), (2, 2, 1), (4, 2, 2), (2, 0.5, 1), (1, 0.25, 4), (4, 1, 1), (4, 4, 2)]
# size relations along one axis: (input, detector) — smaller / equal / larger, odd and even differences
REL = [(1, 4), (2, 5), (4, 1), (5, 2), (3, 3), (2, 4), (4, 2), (1, 2), (2, 1), (7, 2), (2, 7)]


def mk_data(r, ay, ax, positive=False):
    sgn = 1 if positive or r.random() < 0.7 else -1
    base = r.choice([1, 1, 10, 100])
    return [[sgn * (base + i * ax + j) for j in range(ax)] for i in range(ay)]


def dress(r, c):
    """Entry-point specific fields: value scale / dtype, file format, time factors, str or Path."""
    path = c["path"]
    c["scale"] = r.choice([1, 1, 4])
    if c["scale"] == 1 and r.random() < 0.3:
        neg = any(v < 0 for row in c["data"] for v in row)
        c["dtype"] = r.choice(["int64", "float32", "int32"] if neg else ["int64", "float32", "uint16", "uint8", "int32"])
    if path == "fit":
        return c
    c["ext"] = r.choice([".npy", ".npy", ".fits", ".txt", ".data"])
    if (c["scale"] == 1 and c.get("dtype") in (None, "uint8") and r.random() < 0.25
            and all(0 <= v <= 255 for row in c["data"] for v in row)):
        c["ext"] = r.choice([".png", ".bmp", ".tiff", ".tif"])        # 8-bit grey-level pictures through PIL
    c["as_path"] = r.random() < 0.3
    if path in ("lcai", "lcai_pos"):
        return c
    c["allow"] = True
    step, tscale, mult = r.choice(TMS)
    if "charge" in path:
        step, tscale, mult = (step, tscale, 1)
        if Fraction(step) / Fraction(tscale) != int(Fraction(step) / Fraction(tscale)):
            step, tscale = 2, 1
    c["tm"] = [step, tscale, mult]
    return c


def fit_case(r, path="fit", malformed=False):
    big = r.random() < 0.08
    hi = 11 if big else 6
    ay, ax = r.randint(1, hi), r.randint(1, hi)
    oy, ox = r.randint(1, hi), r.randint(1, hi)
    if path == "fit" and r.random() < 0.04:
        if r.random() < 0.5:
            ay = 0
        else:
            ax = 0
    k = r.random()
    if k < 0.45:
        py, px = r.randint(-ay - 1, oy + 1), r.randint(-ax - 1, ox + 1)       # around both edges
    elif k < 0.6:
        py, px = r.choice([-ay, -ay + 1, oy - 1, oy]), r.choice([-ax, -ax + 1, ox - 1, ox])   # boundary of overlap
    elif k < 0.7:
        py, px = r.randint(-40, 40), r.randint(-40, 40)
    else:
        py, px = r.randint(-2, 2), r.randint(-2, 2)
    align = None
    if r.random() < 0.4:
        align = r.choice(ALIGNS)
    if malformed:
        align = r.choice(["", "middle", "Center", "top-left", "bottomleft", "centre", "top_left ", "TOP_RIGHT"])
    allow = r.random() < 0.75
    c = dict(kind="fit", path=path, ay=ay, ax=ax, data=mk_data(r, ay, ax, positive=path not in ("fit", "lcai", "lcai_pos")),
             oy=oy, ox=ox, pos=[py, px], align=align, allow=allow, mult=1)
    return dress(r, c) if ay and ax else c


def grid_case(r, path, al, rel_y, rel_x, allow=True):
    (ay, oy), (ax, ox) = rel_y, rel_x
    c = dict(kind="fit", path=path, ay=ay, ax=ax, data=mk_data(r, ay, ax, positive=path != "fit"), oy=oy, ox=ox,
             pos=[r.randint(-3, 3), r.randint(-3, 3)], align=al, allow=allow, mult=1)
    return dress(r, c)


def gen_fit_cases(ctx: Ctx):
    r = ctx.rng("fit")
    cases = []
    # every keyword x every size relation per axis (smaller / equal / larger, odd and even differences, one axis only)
    for al in ALIGNS:
        for ry in REL[:7]:
            for rx in REL[:7]:
                cases.append(grid_case(r, "fit", al, ry, rx))
    for _ in range(ctx.budget(1300, 6000)):
        cases.append(fit_case(r, "fit"))
    for _ in range(ctx.budget(60, 300)):
        cases.append(fit_case(r, "fit", malformed=True))
    for path, n in (("lcai", ctx.budget(130, 600)), ("lcai_pos", ctx.budget(40, 200)), ("photon", ctx.budget(110, 500)),
                    ("charge", ctx.budget(110, 500)), ("pipe_photon", ctx.budget(10, 60)), ("pipe_charge", ctx.budget(10, 60))):
        # the keyword grid through every entry point: each keyword with odd and even differences in both directions
        grid = [(al, ry, rx) for al in ALIGNS for ry in REL for rx in REL]
        r.shuffle(grid)
        per_kw = {al: 0 for al in ALIGNS}
        want = ctx.budget(8, 30) if path not in PIPE_PATHS else 1
        for al, ry, rx in grid:
            if per_kw[al] < want:
                per_kw[al] += 1
                cases.append(grid_case(r, path, al, ry, rx))
        for _ in range(n):
            cases.append(fit_case(r, path))
        if path in ("lcai", "photon"):
            for _ in range(ctx.budget(6, 30)):
                cases.append(fit_case(r, path, malformed=True))
    return cases


def gen_step_cases(ctx: Ctx):
    """One Exposure run with several readouts: the loading model is run once per readout with that readout's time_step."""
    r = ctx.rng("steps")
    cases = []
    for _ in range(ctx.budget(8, 40)):
        c = fit_case(r, r.choice(PIPE_PATHS))
        c.pop("tm", None)
        c.update(kind="steps", allow=True, tscale=r.choice([1, 0.5, 0.25]), mult=r.choice([1, 2]) if c["path"] == "pipe_photon" else 1,
                 times=r.choice([[1, 3, 7], [2, 4], [1, 2, 4, 8], [4, 5]]))
        cases.append(c)
    return cases


def step_factors(c):
    ts, prev = [], 0
    for t in c["times"]:
        ts.append(t - prev)
        prev = t
    return [int(Fraction(st) / Fraction(c["tscale"]) * c["mult"]) for st in ts]


def expand_steps(pairs):
    """A `steps` case is judged as one placement case per readout (factor = that readout's time_step / time_scale)."""
    out = []
    for c, o in pairs:
        for k, f in enumerate(step_factors(c)):
            ck = dict(c, mult=f, step_index=k)
            ck.pop("tm", None)
            out.append((ck, o["steps"][k] if k < len(o.get("steps", [])) else {"raise": "missing"}, (c, o)))
    return out


def exhaustive_fit_cases(n=4, off=5):
    """All input shapes x detector shapes <= n x n x all offsets -off..off (+ the five keywords)."""
    cases = []
    for ay, ax, oy, ox in itertools.product(range(1, n + 1), repeat=4):
        data = [[1 + i * ax + j for j in range(ax)] for i in range(ay)]
        for py in range(-off, off + 1):
            for px in range(-off, off + 1):
                cases.append(dict(kind="fit", path="fit", ay=ay, ax=ax, data=data, oy=oy, ox=ox, pos=[py, px],
                                  align=None, allow=True, mult=1))
        for al in ALIGNS:
            for allow in (True, False):
                cases.append(dict(kind="fit", path="fit", ay=ay, ax=ax, data=data, oy=oy, ox=ox, pos=[0, 0],
                                  align=al, allow=allow, mult=1))
    return cases


def exhaustive_align_cases(n=7):
    """Every keyword x all input / detector sizes <= n per axis (every odd / even difference in both directions),
    through fit_into_array; the other axis takes a size from the same sweep so both axes are exercised."""
    cases = []
    for al in ALIGNS:
        for ay, oy in itertools.product(range(1, n + 1), repeat=2):
            ax, ox = oy, ay            # the mirrored relation on the other axis
            data = [[1 + i * ax + j for j in range(ax)] for i in range(ay)]
            cases.append(dict(kind="fit", path="fit", ay=ay, ax=ax, data=data, oy=oy, ox=ox, pos=[0, 0], align=al,
                              allow=True, mult=1))
    return cases


# ---- histories

RAW_VIAS = ("image", "table", "psf")
EXTS = (".npy", ".fits", ".txt", ".data")
# modification-time offsets (ms) of a rewrite relative to the previous version of the file: within the same second,
# the next second, far later, and an OLDER time stamp (a file replaced by a copy that keeps its old date)
DTS = (1, 400, 1500, 90000, -5000)


def W(name, data, dt=None):
    return dict(w=name, ay=len(data), ax=len(data[0]) if data else 0, data=data, dt=dt)


def L(name, shape, py=0, px=0, align=None, allow=True, as_path=False):
    q = dict(shape=list(shape), file=name, px=px, py=py, align=align, allow=allow)
    if as_path:
        q["as_path"] = True
    return dict(l=q)


def R(name, via, as_path=False):
    ev = dict(r=name, via=via)
    if as_path:
        ev["as_path"] = True
    return ev


def raw_ok(name, via):
    ext = name[name.rfind("."):]
    if via == "table":
        return ext in (".npy", ".txt", ".data", ".csv")
    return ext in EXTS


def mk_write(r, name, ay=None, ax=None, dt=None):
    ay, ax = ay or r.randint(1, 3), ax or r.randint(1, 3)
    return dict(w=name, ay=ay, ax=ax, data=mk_data(r, ay, ax, positive=True), dt=dt)


def mk_load(r, name, shape=None):
    return dict(l=dict(shape=shape or [r.randint(1, 3), r.randint(1, 3)], file=name, px=r.randint(-1, 1),
                       py=r.randint(-1, 1), align=r.choice([None, None, "center", "bottom_left"]), allow=True))


def targeted_memo_cases(ctx: Ctx):
    """Minimal histories: a file is rewritten between two loads — same size in bytes or not, within the same second or
    later or with an older time stamp, through every entry point and file format; the second load repeats the first
    request or is a new one."""
    r = ctx.rng("memo-targeted")
    cases = []
    a1, a2 = [[1, 2], [3, 4]], [[8, 7], [6, 5]]
    b3 = [[9, 9, 9]]
    k = 0
    for via in LOADER_PATHS + ("pipe_photon",):
        exts = EXTS if via != "pipe_photon" else (".npy",)
        for ext in exts:
            f = "f" + ext
            for dt in DTS if via != "pipe_photon" else (400,):
                k += 1
                if not ctx.quick or via == "lcai" or (k % 3 == ctx.seed % 3):
                    ap = (k % 4 == 0)
                    cases.append(dict(kind="memo", via=via, events=[W(f, a1, 0), L(f, (2, 2), as_path=ap), W(f, a2, dt), L(f, (2, 2), as_path=ap)]))
            # the load after the rewrite is a NEW request (other detector shape / offset)
            cases.append(dict(kind="memo", via=via, events=[W(f, a1, 0), L(f, (2, 2)), W(f, a2, 400), L(f, (2, 3), px=1)]))
            # the size in bytes changes
            cases.append(dict(kind="memo", via=via, events=[W(f, a1, 0), L(f, (2, 2)), W(f, b3, 1), L(f, (2, 2))]))
        # nothing rewritten after the load: written twice before, loaded twice
        cases.append(dict(kind="memo", via=via, events=[W("g.npy", a1, 0), W("g.npy", a2, 1), L("g.npy", (2, 2)), L("g.npy", (2, 2))]))
    for via in RAW_VIAS:
        for ext in EXTS:
            f = "f" + ext
            if not raw_ok(f, via):
                continue
            for dt in DTS:
                k += 1
                ap = (k % 3 == 0)
                cases.append(dict(kind="memo", via="lcai", events=[W(f, a1, 0), R(f, via, ap), W(f, a2, dt), R(f, via, ap)]))
            cases.append(dict(kind="memo", via="lcai", events=[W(f, a1, 0), R(f, via), W(f, b3, 1), R(f, via)]))
            # written, read directly, rewritten, then placed on a detector (and the other way round)
            cases.append(dict(kind="memo", via=r.choice(LOADER_PATHS), events=[W(f, a1, 0), R(f, via), W(f, a2, 400), L(f, (2, 2))]))
            cases.append(dict(kind="memo", via=r.choice(LOADER_PATHS), events=[W(f, a1, 0), L(f, (2, 2)), W(f, a2, 400), R(f, via)]))
    # two paths, one rewritten: the other must not change; more files than a small cache would hold
    many = []
    for i in range(20):
        many += [W(f"m{i}.npy", [[i + 1]], 0), R(f"m{i}.npy", "image")]
    many += [W("m0.npy", [[77]], 400), R("m0.npy", "image"), R("m19.npy", "image"), L("m0.npy", (1, 1))]
    cases.append(dict(kind="memo", via="lcai", events=many))
    one = lambda v: W("f.npy", [[v]])
    ld = L("f.npy", (1, 1))
    for via in ("lcai", "photon", "charge"):
        cases.append(dict(kind="memo", via=via, events=[one(1), ld, one(2), ld]))      # natural time stamps
    cases.append(dict(kind="memo", via="lcai", events=[ld, one(1), ld]))                # missing file first
    cases.append(dict(kind="memo", via="lcai", events=[R("f.npy", "image"), one(1), R("f.npy", "image")]))
    for c in cases:
        c["scale"] = 1
    return cases


def gen_memo_cases(ctx: Ctx):
    r = ctx.rng("memo")
    cases = targeted_memo_cases(ctx)
    for _ in range(ctx.budget(70, 400)):
        names = [r.choice(["a", "b", "c"]) + r.choice(EXTS) for _ in range(r.randint(1, 3))]
        ev, reqs, clock = [], [], {}
        stamped = r.random() < 0.7
        via = r.choice(["lcai", "lcai", "lcai_pos", "photon", "charge"])
        for _ in range(r.randint(3, 9)):
            k = r.random()
            if k < 0.4:
                n = r.choice(names)
                dt = None
                if stamped:
                    step = r.choice(DTS)
                    dt = clock.get(n, 0) + step
                    while dt in [e.get("dt") for e in ev if e.get("w") == n]:       # never the same stamp twice
                        dt += 1
                    clock[n] = dt
                same = [e for e in ev if e.get("w") == n]
                if same and r.random() < 0.6:                                       # same shape = same size in bytes
                    ev.append(mk_write(r, n, same[-1]["ay"], same[-1]["ax"], dt=dt))
                else:
                    ev.append(mk_write(r, n, dt=dt))
            elif k < 0.6 and reqs:
                ev.append(r.choice(reqs))                      # the same request again
            elif k < 0.8:
                n = r.choice(names)
                vias = [v for v in RAW_VIAS if raw_ok(n, v)]
                ev.append(R(n, r.choice(vias), as_path=r.random() < 0.3))
            else:
                q = mk_load(r, r.choice(names))
                reqs.append(q)
                ev.append(q)
        if not any("l" in e or "r" in e for e in ev):
            ev.append(mk_load(r, names[0]))
        cases.append(dict(kind="memo", via=via, events=ev, scale=r.choice([1, 4])))
    if not ctx.quick:
        # more distinct requests than a 128-entry cache holds
        ev = [W("e.npy", [[5]], 0)]
        first = L("e.npy", (1, 1))
        ev.append(first)
        for k in range(1, 131):
            ev.append(L("e.npy", (1, k + 1)))
        ev.append(W("e.npy", [[6]], 400))
        ev.append(first)
        ev.append(L("e.npy", (1, 131)))
        cases.append(dict(kind="memo", via="lcai", events=ev, scale=1))
    return cases


# ---- formats

def rt_table(r, ny, nx, lo=-999, hi=999, specials=(0, 1, -1, 10 ** 6, 2 ** 24 + 1, 2 ** 31 + 1, -(2 ** 31) - 1, 2 ** 53 - 1)):
    return [[r.randint(lo, hi) if r.random() < 0.8 else r.choice(specials) for _ in range(nx)] for _ in range(ny)]


def gen_roundtrip_cases(ctx: Ctx):
    r = ctx.rng("rt")
    cases = []
    shapes = [(1, 1), (1, 3), (3, 1), (2, 2), (3, 4), (5, 2), (2, 7)]
    combos = [("npy", None, "image"), ("fits", None, "image"), ("npy", None, "table"), ("fitstable", None, "table")]
    for d in DELIMS:
        combos += [("txt", d, "image"), ("data", d, "image"), ("txt", d, "table"), ("data", d, "table"),
                   ("csv", d, "table")]
    for fmt, d, loader in combos:
        for (ny, nx) in shapes:
            for _ in range(ctx.budget(1, 4)):
                c = dict(kind="roundtrip", fmt=fmt, delim=d, loader=loader, table=rt_table(r, ny, nx))
                c["as_path"] = r.random() < 0.3
                c["upper"] = r.random() < 0.15
                if fmt in ("txt", "data", "csv"):
                    c["style"] = r.choice(["int", "int", "repr", "sci"])
                    if c["style"] != "int":
                        c["scale"] = r.choice([1, 4])
                    c["header"] = loader == "table" and r.random() < 0.3
                    c["crlf"] = r.random() < 0.1
                else:
                    c["scale"] = r.choice([1, 4]) if fmt != "fitstable" else 1
                if c.get("scale", 1) == 4:          # quarters: keep value / 4 exactly representable
                    c["table"] = rt_table(r, ny, nx, specials=(0, 1, -1, 10 ** 6, 2 ** 31 + 1, 2 ** 50 + 1))
                if fmt == "fits":
                    c["hdus"] = r.choice(["primary", "primary", "ext1", "two"])
                if c.get("scale", 1) == 1 and fmt in ("npy", "fits") and r.random() < 0.5:
                    dt = r.choice(["int64", "int32", "int16", "uint16", "uint8", "float32", ">f8", ">i4"])
                    lo, hi = {"int64": (-2 ** 40, 2 ** 40), "int32": (-2 ** 31, 2 ** 31 - 1), "int16": (-2 ** 15, 2 ** 15 - 1),
                              "uint16": (0, 2 ** 16 - 1), "uint8": (0, 255), "float32": (-2 ** 24, 2 ** 24),
                              ">f8": (-2 ** 40, 2 ** 40), ">i4": (-2 ** 31, 2 ** 31 - 1)}[dt]
                    c["dtype"] = dt
                    c["table"] = rt_table(r, ny, nx, lo, hi, specials=(lo, hi, 0))
                cases.append(c)
    # 8-bit grey-level pictures through PIL (lossless formats): row 0 of the array is the first row of the picture
    for fmt in ("png", "bmp", "tiff", "tif"):
        for (ny, nx) in [(1, 1), (2, 3), (5, 2)][: ctx.budget(2, 3)]:
            cases.append(dict(kind="roundtrip", fmt=fmt, delim=None, loader="image", table=rt_table(r, ny, nx, 0, 255, (0, 255)),
                              upper=r.random() < 0.2))
    for fmt in ("jpg", "jpeg"):            # lossy format: uniform grey pictures only (exact at quality 100)
        v = r.randint(0, 255)
        ny, nx = r.choice([(1, 1), (3, 5), (9, 17)])
        cases.append(dict(kind="roundtrip", fmt=fmt, delim=None, loader="image", table=[[v] * nx for _ in range(ny)]))
    for hdus in ("primary", "ext1", "two"):
        for dt in (None, "int16", "uint16", "float32"):
            lo, hi = {None: (-999, 999), "int16": (-2 ** 15, 2 ** 15 - 1), "uint16": (0, 2 ** 16 - 1), "float32": (-2 ** 24, 2 ** 24)}[dt]
            c = dict(kind="roundtrip", fmt="fits", delim=None, loader="image", hdus=hdus, table=rt_table(r, 2, 3, lo, hi, (lo, hi, 0)))
            if dt:
                c["dtype"] = dt
            cases.append(c)
    for hdr in (False, True):
        cases.append(dict(kind="roundtrip", fmt="xlsx", delim=None, loader="table", header=hdr, table=rt_table(r, 3, 2, -999, 999, (0,)),
                          scale=4))
    return cases


def gen_cube_cases(ctx: Ctx):
    r = ctx.rng("cube")
    cases = []
    for loader in ("datacube", "image"):
        for (nz, ny, nx) in [(1, 1, 1), (2, 3, 2), (3, 1, 4)][: ctx.budget(2, 3)]:
            cases.append(dict(kind="cube", loader=loader,
                              cube=[[[r.randint(-99, 99) for _ in range(nx)] for _ in range(ny)] for _ in range(nz)]))
    return cases


def gen_text_cases(ctx: Ctx):
    r = ctx.rng("text")
    cases = []
    fixed = ["1, 2\n3, 4\n", "1 ,2\n", "1 | 2\n", "1  2\n", "1,,2\n", " 1 2\n", "1 2 \n", "1\t 2\n", "1\n2\n",
             "1,2\n3\n", "\n1,2\n\n3,4\n", "1;2|3\n", "1\t2 3\n", "1 \t2\n", ",1\n", "1,\n", "1;2\n3;4", "7\n",
             "1|2\n3;4\n", "1 2\n3\t4\n", "-1;-2\n"]
    for t in fixed:
        cases.append(dict(kind="text", text=t, ext=r.choice([".txt", ".data"])))
    seps = [s for s, _ in DELIMS.values()]
    for _ in range(ctx.budget(150, 800)):
        ny, nx = r.randint(1, 4), r.randint(1, 4)
        d = r.choice(seps)
        rows = []
        for i in range(ny):
            n = nx if r.random() < 0.9 else r.randint(1, 4)                      # sometimes ragged
            parts = [str(r.randint(-50, 50)) for _ in range(n)]
            s = parts[0]
            for p in parts[1:]:
                k = r.random()
                sep = d if k < 0.85 else r.choice(seps)                         # sometimes a foreign separator
                if r.random() < 0.08:
                    sep = sep + " "                                             # blank after the separator
                s += sep + p
            rows.append(s)
        cases.append(dict(kind="text", text="\n".join(rows) + ("\n" if r.random() < 0.8 else ""),
                          ext=r.choice([".txt", ".data"])))
    # regular texts: the same run of separator characters (a gap) between every two neighbours
    for _ in range(ctx.budget(120, 600)):
        ny, nx = r.randint(1, 3), r.randint(1, 4)
        k = r.random()
        if k < 0.5:
            d = r.choice(seps)
            gap = r.choice(["", " ", "\t", "  "][:3]) + d + r.choice(["", " ", "\t"])
        else:
            gap = "".join(r.choice(seps) for _ in range(r.randint(1, 3)))
        rows = [gap.join(str(r.randint(-50, 50)) for _ in range(nx)) for _ in range(ny)]
        if r.random() < 0.1:
            rows[r.randrange(ny)] = r.choice([" ", "\t"]) + rows[0]            # leading blank on one line
        cases.append(dict(kind="text", text="\n".join(rows) + "\n", ext=r.choice([".txt", ".data"])))
    return [c for c in cases if tokenise(c["text"]) is not None]


# ------------------------------------------------------------------------------------------ evaluation


def run_cases(ctx: Ctx, cases, tag, note=True):
    obs = core.run_driver(ctx, "c20", cases, workers=8)
    pairs = []
    for c, o in zip(cases, obs):
        if "crash" in o or "driver_error" in o:
            if note:
                ctx.broken.append(Broken("correspondence", "implementation driver failed", str(o)[:600], c))
            continue
        pairs.append((c, o))
    return pairs


def eval_files(ctx: Ctx, pairs, emit, per, tag, n_evals, note=True):
    files = {f"{tag}_{k // per:04d}": emit(pairs[k:k + per]) for k in range(0, len(pairs), per)}
    res = core.coq_eval_many(ctx, files, timeout=900, par=8)
    outs = [[] for _ in range(n_evals)]
    for k, name in enumerate(sorted(files)):
        ok, evals, se = res[name]
        chunk = pairs[k * per:(k + 1) * per]
        if not ok or len(evals) != n_evals:
            if note:
                ctx.broken.append(Broken("correspondence", f"case file {name}.v did not evaluate", core.tail(se, 15)))
            continue
        for j in range(n_evals):
            outs[j] += [chunk[i] for i in core.parse_int_list(evals[j])]
    return outs


def py_spec_fit(c):
    """Python mirror of spec_fit, used ONLY to classify/describe a violation already decided inside Coq."""
    ay, ax, oy, ox = c["ay"], c["ax"], c["oy"], c["ox"]
    py, px = c["pos"]
    al = c["align"]
    if al:
        if al not in ALIGNS:
            return None
        q = lambda a: int(a / 2)
        py, px = {"center": (q(oy - ay), q(ox - ax)), "top_left": (oy - ay, 0), "top_right": (oy - ay, ox - ax),
                  "bottom_left": (0, 0), "bottom_right": (0, ox - ax)}[al]
    if not c["allow"] and (ay < oy or ax < ox):
        return None
    if not (max(py, 0) < min(py + ay, oy) and max(px, 0) < min(px + ax, ox)):
        return None
    m = eff_mult(c)
    return [[m * c["data"][i - py][j - px] if 0 <= i - py < ay and 0 <= j - px < ax else 0 for j in range(ox)]
            for i in range(oy)]


def size_relation(c):
    rel = lambda a, o: "smaller" if a < o else ("equal" if a == o else "larger")
    return f"{rel(c['ay'], c['oy'])}/{rel(c['ax'], c['ox'])}"


def fit_violation(c, o, whole=None) -> Violation:
    exp = py_spec_fit(c)
    if exp is None and "out" in o:
        kind = "accepts_input_that_must_be_refused"
    elif exp is not None and "out" not in o:
        kind = "refuses_valid_input"
    elif exp is not None and [len(o["out"]), len(o["out"][0]) if o["out"] else 0] != [c["oy"], c["ox"]]:
        kind = "wrong_shape"
    else:
        kind = "wrong_pixels"
    case, obs = whole if whole is not None else (c, o)
    extra = f" (readout {c['step_index']} of times {c['times']})" if "step_index" in c else ""
    return Violation(clause="placement", case=case, observed=obs, expected=exp if exp is not None else "ValueError",
                     what=f"{c['path']}: input {c['ay']}x{c['ax']} ({c.get('ext', 'array')}, {c.get('dtype', 'float64')}) on "
                          f"detector {c['oy']}x{c['ox']} at {c['pos'] if not c['align'] else c['align']}, factor "
                          f"{eff_mult(c)}{extra}: {kind}",
                     sig=dict(clause="placement", path=c["path"], kind=kind, keyword=bool(c["align"])))


def memo_walk(c, o):
    """Classify a freshness violation (already decided inside Coq): the first load whose result is not what the file
    held at that moment; which entry point, whether the same request was made before, what the rewrite looked like."""
    content, writes, seen_req, loaded = {}, {}, [], set()
    res = list(o.get("results", []))
    k = 0
    info = dict(cause="other", entry=c.get("via"), repeat=False, rewrite="none")
    for ev in c["events"]:
        if "w" in ev:
            writes.setdefault(ev["w"], []).append(ev)
            content[ev["w"]] = ev
            continue
        if "r" in ev:
            name, entry = ev["r"], ev["via"]
            cur = content.get(name)
            exp = None if cur is None else cur["data"]
            req = ("r", name, entry)
        else:
            q = ev["l"]
            name, entry = q["file"], c.get("via")
            cur = content.get(name)
            exp = None if cur is None else py_spec_fit(dict(ay=cur["ay"], ax=cur["ax"], data=cur["data"], oy=q["shape"][0],
                                                            ox=q["shape"][1], pos=[q["py"], q["px"]], align=q["align"],
                                                            allow=q["allow"]))
            req = ("l", json.dumps(q, sort_keys=True))
        got = res[k].get("out") if k < len(res) else None
        k += 1
        if got != exp:
            ws = writes.get(name, [])
            stale = any(got is not None and got == (w["data"] if "r" in ev else py_spec_fit(dict(
                ay=w["ay"], ax=w["ax"], data=w["data"], oy=ev["l"]["shape"][0], ox=ev["l"]["shape"][1],
                pos=[ev["l"]["py"], ev["l"]["px"]], align=ev["l"]["align"], allow=ev["l"]["allow"]))) for w in ws[:-1])
            info["entry"] = entry
            info["repeat"] = req in seen_req
            if stale and name in loaded:
                info["cause"] = "rewritten_after_load"
            elif stale:
                info["cause"] = "earlier_version_never_loaded"
            if len(ws) >= 2:
                a, b = ws[-2], ws[-1]
                same_size = (a["ay"], a["ax"]) == (b["ay"], b["ax"])
                if a.get("dt") is None or b.get("dt") is None:
                    when = "natural_mtime"
                elif b["dt"] < a["dt"]:
                    when = "older_mtime"
                elif b["dt"] // 1000 == a["dt"] // 1000:
                    when = "same_second"
                else:
                    when = "later_second"
                info["rewrite"] = f"{'same_size' if same_size else 'other_size'}/{when}"
            info["index"] = k - 1
            return info
        seen_req.append(req)
        loaded.add(name)
    return info


def memo_violation(c, o) -> Violation:
    info = memo_walk(c, o)
    return Violation(clause="fresh_content", case=c, observed=o, expected="every load returns the file's current content",
                     what=f"history of {len(c['events'])} events: load #{info.get('index')} through {info['entry']} did not "
                          f"return what the file held at that moment ({info['cause']}; "
                          f"{'the same request was made before' if info['repeat'] else 'a request not made before'}; "
                          f"rewrite: {info['rewrite']})",
                     sig=dict(clause="fresh_content", cause=info["cause"], entry=info["entry"], repeat=info["repeat"]))


def shrink_memo(ctx: Ctx, c, o, rounds=4):
    """Greedy: drop one event at a time while the history still violates the specification (decided in Coq)."""
    best = (c, o)
    for _ in range(rounds):
        ev = best[0]["events"]
        if len(ev) <= 3:
            break
        cands = [dict(best[0], events=ev[:i] + ev[i + 1:]) for i in range(len(ev))]
        cands = [x for x in cands if any("l" in e or "r" in e for e in x["events"])]
        pairs = run_cases(ctx, cands, "shrink", note=False)
        if not pairs:
            break
        got = eval_files(ctx, pairs, emit_memo_file, 40, "shrink_memo", 2, note=False)
        viol = got[1] if got else []
        if not viol:
            break
        best = min(viol, key=lambda co: len(co[0]["events"]))
    return best


def run(ctx: Ctx):
    from translator import c20 as tr

    ctx.trusted += TRUSTED
    ctx.max_reported = 8          # placement / freshness / round-trip classes side by side
    ctx.assumptions += [
        "2-D inputs (3-D only through load_datacube / load_image round trips); pixel values are integers or quarters "
        "(exact in float64, and in the narrower dtypes where those are used); shapes and offsets are Python ints",
        "text files of the delimiter model contain integers and the five separator characters only (numbers are atomic "
        "tokens); decimal / exponent notation is exercised by the round trips",
        "one process, one thread; the files are local paths (fsspec cache option off, its default); a rewrite of a file "
        "gets a modification time different from the previous version's (1 ms .. 90 s later, or 5 s earlier)",
    ]
    gen = {}
    try:
        gen["Gen_C20.v"] = tr.translate(ctx.repo)
    except core.TranslationError as ex:
        ctx.broken.append(Broken("translation", "pyxel/util/image.py / pyxel/inputs/loader.py", str(ex)))
        ctx.log("translation failed:", ex)
        gen["Gen_C20.v"] = tr.FALLBACK
    core.proof_leg(ctx, gen, PROP_FILE)
    explore(ctx, deep=False)
    if ctx.broken and not new_violations(ctx):
        ctx.log("searching for a concrete failing input (exhaustive small scope)")
        explore(ctx, deep=True)


def explore(ctx: Ctx, deep: bool):
    # ---- placement
    if deep:
        fit_cases = exhaustive_fit_cases(3, 4) + exhaustive_align_cases(9)
        step_cases = []
    else:
        fit_cases = corpus_cases("fit") + gen_fit_cases(ctx) + exhaustive_align_cases(7)
        step_cases = gen_step_cases(ctx)
        ctx.cov["exhaustive"] = "fit_into_array: 5 keywords x all input/detector sizes 1..7 per axis"
        if not ctx.quick:
            fit_cases += exhaustive_fit_cases(4, 5)
            ctx.cov["exhaustive"] += "; all input/detector shapes <= 4x4 x offsets -5..5 + 5 keywords x allow"
    tag = "s" if deep else "c"
    pairs = run_cases(ctx, fit_cases, tag)
    spairs = run_cases(ctx, step_cases, tag)
    triples = [(c, o, None) for c, o in pairs] + expand_steps(spairs)
    whole = {id(c): w for c, o, w in triples}
    mism, viol = eval_files(ctx, [(c, o) for c, o, _ in triples], emit_fit_file, 400, tag + "fit", 2)
    seen = set()
    for c, o, _ in triples:
        ctx.count("evaluations")
        ctx.dist("fit_path", c["path"])
        ctx.dist("fit_outcome", "placed" if "out" in o else "refused")
        ctx.dist("align", c["align"] if c["align"] is not None else "offset")
        ctx.dist("size_relation(y/x)", size_relation(c))
        ctx.dist("file_format", c.get("ext", "array"))
        ctx.dist("dtype", c.get("dtype", "float64") + ("/quarters" if c.get("scale", 1) == 4 else ""))
        ctx.dist("factor", eff_mult(c))
        exp = py_spec_fit(c)
        full = exp is not None and c["pos"] == [0, 0] and (c["ay"], c["ax"]) == (c["oy"], c["ox"])
        if not full:
            seen.add(json.dumps([c[k] for k in ("path", "ay", "ax", "oy", "ox", "pos", "align", "allow")] + [c.get("step_index")]))
    for c, o in viol:
        ctx.violations.append(fit_violation(c, o, whole.get(id(c))))
    for c, o in mism:
        ctx.broken.append(Broken("correspondence", "Model/Placement.v vs implementation",
                                 f"{c['path']} {c['ay']}x{c['ax']} -> {c['oy']}x{c['ox']} pos={c['pos']} align={c['align']}",
                                 dict(case=c, observed=o)))
    for c, o in pairs[:2]:
        ctx.sample(dict(case=c, observed=o))
    n_traces = len(triples)
    n_dis = len(mism)

    # ---- histories of writes and loads in one process
    memo_cases = corpus_cases("memo") + gen_memo_cases(ctx)
    mpairs = run_cases(ctx, memo_cases, tag)
    mm, mv = eval_files(ctx, mpairs, emit_memo_file, 40, tag + "memo", 2)
    for c, o in mpairs:
        ctx.count("evaluations", len(c["events"]))
        ctx.dist("memo_via", c.get("via"))
        for ev in c["events"]:
            if "r" in ev:
                ctx.dist("raw_via", ev["via"])
            if "w" in ev:
                ctx.dist("history_file_format", ev["w"][ev["w"].rfind("."):])
        seen.add("memo" + json.dumps(c["events"]))
    mv.sort(key=lambda co: len(co[0]["events"]))
    by_sig = {}
    for c, o in mv:
        v = memo_violation(c, o)
        cls = "direct" if v.sig["entry"] in RAW_VIAS else "placing"      # report one per class of entry point
        by_sig.setdefault(json.dumps([v.sig["cause"], v.sig["repeat"], cls]), (c, o))
    for c, o in list(by_sig.values())[:3]:
        if len(c["events"]) > 4:
            c, o = shrink_memo(ctx, c, o)
        ctx.violations.append(memo_violation(c, o))
    ctx.cov["memo_histories_violating"] = ctx.cov.get("memo_histories_violating", 0) + len(mv)
    for c, o in mm:
        ctx.broken.append(Broken("correspondence", "Model/Memo.v vs implementation",
                                 f"history of {len(c['events'])} events via {c.get('via')}", dict(case=c, observed=o)))
    if mpairs:
        ctx.sample(dict(case=mpairs[0][0], observed=mpairs[0][1]))
    n_traces += len(mpairs)
    n_dis += len(mm)

    # ---- formats and delimiters
    rt_cases = corpus_cases("roundtrip") + gen_roundtrip_cases(ctx) + gen_cube_cases(ctx)
    rpairs = run_cases(ctx, rt_cases, tag)
    (rv,) = eval_files(ctx, rpairs, emit_rt_file, 300, tag + "rt", 1)
    for c, o in rpairs:
        ctx.count("evaluations")
        if c["kind"] == "cube":
            ctx.dist("format", f"npy3d/{c['loader']}")
            seen.add("cube" + json.dumps([c["loader"], c["cube"]]))
            continue
        ctx.dist("format", f"{c['fmt']}/{c['delim']}/{c['loader']}")
        ctx.dist("stored_dtype", c.get("dtype", "float64") + ("/quarters" if c.get("scale", 1) == 4 else ""))
        if c["fmt"] in ("txt", "data", "csv"):
            ctx.dist("number_style", c.get("style", "int") + ("+header" if c.get("header") else ""))
        if c["fmt"] == "fits":
            ctx.dist("fits_hdus", c.get("hdus", "primary"))
        seen.add("rt" + json.dumps([c["fmt"], c["delim"], c["loader"], c["table"], c.get("dtype"), c.get("style"), c.get("header")]))
    rv.sort(key=lambda co: len(json.dumps(rt_table_of(co[0]))))          # smallest table first
    for c, o in rv:
        ctx.violations.append(rt_violation(c, o))
    tx_cases = corpus_cases("text") + gen_text_cases(ctx)
    tpairs = run_cases(ctx, tx_cases, tag)
    (tm,) = eval_files(ctx, tpairs, emit_text_file, 300, tag + "txt", 1)
    for c, o in tpairs:
        ctx.count("evaluations")
        ctx.dist("text_outcome", "parsed" if "out" in o else "refused")
        seen.add("tx" + c["text"])
    for c, o in tm:
        ctx.broken.append(Broken("correspondence", "Model/Delim.v vs implementation (load_image on text)",
                                 repr(c["text"])[:200], dict(case=c, observed=o)))
    n_traces += len(rpairs) + len(tpairs)
    n_dis += len(tm)

    ctx.cov["distinct_nontrivial"] = ctx.cov.get("distinct_nontrivial", 0) + len(seen)
    ctx.cov["rule"] = ("placement: distinct (entry point, shapes, offset/keyword, allow, readout) except the trivial "
                       "full-cover case (same shape, offset 0); histories: distinct event lists (all contain >= 1 load); "
                       "round trips: distinct (format, delimiter, loader, table, dtype, number style); texts: distinct "
                       "file contents")
    ctx.cov["traces_validated_against_impl"] = ctx.cov.get("traces_validated_against_impl", 0) + n_traces
    ctx.cov["disagreements_checked"] = ctx.cov.get("disagreements_checked", 0) + n_dis


def rt_table_of(c):
    if c["kind"] == "cube":
        cube = c["cube"]
        return [[len(cube), len(cube[0]), len(cube[0][0])]] + [row for plane in cube for row in plane]
    return c["table"]


def rt_obs_of(c, o):
    if c["kind"] == "cube" and "out" in o:
        return dict(out=[o.get("shape3", [])] + o["out"])
    return o


def rt_violation(c, o) -> Violation:
    if c["kind"] == "cube":
        return Violation(clause="roundtrip", case=c, observed=o, expected=c["cube"],
                         what=f"3-D .npy through load_{c['loader']}: not read back with the same shape and values",
                         sig=dict(clause="roundtrip", fmt="npy3d", loader=c["loader"]))
    t = c["table"]
    big = max(abs(v) for row in t for v in row) / c.get("scale", 1) >= 2 ** 52
    return Violation(
        clause="roundtrip", case=c, observed=o, expected=t,
        what=f"{c['fmt']} delimiter={c['delim']} loader={c['loader']} stored as {c.get('dtype', 'float64')} "
             f"{c.get('style', '')}{' with header row' if c.get('header') else ''}: table {len(t)}x{len(t[0])} "
             "is not read back with the same shape and values",
        sig=dict(clause="roundtrip", fmt=c["fmt"], delim=c["delim"], loader=c["loader"],
                 shape=("1" if len(t) == 1 else "N") + "x" + ("1" if len(t[0]) == 1 else "M"), style=c.get("style"),
                 magnitude=">=2^52" if big else "<2^52"))


def corpus_cases(kind):
    """Minimised past failures (harness/corpus/C20/*.json), run first."""
    out = []
    d = core.VERIF / "harness" / "corpus" / "C20"
    if d.is_dir():
        for f in sorted(d.glob("*.json")):
            for c in json.loads(f.read_text()):
                if c.get("kind") == kind:
                    out.append(c)
    return out


def new_violations(ctx: Ctx):
    fs = core.load_findings(ctx.prop)
    return [v for v in ctx.violations if not any(core.finding_matches(e, v) for e in fs)]


def replay(ctx: Ctx, rp: dict) -> int:
    case = rp.get("case")
    if rp.get("kind") != "input" or not case:
        print(f"replay names a {rp.get('kind')} that no longer checks: {rp.get('no_longer_checks')}")
        print(rp.get("detail", ""))
        return 1
    from translator import c20 as tr

    obs = core.run_driver(ctx, "c20", [case], workers=1)[0]
    print("case:", json.dumps(case)[:1500])
    print("implementation now returns:", json.dumps(obs)[:1500])
    if "crash" in obs or "driver_error" in obs:
        return 1
    gen = ctx.build / "gen"
    gen.mkdir(parents=True, exist_ok=True)
    try:
        text = tr.translate(ctx.repo)
    except core.TranslationError:
        text = tr.FALLBACK
    (gen / "Gen_C20.v").write_text(text)
    core.ensure_lib(ctx, targets=core.lib_targets_of([HEAD]))
    core.coqc(ctx, gen / "Gen_C20.v", [(gen, "PyxelGen")])
    kind = case["kind"]
    if kind == "fit":
        ok, evals, se = core.coq_eval(ctx, "replay", emit_fit_file([(case, obs)]))
        bad = (not ok) or core.parse_int_list(evals[1]) != []
    elif kind == "steps":
        ok, evals, se = core.coq_eval(ctx, "replay", emit_fit_file([(c, o) for c, o, _ in expand_steps([(case, obs)])]))
        bad = (not ok) or core.parse_int_list(evals[1]) != []
    elif kind == "memo":
        ok, evals, se = core.coq_eval(ctx, "replay", emit_memo_file([(case, obs)]))
        bad = (not ok) or core.parse_int_list(evals[1]) != []
    elif kind in ("roundtrip", "cube"):
        ok, evals, se = core.coq_eval(ctx, "replay", emit_rt_file([(case, obs)]))
        bad = (not ok) or core.parse_int_list(evals[0]) != []
    else:
        ok, evals, se = core.coq_eval(ctx, "replay", emit_text_file([(case, obs)]))
        bad = (not ok) or core.parse_int_list(evals[0]) != []
    print("specification (evaluated in Coq):", "VIOLATED" if bad else "holds")
    return 1 if bad else 0


META = dict(
    level_text=(
        "Coq theorems, closed under the global context: (1) fit_into_array modelled exactly as coded (coordinate ranges, "
        "intersect1d, first/last, two Python slices, block assignment into zeros) places, for ALL input shapes and "
        "contents, detector shapes, offsets and the five keywords, out[i][j] = in[i-py][j-px] where the input reaches and "
        "0 elsewhere, refuses exactly the non-overlapping inputs (and the smaller ones when disallowed); the keyword "
        "expressions and keyword strings are regenerated from the source on every run and proved equal to their "
        "documented meaning; (2) freshness IN FULL (after the repair of C20-F15): nothing in the loading code keeps "
        "content between two calls (regenerated: no memoisation, no caching decorator, no mutated module-level "
        "container, no mutable default, no function attribute), hence in EVERY history of file writes and loads — "
        "through the placing loader and the direct loaders — every load returns the specified placement of what the file "
        "holds at that moment; memoising on the arguments, with any key fields and any cache size, is proved to go "
        "stale; the two loading models' call sites (regenerated) pass the detector's (rows, cols), position = (y, x), "
        "align, and scale by time_step / time_scale (* multiplier); (3) delimiter detection for the regenerated "
        "separator list: every rectangular table written with a tried separator is read back; the decision never "
        "changes what is read (any accepted text is read as the numbers of its lines), the first accepting separator "
        "decides and the order of the list is irrelevant; a separator accepts a line only if it occurs columns-1 times "
        "and all other separator characters are blanks; a table written with a regular gap (e.g. ', ') is accepted iff "
        "some separator reads the gap. The models are tied to the code by evaluating them inside Coq against the real "
        "fit_into_array, load_cropped_and_aligned_image (npy / fits / text / 8-bit picture files; float, integer and "
        "quarter values), the load_image / load_charge models called directly and through whole Exposure runs (one and "
        "several readouts, time_step / time_scale / multiplier factors), histories of rewrites with controlled "
        "modification times (same second, later, older) through every entry point incl. load_image / load_table / "
        "load_psf, and load_image on text files; NPY/FITS (HDU layouts, stored dtypes)/text (integer, decimal, exponent "
        "notation, header rows)/xlsx/PNG/BMP/TIFF/3-D NPY round trips through load_image, load_table and load_datacube "
        "are judged against 'same shape and values' (that part is testing, not proof)."),
    level_note=(
        "Trusted: Coq kernel + vm_compute; translator/c20.py; the correspondence harness and text tokeniser. Modelled, "
        "not verified: numpy slicing/intersect1d/loadtxt, int(a/2) as truncation, functools.lru_cache (only when the "
        "decorator is present). Not modelled (round-trip tested only): np.save/np.load, astropy FITS, PIL, pandas "
        "readers, csv.Sniffer (load_table's delimiter choice). Assumes 2-D inputs with integer or quarter values, local "
        "files, one process and thread, and that a rewritten file gets a different modification time."),
    technique="Coq proof (lia index arithmetic over list models, history induction, token-list induction) + regenerated "
              "tables + in-Coq correspondence/spec evaluation",
    design_ref="DESIGN.md section 6, C20",
)
