"""C16 — digitised images are bounded, monotone, saturating and never wrap."""
from __future__ import annotations

import math
import struct

import json

from .. import core
from ..core import Broken, Ctx, Violation

PROP_FILE = "Properties/C16.v"
CORPUS = core.VERIF / "harness" / "corpus" / "C16"

TRUSTED = [
    "translator/c16.py (get_dtype band chain -> Gen_C16.src_dtype_chain; the three detector-level models -> "
    "Gen_C16.src_simple_wiring / src_sar_wiring / src_sar0_wiring and the parts of the detector each body reads / "
    "writes -> src_*_touch; get_dtype is read by symbolic execution over sets of integers (any decision shape built from "
    "comparisons with constants, constant tables, unrolled loops, match, helpers), the wrapper bodies after inlining "
    "private helpers (of the module, or imported from the package when their free names mean the same), substituting "
    "single-assignment aliases of detector attribute chains, unrolling loops over evident sequences (literals, "
    "zip / enumerate / dict-literal views, names bound once to such a literal), merging a functools.partial bound "
    "once with its single call, and normalising guard forms; "
    "fails closed on anything else)",
    "correspondence harness: harness/props/c16.py generators, harness/drivers/c16.py, float.hex() -> (m, e) literals; "
    "histories: the driver realises the operations of Model/AdcHist.v as attribute assignments on one CCD object, "
    "detector.image.empty() or Detector.empty() followed by putting the signal back, and calls of the three models "
    "(np.random.normal replaced by a deterministic stand-in during the noisy call)",
    "modelled, not verified: numpy elementwise float64 arithmetic = IEEE-754 round-to-nearest-even (Flocq "
    "BinarySingleNaN), np.clip = minimum(maximum()), np.minimum propagates NaN, np.trunc = round toward zero, "
    "np.nextafter(x, 0.0) = predecessor, Python int -> float64 conversion is correctly rounded and float/int "
    "comparison is exact, float32/float16 -> float64 conversion is exact, float -> unsigned cast is only defined "
    "when the value fits, integer -> integer cast wraps",
]


# ------------------------------------------------------------------------------------------ floats


def ulp_up(x: float) -> float:
    return math.nextafter(x, math.inf)


def ulp_dn(x: float) -> float:
    return math.nextafter(x, -math.inf)


def bf(x: float) -> str:
    if math.isnan(x):
        return "bnan"
    if math.isinf(x):
        return "pinf" if x > 0 else "ninf"
    if x == 0.0:
        return "nzero" if math.copysign(1.0, x) < 0 else "pzero"
    m, e = core.float_to_me(x)
    return f"(mk ({m}) ({e}))"


def hexf(x: float) -> str:
    return "nan" if math.isnan(x) else float(x).hex()


# ------------------------------------------------------------------------------------------ cases

RANGES_FIXED = [
    (0.0, 1.0), (0.0, 5.0), (0.0, 3.3), (0.0, 10.0), (0.0, 8.934237255150775), (-5.0, 5.0), (-1.5, 2.25),
    (1.0, 1.0000000000000002), (0.0, 5e-324), (-1e280, 1e280), (0.0, 1e-300), (2.0, 3.0), (0.0, 0.1),
    (-0.1, 0.7), (0.0, 6.0), (0.0, 15.0),
    # the scaled value overflows to +inf inside the range (finite span): must be clamped, never an undefined cast
    (0.0, 2.0 ** 1000), (-1e307, 1e307), (-18.66, -17.07),
]


def gen_range(r):
    k = r.random()
    if k < 0.35:
        return RANGES_FIXED[r.randrange(len(RANGES_FIXED))]
    if k < 0.7:
        return (0.0, r.uniform(0.01, 20.0))
    if k < 0.9:
        a = r.uniform(-20, 20)
        return (a, a + r.uniform(1e-3, 40))
    # tiny and huge spans; above 2^959 the product span * 2^64 overflows (clamped); the span itself stays finite
    e = r.randrange(-300, 1021)
    a = r.choice([0.0, -1.0, 1.0]) * r.random() * 2.0 ** e
    return (a, a + r.random() * 2.0 ** e + 2.0 ** (e - 40))


def transition_points(bits, vmin, vmax, ks):
    """Voltages near the k-th code transition, +-1 ulp."""
    pts = []
    M = 2 ** bits - 1
    for k in ks:
        try:
            x = vmin + (vmax - vmin) * (k / M)
        except OverflowError:
            continue
        if math.isfinite(x):
            pts += [ulp_dn(x), x, ulp_up(x)]
    return pts


def sar_transition_points(bits, vmax, ks):
    """The SAR converter's own decision points k * vmax / 2^bits (exact for dyadic vmax), +-1 ulp."""
    pts = []
    for k in ks:
        x = vmax * (k / 2 ** bits) if k else 0.0
        x2 = (vmax * k) / 2 ** bits
        for v in (x, x2):
            if math.isfinite(v):
                pts += [ulp_dn(v), v, ulp_up(v)]
    return pts


def gen_case(r, kind, bits, rng_v, dense=False, frame=None):
    vmin, vmax = rng_v
    vmin_given = vmin
    span = vmax - vmin
    M = 2 ** bits - 1
    ks = {0, 1, 2, M // 2, M - 1, M}
    n_extra = 24 if dense else 4
    for _ in range(n_extra):
        ks.add(r.randrange(0, M + 1))
    pts = transition_points(bits, vmin, vmax, sorted(ks))
    if kind != "simple":
        vmin = 0.0      # the SAR converters ignore the range minimum: their transitions are k * vmax / 2^bits
        span = vmax
        sk = {1, 2, 3, 2 ** (bits - 1), 2 ** (bits - 1) + 2 ** (bits - 2), 2 ** bits - 1, 2 ** bits}
        for _ in range(n_extra + 2):
            sk.add(r.randrange(1, 2 ** bits + 1))
            sk.add(2 ** r.randrange(0, bits))           # single-bit codes
        pts += sar_transition_points(bits, vmax, sorted(sk))
    pts += [vmin, ulp_dn(vmin), ulp_up(vmin), vmax, ulp_dn(vmax), ulp_up(vmax)]
    pts += [-math.inf, math.inf, -1e308, 1e308, 0.0, -0.0, 5e-324, -5e-324]
    if math.isfinite(span):
        pts += [vmin - span, vmax + span, vmin - 1e3 * abs(span), vmax + 1e3 * abs(span)]
        for _ in range(n_extra):
            pts.append(vmin + span * r.random())
    pts = [p for p in pts if not math.isnan(p)]
    # sorted ascending; keep -0.0/0.0 both (stable order)
    pts = sorted(set(struct.pack(">d", p) for p in pts), key=lambda b: (struct.unpack(">d", b)[0], b[0] & 0x80 == 0))
    xs = [struct.unpack(">d", b)[0] for b in pts]
    cap = 48 if dense else 16
    if kind != "simple" and len(xs) > cap:
        # the SAR loop costs `bits` float steps per voltage inside Coq: thin the frame, keep the ends
        keep = sorted(set([0, 1, len(xs) - 2, len(xs) - 1] + r.sample(range(len(xs)), cap)))
        xs = [xs[i] for i in keep]
    frame = r.choices(["float64", "float32", "float16"], [14, 5, 1])[0] if frame is None else frame
    # narrow frames (Signal.TYPE_LIST allows float32/float16): the converters work on a binary64 copy, so any
    # setting is meaningful; the voltages handed to the model are the frame's values converted exactly
    if frame != "float64":
        import numpy as np
        with np.errstate(all="ignore"):
            arr = np.array(xs, dtype=float).astype(frame).astype(float)
        seen_b, xs2 = set(), []
        for v in arr.tolist():           # values exactly representable in the frame's type, still sorted
            b = struct.pack(">d", v)
            if b not in seen_b:
                seen_b.add(b)
                xs2.append(v)
        xs = xs2
    case = dict(kind=kind, bits=bits, vmin=hexf(vmin_given), vmax=hexf(vmax), xs=[hexf(x) for x in xs],
                path=r.choice(["model", "func"]), frame=frame)
    if kind == "simple" and r.random() < 0.2:
        # an explicit output type (data_type= of the model / dtype= of the function) at least as wide as the
        # one get_dtype chooses: everything the property says must still hold
        need = 8 if bits <= 8 else 16 if bits <= 16 else 32 if bits <= 32 else 64
        case["data_type"] = r.choice([w for w in (8, 16, 32, 64) if w >= need])
    if kind == "sarp":
        # per-bit reference perturbations strengths[i] + noises[i] * z_i: all distinct, of the size of the bit's own
        # reference voltage, so that a wrong index or a wrong operand changes codes
        st, no, zs = [], [], []
        for i in range(bits):
            scale = abs(vmax) * 2.0 ** -(i + 2)
            st.append(r.choice([0.0, 1.0, -1.0, 0.5, -0.25]) * scale * (1 + r.randrange(0, 8) / 8))
            no.append(r.choice([0.0, 1.0, 0.5, 0.125]) * scale * (1 + r.randrange(0, 8) / 8))
            zs.append(r.choice([-1.5, -0.5, 0.0, 0.25, 1.0, 2.0]))
        case.update(strengths=[hexf(v) for v in st], noises=[hexf(v) for v in no], zs=[hexf(v) for v in zs])
    if kind == "sar0" and case["path"] == "model" and r.random() < 0.12:
        # the model refuses tuples that do not have adc_bit_resolution elements (ValueError)
        case[r.choice(["n_strengths", "n_noises"])] = bits + r.choice([-1, 1])
    return case


def load_corpus():
    """Formerly failing inputs (harness/corpus/C16/*.json), run first: a regression is reported with them."""
    out = []
    for f in sorted(CORPUS.glob("*.json")):
        c = json.loads(f.read_text())
        out.append({k: c[k] for k in CASE_KEYS if k in c})
    return out


def gen_cases(ctx: Ctx, budget: int):
    r = ctx.rng("cases")
    cases = [c for c in load_corpus() if c["kind"] != "hist"]
    ctx.cov["corpus_cases"] = len(cases)
    # every resolution at least once per converter kind (61 widths): the band structure of the dtype
    for bits in range(4, 65):
        cases.append(gen_case(r, "simple", bits, RANGES_FIXED[bits % len(RANGES_FIXED)], frame="float64"))
        cases.append(gen_case(r, "simple", bits, gen_range(r)))
    def sar_range(vmax):
        # the SAR converters use only the range maximum; a non-zero minimum must not change anything
        return (r.choice([v for v in (0.0, 0.0, 0.0, -1.0, 0.25, -vmax / 2, vmax / 4) if v < vmax]), vmax)

    for bits in range(4, 65):
        cases.append(gen_case(r, "sar", bits, sar_range(r.choice([1.0, 8.0, 3.3, 5.0, 10.0, r.uniform(0.1, 20)]))))
        nk = "sar0" if bits % 2 == 0 else "sarp"
        cases.append(gen_case(r, nk, bits, sar_range(r.choice([1.0, 4.0, 8.0, 5.0, r.uniform(0.1, 20)]))))
    while len(cases) < budget:
        kind = r.choices(["simple", "sar", "sar0", "sarp"], [6, 2, 1, 1])[0]
        bits = r.randrange(4, 65)
        rv = gen_range(r) if kind == "simple" else sar_range(r.choice([2.0, 8.0, 0.5, r.uniform(0.01, 50.0)]))
        cases.append(gen_case(r, kind, bits, rv))
    return cases


def exhaustive_cases(ctx: Ctx, max_bits: int):
    """All code transitions +-1 ulp for bits <= max_bits (thorough tier)."""
    r = ctx.rng("exh")
    cases = []
    for bits in range(4, max_bits + 1):
        M = 2 ** bits - 1
        for rv in [(0.0, 5.0), (0.0, 3.3), (-1.5, 2.25), (0.0, 8.934237255150775)]:
            ks = list(range(0, M + 1))
            for lo in range(0, len(ks), 256):
                vmin, vmax = rv
                pts = transition_points(bits, vmin, vmax, ks[lo:lo + 256])
                pts = sorted(set(pts))
                for kind in ("simple", "sar"):
                    if kind == "sar" and vmin != 0.0:
                        continue
                    cases.append(dict(kind=kind, bits=bits, vmin=hexf(vmin), vmax=hexf(vmax),
                                      xs=[hexf(x) for x in pts], path="func", frame="float64"))
    return cases


# ------------------------------------------------------------------------------------------ Coq emission

KIND = {"simple": "Simple", "sar": "Sar", "sar0": "Sar0", "sarp": "Sarp"}
CASE_KEYS = ("kind", "bits", "vmin", "vmax", "xs", "path", "frame", "data_type", "n_strengths", "n_noises",
             "strengths", "noises", "zs", "ops")


def top_class(c):
    """What the plain formula gives at the range maximum (input-distribution statistic only): exactly full scale,
    one short (the saturation override is needed), above full scale or +inf (the clamp is needed)."""
    M = 2 ** c["bits"] - 1
    vmin, vmax = float.fromhex(c["vmin"]), float.fromhex(c["vmax"])
    try:
        out = (vmax - vmin) * float(M) / (vmax - vmin)
    except (OverflowError, ZeroDivisionError):
        return "overflow"
    if math.isinf(out) or math.isnan(out):
        return "overflow"
    t = int(out)
    return "exact" if t == M else "short" if t < M else "exceeds"


def perturbations(c):
    """strengths[i] + noises[i] * z_i in binary64, exactly as the stand-in for np.random.normal computes it."""
    return [float.fromhex(s) + float.fromhex(n) * float.fromhex(z)
            for s, n, z in zip(c.get("strengths", []), c.get("noises", []), c.get("zs", []))]



def emit_case(c, obs) -> str:
    if "codes" in obs:
        o = f"(Some ({obs['width']}, {core.clist(str(v) for v in obs['codes'])}))"
    else:
        o = "None"
    xs = core.clist(bf(float.fromhex(h)) for h in c["xs"])
    tw = "None" if "twin" not in obs else f"(Some {core.clist(str(v) for v in obs['twin'])})"
    return (f"{{| kind := {KIND[c['kind']]}; bits := {c['bits']}; vmin := {bf(float.fromhex(c['vmin']))}; "
            f"vmax := {bf(float.fromhex(c['vmax']))}; xs := {xs}; observed := {o}; twin := {tw}; "
            f"via_model := {core.cbool(c.get('path', 'model') == 'model')}; "
            f"data_type := {'None' if c.get('data_type') is None else '(Some %d)' % c['data_type']}; "
            f"n_strengths := {c.get('n_strengths', c['bits'])}; n_noises := {c.get('n_noises', c['bits'])}; "
            f"perturb := {core.clist(bf(v) for v in perturbations(c))} |}}")


def emit_file(pairs) -> str:
    body = ";\n  ".join(emit_case(c, o) for c, o in pairs)
    return ("From Coq Require Import ZArith List.\nFrom Flocq Require Import Core BinarySingleNaN.\n"
            "From PyxelV Require Import Lib.B64 Model.Adc.\nFrom PyxelGen Require Import Gen_C16.\n"
            "Import ListNotations.\nOpen Scope Z_scope.\n"
            f"Definition cases : list adc_case := [\n  {body}\n].\n"
            "Eval vm_compute in mismatches src_dtype_chain src_simple_wiring src_sar_wiring src_sar0_wiring cases.\n"
            "Eval vm_compute in violations cases.\n")



# ------------------------------------------------------------------------------------------ histories
# One detector object, a sequence of operations on it (setters of detector.characteristics, a new signal frame,
# emptying the Image bucket, calls of the three detector-level models in any order).  Aimed at state carried from
# one call to the next: an output type / range / scale / buffer remembered from the previous call, an image or a
# signal array reused in place.

BANDS = [(4, 8), (9, 16), (17, 32), (33, 64)]         # the resolutions that share one output type
HIST_RANGES = [(0.0, 1.0), (0.0, 5.0), (0.0, 3.3), (0.0, 10.0), (-5.0, 5.0), (-1.5, 2.25), (2.0, 3.0), (0.0, 0.1),
               (-0.1, 0.7), (0.0, 6.0), (0.0, 8.934237255150775), (0.0, 15.0)]
CALL_KINDS = ("simple", "sar", "sar0", "sarp")


def band_of(bits):
    return next(k for k, (lo, hi) in enumerate(BANDS) if lo <= bits <= hi)


def bits_in_band(r, k):
    lo, hi = BANDS[k]
    return r.choice([lo, hi, r.randrange(lo, hi + 1), r.randrange(lo, hi + 1)])


def _bits_key(v):
    return struct.pack(">d", v)


def hist_frame(r, settings, n, frame):
    """n distinct sorted voltages (exactly representable in the frame's type) that exercise every (bits, range)
    of `settings`: both ends of every range, +-inf, code transitions of both converter families, interior points."""
    import numpy as np
    must, pool = [-math.inf, math.inf], []
    must += [s[1][1] for s in settings] + [s[1][0] for s in settings] + [ulp_dn(s[1][1]) for s in settings]
    for bits, (vmin, vmax) in settings:
        M = 2 ** bits - 1
        ks = {1, M // 2, M - 1, M} | {r.randrange(0, M + 1) for _ in range(4)} | {min(M, 2 ** r.randrange(0, bits)) for _ in range(2)}
        pool += transition_points(bits, vmin, vmax, sorted(ks))
        if vmax > 0:
            sk = {1, 2 ** (bits - 1), 2 ** bits - 1} | {r.randrange(1, 2 ** bits + 1) for _ in range(3)}
            pool += sar_transition_points(bits, vmax, sorted(sk))
        pool += [vmin + (vmax - vmin) * r.random() for _ in range(4)] + [ulp_up(vmin), ulp_up(vmax), vmax + (vmax - vmin)]
    r.shuffle(pool)
    out, seen = [], set()

    def conv(v):
        with np.errstate(all="ignore"):
            return float(np.array([v], dtype=float).astype(frame).astype(float)[0])

    for v in must[:max(2, n - 3)] + pool:
        if len(out) >= n:
            break
        v = conv(v)
        if math.isnan(v) or _bits_key(v) in seen or (v == 0.0 and (_bits_key(0.0) in seen or _bits_key(-0.0) in seen)):
            continue
        seen.add(_bits_key(v))
        out.append(v)
    lo = min(s[1][0] for s in settings)
    hi = max(s[1][1] for s in settings)
    tries = 0
    while len(out) < n and tries < 10000:          # pad (narrow types merge neighbouring voltages)
        tries += 1
        v = conv(lo - (hi - lo) + 3 * (hi - lo) * r.random())
        if math.isfinite(v) and v != 0.0 and _bits_key(v) not in seen:
            seen.add(_bits_key(v))
            out.append(v)
    return sorted(out)


def call_op(r, kind, bits, vmax):
    if kind == "simple":
        op = dict(op="simple", data_type=None)
        if r.random() < 0.25:
            need = 8 if bits <= 8 else 16 if bits <= 16 else 32 if bits <= 32 else 64
            op["data_type"] = r.choice([w for w in (8, 16, 32, 64) if w >= need])
        return op
    if kind == "sar":
        return dict(op="sar")
    if kind == "sar0":
        op = dict(op="sar0", n_strengths=bits, n_noises=bits)
        if r.random() < 0.1:
            op[r.choice(["n_strengths", "n_noises"])] = bits + r.choice([-1, 1])     # refused (ValueError): image kept
        return op
    st, no, zs = [], [], []
    for i in range(bits):
        scale = abs(vmax) * 2.0 ** -(i + 2)
        st.append(r.choice([0.0, 1.0, -1.0, 0.5, -0.25]) * scale * (1 + r.randrange(0, 8) / 8))
        no.append(r.choice([0.0, 1.0, 0.5, 0.125]) * scale * (1 + r.randrange(0, 8) / 8))
        zs.append(r.choice([-1.5, -0.5, 0.0, 0.25, 1.0, 2.0]))
    return dict(op="sarp", strengths=[hexf(v) for v in st], noises=[hexf(v) for v in no], zs=[hexf(v) for v in zs])


def gen_history(r, plan=None, n=None, noise_ops=True):
    """plan: list of epochs dict(bits, range, kind, empty, replace) -- one converter call per epoch; epoch 0 is the
    detector as constructed.  Between two calls the settings are changed through the setters, the signal frame is
    replaced or left in place, the Image bucket is emptied or (mostly) left holding the previous image."""
    n = n or r.choice([8, 12, 16])
    if plan is None:
        k = band_of(r.randrange(4, 65))
        bits, rv = bits_in_band(r, k), r.choice(HIST_RANGES)
        plan = []
        for e in range(r.choice([2, 2, 3, 3, 4])):
            if e:
                u = r.random()
                if u < 0.65:
                    k = r.choice([j for j in range(4) if j != k])
                    bits = bits_in_band(r, k)
                elif u < 0.85:
                    bits = bits_in_band(r, k)
                if r.random() < 0.35:
                    rv = r.choice(HIST_RANGES)
            plan.append(dict(bits=bits, range=rv, kind=r.choices(CALL_KINDS, [6, 2, 1, 1])[0],
                             empty=e > 0 and r.random() < 0.3, replace=e > 0 and r.random() < 0.45))
    for e in plan:
        if e["range"][1] <= 0:
            e["kind"] = "simple"
    # the frame put in place at epoch s stays until the next replacement: it must be interesting for all of them
    starts = [i for i, e in enumerate(plan) if i == 0 or e.get("replace")]
    frames = {}
    for a, s in enumerate(starts):
        stop = starts[a + 1] if a + 1 < len(starts) else len(plan)
        ft = r.choices(["float64", "float32", "float16"], [14, 5, 1])[0]
        frames[s] = (hist_frame(r, [(e["bits"], e["range"]) for e in plan[s:stop]], n, ft), ft)
    e0 = plan[0]
    ops = []
    for i, e in enumerate(plan):
        pre = []
        if i:
            p = plan[i - 1]
            if e["bits"] != p["bits"] or r.random() < 0.1:
                pre.append(dict(op="bits", b=e["bits"]))
            if e["range"] != p["range"]:
                pre.append(dict(op="range", vmin=hexf(e["range"][0]), vmax=hexf(e["range"][1])))
            if e.get("replace"):
                pre.append(dict(op="signal", xs=[hexf(v) for v in frames[i][0]], frame=frames[i][1]))
            if e.get("empty"):
                pre.append(dict(op="empty", how=r.choice(["image", "detector"])))
            r.shuffle(pre)
            if noise_ops and r.random() < 0.06:
                # refused by the setters (ValueError), the detector stays as it was
                bad = r.choice([dict(op="bits", b=r.choice([3, 65, 0])),
                                dict(op="signal", xs=[hexf(float(v)) for v in range(n + 1)], frame="float64")])
                pre.insert(r.randrange(len(pre) + 1), bad)
        call = call_op(r, e["kind"], e["bits"], e["range"][1])
        if "data_type" in e and call["op"] == "simple":
            call["data_type"] = e["data_type"]
        ops += pre + [call]
    return dict(kind="hist", bits=e0["bits"], vmin=hexf(e0["range"][0]), vmax=hexf(e0["range"][1]),
                xs=[hexf(v) for v in frames[0][0]], frame=frames[0][1], ops=ops)


def gen_histories(ctx: Ctx, r, n_random, all_kind_pairs):
    """Every ordered pair of output-type bands, the same band twice included (the image of the first call is mostly
    left in place), the second call cycling through the three models (all 3 x 3 pairs of models when
    `all_kind_pairs`); then random histories."""
    hs = []
    fam = ("simple", "sar", "noisy")

    def kind(f):
        return r.choice(["sar0", "sarp"]) if f == "noisy" else f

    c = 0
    for i in range(4):
        for j in range(4):
            if all_kind_pairs:
                pairs = [(a, b) for a in fam for b in fam]
            elif i == j:
                pairs = [(b, b) for b in fam]        # the same model twice with the same output type (a reused buffer)
            else:
                pairs = [(r.choice(fam), b) for b in fam]
            for a, b in pairs:
                rv = HIST_RANGES[c % len(HIST_RANGES)] if c % 3 else r.choice([(0.0, 5.0), (0.0, 10.0), (0.0, 1.0)])
                rv2 = rv if r.random() < 0.75 else r.choice(HIST_RANGES)
                plan = [dict(bits=bits_in_band(r, i), range=rv, kind=kind(a)),
                        dict(bits=bits_in_band(r, j), range=rv2, kind=kind(b), empty=(c % 7 == 6),
                             replace=r.random() < 0.3)]
                hs.append(gen_history(r, plan, noise_ops=False))
                c += 1
    # exactly one thing changes between two calls of the same model at the same resolution: the voltage range ...
    for f in fam:
        for _ in range(6 if all_kind_pairs else 2):
            bits = r.randrange(4, 65)
            rv = r.choice(HIST_RANGES)
            rv2 = r.choice([x for x in HIST_RANGES if x != rv])
            hs.append(gen_history(r, [dict(bits=bits, range=rv, kind=kind(f)),
                                      dict(bits=bits, range=rv2, kind=kind(f), replace=r.random() < 0.3)], noise_ops=False))
    # ... or the data_type argument of simple_adc (given / not given / another width), the image left in place
    for _ in range(9 if all_kind_pairs else 3):
        bits = r.randrange(4, 65)
        need = 8 if bits <= 8 else 16 if bits <= 16 else 32 if bits <= 32 else 64
        ws = [None] + [w for w in (8, 16, 32, 64) if w >= need]
        w1 = r.choice(ws)
        w2 = r.choice([w for w in ws if w != w1] or [None])
        rv = r.choice(HIST_RANGES)
        hs.append(gen_history(r, [dict(bits=bits, range=rv, kind="simple", data_type=w1),
                                  dict(bits=bits, range=rv, kind="simple", data_type=w2),
                                  dict(bits=bits, range=rv, kind="simple", data_type=None)], noise_ops=False))
    for _ in range(n_random):
        hs.append(gen_history(r))
    return hs


def exhaustive_histories(r):
    """Thorough tier: ALL two-call histories over the band-edge resolutions 8, 9, 16, 17, 32, 33 x all 3 x 3 pairs of
    models with the first image left in place, and with the image emptied between the calls for every resolution pair
    and every second model (small frames of 6 voltages)."""
    edges = (8, 9, 16, 17, 32, 33)
    fam = ("simple", "sar", "noisy")
    hs, c = [], 0
    for emptied in (False, True):
        for a in (fam if not emptied else ("simple",)):
            for b in fam:
                for b1 in edges:
                    for b2 in edges:
                        rv = HIST_RANGES[c % len(HIST_RANGES)]
                        if rv[1] <= 0:
                            rv = (0.0, 5.0)
                        ka = (("sar0", "sarp")[c % 2]) if a == "noisy" else a
                        kb = (("sarp", "sar0")[(c // 2) % 2]) if b == "noisy" else b
                        hs.append(gen_history(r, [dict(bits=b1, range=rv, kind=ka, data_type=None),
                                                  dict(bits=b2, range=rv, kind=kb, empty=emptied, data_type=None)],
                                              n=6, noise_ops=False))
                        c += 1
    return hs


def settings_at(c, i):
    """(bits, vmin, vmax, xs) in force just before operation i (the setters' own guards applied)."""
    bits, vmin, vmax, xs = c["bits"], c["vmin"], c["vmax"], c["xs"]
    for op in c["ops"][:i]:
        if op["op"] == "bits" and 4 <= op["b"] <= 64:
            bits = op["b"]
        elif op["op"] == "range":
            vmin, vmax = op["vmin"], op["vmax"]
        elif op["op"] == "signal" and len(op["xs"]) == len(c["xs"]):
            xs = op["xs"]
    return bits, vmin, vmax, xs


def emit_op(c, i) -> str:
    op = c["ops"][i]
    k = op["op"]
    if k == "bits":
        return f"OSetBits {core.cz(op['b'])}"
    if k == "range":
        return f"OSetRange {bf(float.fromhex(op['vmin']))} {bf(float.fromhex(op['vmax']))}"
    if k == "signal":
        return f"OSetSignal {core.clist(bf(float.fromhex(h)) for h in op['xs'])}"
    if k == "empty":
        return "OEmptyImage"
    if k == "simple":
        return "OSimple " + ("None" if op.get("data_type") is None else f"(Some {op['data_type']})")
    if k == "sar":
        return "OSar"
    if k == "sar0":
        return f"OSar0 {op['n_strengths']} {op['n_noises']}"
    if k == "sarp":
        return f"OSarp {core.clist(bf(v) for v in perturbations(op))}"
    raise ValueError(k)


def emit_obs(o) -> str:
    im = o.get("image")
    if im is None:
        img = "None"
    else:
        img = f"(Some ({im.get('width', 0)}, {core.clist(core.cz(v) for v in im['codes'])}))"
    return (f"{{| o_raised := {core.cbool(o.get('raised') is not None)}; o_image := {img}; "
            f"o_sig_ok := {core.cbool(bool(o.get('sig_ok')))} |}}")


def emit_hist_case(c, obs) -> str:
    ops = core.clist(f"({emit_op(c, i)})" for i in range(len(c["ops"])))
    tr = core.clist(emit_obs(o) for o in obs["trace"])
    return (f"{{| hc_bits := {c['bits']}; hc_lo := {bf(float.fromhex(c['vmin']))}; hc_hi := {bf(float.fromhex(c['vmax']))}; "
            f"hc_xs := {core.clist(bf(float.fromhex(h)) for h in c['xs'])};\n     hc_ops := {ops};\n     hc_obs := {tr} |}}")


def emit_hist_file(pairs) -> str:
    body = ";\n  ".join(emit_hist_case(c, o) for c, o in pairs)
    return ("From Coq Require Import ZArith List.\nFrom Flocq Require Import Core BinarySingleNaN.\n"
            "From PyxelV Require Import Lib.B64 Model.Adc Model.AdcHist.\nFrom PyxelGen Require Import Gen_C16.\n"
            "Import ListNotations.\nOpen Scope Z_scope.\n"
            f"Definition cases : list hist_case := [\n  {body}\n].\n"
            "Eval vm_compute in hist_mismatches src_dtype_chain src_simple_wiring src_sar_wiring src_sar0_wiring cases.\n"
            "Eval vm_compute in hist_violations cases.\n")


def judge_histories(ctx: Ctx, cases, tag, per=10, record=True, alone=False):
    """Run histories on the implementation, compare with the model and judge them, both inside Coq.
    Returns (mismatching [(case, obs)], violating [(case, obs, op index)], all pairs).
    alone: every history in a fresh process of its own (nothing left over from other cases)."""
    if not cases:
        return [], [], []
    obs = core.run_driver(ctx, "c16", cases, workers=8, chunk=1) if alone else core.run_driver(ctx, "c16", cases)
    pairs = []
    for c, o in zip(cases, obs):
        if "trace" not in o or len(o["trace"]) != len(c["ops"]):
            ctx.broken.append(Broken("correspondence", "implementation driver failed (history)", str(o)[:500], c))
            continue
        pairs.append((c, o))
    files = {f"{tag}_{k // per:03d}": emit_hist_file(pairs[k:k + per]) for k in range(0, len(pairs), per)}
    res = core.coq_eval_many(ctx, files, timeout=900)
    mism, viol = [], []
    for k, name in enumerate(sorted(files)):
        ok, evals, se = res[name]
        chunk = pairs[k * per:(k + 1) * per]
        if not ok or len(evals) != 2:
            ctx.broken.append(Broken("correspondence", f"case file {name}.v did not evaluate", core.tail(se, 15)))
            continue
        mism += [chunk[i] for i in core.parse_int_list(evals[0])]
        viol += [(chunk[v // 1000][0], chunk[v // 1000][1], v % 1000) for v in core.parse_int_list(evals[1])]
    if record:
        for c, o in pairs:
            ctx.count("histories")
            calls = [(i, op) for i, op in enumerate(c["ops"]) if op["op"] in CALL_KINDS]
            ctx.dist("hist_calls_per_history", len(calls))
            prev = None
            for i, op in calls:
                bits, _, _, xs = settings_at(c, i)
                ctx.count("evaluations", len(xs))
                ctx.count("history_calls")
                ctx.dist("hist_call_kind", op["op"] + ("+data_type" if op.get("data_type") else ""))
                if prev is not None:
                    pb = settings_at(c, prev)[0]
                    between = c["ops"][prev + 1:i]
                    move = "same_type" if band_of(pb) == band_of(bits) else "wider_type" if bits > pb else "narrower_type"
                    ctx.dist("hist_between_calls", move + ("/image_emptied" if any(b["op"] == "empty" for b in between)
                                                           else "/image_left"))
                    ctx.dist("hist_signal_between_calls", "replaced" if any(b["op"] == "signal" for b in between) else "left")
                prev = i
    return mism, viol, pairs


def shrink_history(ctx: Ctx, c, obs, i):
    """Minimal history that still breaks the specification at its last operation: cut after the violating call,
    then drop earlier operations one at a time (each candidate is re-run on the implementation and re-judged in Coq)."""
    cur, cur_obs = dict(c, ops=c["ops"][:i + 1]), dict(trace=obs["trace"][:i + 1])
    for rnd in range(5):
        m = len(cur["ops"])
        cands = [dict(cur, ops=cur["ops"][:j] + cur["ops"][j + 1:]) for j in range(m - 1)]
        if not cands:
            break
        _, viol, _ = judge_histories(ctx, cands, f"shrink{rnd}", per=12, record=False, alone=True)
        hit = next(((cc, oo) for cc, oo, k in viol if k == len(cc["ops"]) - 1), None)
        if hit is None:
            break
        cur, cur_obs = hit
    return cur, cur_obs


def hist_to_violation(c, obs, i) -> Violation:
    bits, vmin, vmax, xs = settings_at(c, i)
    op = c["ops"][i]
    o = obs["trace"][i]
    im = o.get("image")
    pseudo = dict(kind=op["op"] if op["op"] != "sar0" else "sar", bits=bits, vmin=vmin, vmax=vmax, xs=xs)
    if o.get("raised"):
        clause, idx, extra = "raises", None, dict(error=o["raised"])
    elif im is None:
        clause, idx, extra = "no_image_stored", None, {}
    elif "width" not in im:
        clause, idx, extra = "dtype_not_unsigned", None, dict(dtype=im.get("bad_dtype"))
    else:
        clause, idx, extra = classify(pseudo, dict(width=im["width"], codes=im["codes"], twin=im["codes"]))
    calls_before = [k for k in range(i) if c["ops"][k]["op"] in CALL_KINDS]
    case = dict(c)
    case["settings_at_violation"] = dict(operation=i, bits=bits, vmin=float.fromhex(vmin), vmax=float.fromhex(vmax),
                                         xs=[float.fromhex(h) for h in xs], pixels=idx)
    sig = dict(clause=clause, kind="hist", call=op["op"], after_calls=min(len(calls_before), 2), **extra)
    band = "4..53" if bits <= 53 else ("54..63" if bits <= 63 else "64")
    sig["bits_band"] = band
    return Violation(clause=clause, case=case, observed=dict(trace=obs["trace"]),
                     expected=f"after operation #{i} ({op['op']}): codes in 0..2^{bits}-1 in an unsigned type that holds "
                              f"2^{bits}-1, sorted, 0 at/below vmin, 2^{bits}-1 at/above vmax",
                     what=f"history of {len(c['ops'])} operations on one detector; operation #{i} ({op['op']}) at bits={bits} "
                          f"range=({float.fromhex(vmin)!r}, {float.fromhex(vmax)!r}) after {len(calls_before)} earlier "
                          f"call(s): {clause}", sig=sig)


def run_histories(ctx: Ctx, hs, tag="h"):
    """Correspondence + specification over histories; appends violations / broken obligations."""
    mism, viol, pairs = judge_histories(ctx, hs, tag)
    if viol:
        # a replay must fail by itself: run the violating histories again, each alone in a fresh process (the histories of
        # a run share worker processes, and a converter may keep something at module level); shrink what reproduces
        cand = [dict(c, ops=c["ops"][:i + 1]) for c, _, i in viol[:12]]
        _, again, _ = judge_histories(ctx, cand, tag + "_alone", per=12, record=False, alone=True)
        done = []
        for k, (c, o, i) in enumerate(again):
            if k < 3:
                c, o = shrink_history(ctx, c, o, i)
                i = len(c["ops"]) - 1
            v = hist_to_violation(c, o, i)
            mark_alone(v, True)
            done.append(v)
        ctx.violations += done
        confirmed = {json.dumps(c["ops"], sort_keys=True) for c, _, _ in again}
        for k, (c, o, i) in enumerate(viol):
            if json.dumps(c["ops"][:i + 1], sort_keys=True) not in confirmed:
                v = hist_to_violation(dict(c, ops=c["ops"][:i + 1]), dict(trace=o["trace"][:i + 1]), i)
                if k < 12:
                    mark_alone(v, False)
                ctx.violations.append(v)
    for c, o in mism:
        ctx.broken.append(Broken("correspondence", "Model/AdcHist.v vs implementation (history on one detector)",
                                 f"model and implementation differ on a history of {len(c['ops'])} operations",
                                 dict(case=c, observed=o)))
    return mism, viol, pairs


# ------------------------------------------------------------------------------------------ classification


def classify(c, obs):
    """Python-side classification of a violating case (used only for the signature and to shrink;
    the decision that it violates the specification was taken inside Coq)."""
    bits = c["bits"]
    M = 2 ** bits - 1
    vmin, vmax = float.fromhex(c["vmin"]), float.fromhex(c["vmax"])
    if "codes" not in obs:
        return "raises", None, dict(error=obs.get("raise"))
    codes = obs["codes"]
    xs = [float.fromhex(h) for h in c["xs"]]
    if M >= 2 ** obs["width"]:
        return "dtype_too_narrow", None, dict(width=obs["width"])
    for j, (x, cd) in enumerate(zip(xs, codes)):
        if c["kind"] == "simple" and x >= vmax and cd != M:
            if bits == 64 and cd == 0:
                return "wrap_at_full_scale", [j], dict(code="0")
            if cd == M + 1:
                return "full_scale_exceeds_range", [j], dict(code="2^bits")
            if cd == M - 1:
                return "full_scale_short", [j], dict(code="2^bits-2")
            return "high_saturation", [j], dict(code="other")
        if c["kind"] == "simple" and x <= vmin and cd != 0:
            return "low_saturation", [j], {}
        if not (0 <= cd <= M):
            return "out_of_range", [j], dict(code="2^bits" if cd == M + 1 else "other")
    if c["kind"] == "sar0" and obs.get("twin") != codes:
        j = next((k for k, (a, b) in enumerate(zip(obs.get("twin") or [], codes)) if a != b), 0)
        return "zero_noise_differs", [j], dict(twin=str((obs.get("twin") or [None])[j]) if obs.get("twin") else "missing")
    for j in range(len(codes) - 1):
        if codes[j] > codes[j + 1]:
            if c["kind"] != "simple" and bits >= 54 and codes[j + 1] == 0:
                return "wrap_at_full_scale", [j, j + 1], dict(code="0")
            if c["kind"] == "simple" and bits == 64 and codes[j + 1] == 0:
                return "wrap_at_full_scale", [j, j + 1], dict(code="0")
            return "not_monotone", [j, j + 1], {}
    return "unclassified", None, {}


def to_violation(c, obs) -> Violation:
    clause, idx, extra = classify(c, obs)
    case = dict(c)
    observed = obs
    if idx is not None and "codes" in obs:
        case["xs"] = [c["xs"][j] for j in idx]
        case["xs_float"] = [float.fromhex(h) for h in case["xs"]]
        observed = dict(width=obs["width"], codes=[obs["codes"][j] for j in idx])
    bits = c["bits"]
    frame = c.get("frame", "float64")
    mant = {"float64": 53, "float32": 24, "float16": 11}[frame]
    if frame == "float64" or c["kind"] != "simple":      # the SAR accumulator is float64 whatever the frame
        band = "4..53" if bits <= 53 else ("54..63" if bits <= 63 else "64")
    else:
        band = f"<={mant}" if bits <= mant else f">{mant}"
    sig = dict(clause=clause, kind=c["kind"], bits_band=band, frame=frame, **extra)
    return Violation(clause=clause, case=case, observed=observed,
                     expected=f"codes in 0..2^{bits}-1, sorted, 0 at/below vmin, 2^{bits}-1 at/above vmax",
                     what=f"{c['kind']} ADC bits={bits} range=({float.fromhex(c['vmin'])!r}, "
                          f"{float.fromhex(c['vmax'])!r}): {clause}", sig=sig)


# ------------------------------------------------------------------------------------------ legs


def correspondence(ctx: Ctx, cases, tag="c") -> tuple[list, list]:
    obs = core.run_driver(ctx, "c16", cases)
    pairs = []
    for c, o in zip(cases, obs):
        if "crash" in o or "driver_error" in o:
            ctx.broken.append(Broken("correspondence", "implementation driver failed", str(o)[:500], c))
            continue
        pairs.append((c, o))
    files = {}
    per = 60
    for k in range(0, len(pairs), per):
        files[f"{tag}_{k // per:03d}"] = emit_file(pairs[k:k + per])
    res = core.coq_eval_many(ctx, files, timeout=900)
    mism, viol = [], []
    for k, name in enumerate(sorted(files)):
        ok, evals, se = res[name]
        chunk = pairs[k * per:(k + 1) * per]
        if not ok or len(evals) != 2:
            ctx.broken.append(Broken("correspondence", f"case file {name}.v did not evaluate", core.tail(se, 15)))
            continue
        mism += [chunk[i] for i in core.parse_int_list(evals[0])]
        viol += [chunk[i] for i in core.parse_int_list(evals[1])]
    for c, o in pairs:
        ctx.count("evaluations", len(c["xs"]))
        ctx.count("frames")
        ctx.dist("kind", c["kind"])
        ctx.dist("bits_band", "4..16" if c["bits"] <= 16 else "17..32" if c["bits"] <= 32 else
                 "33..53" if c["bits"] <= 53 else "54..64")
        ctx.dist("path", c.get("path"))
        ctx.dist("frame", c.get("frame", "float64"))
        ctx.dist("data_type", c.get("data_type"))
        if c["kind"] == "simple":
            ctx.dist("unclamped_value_at_vmax", top_class(c))
        if c["kind"] == "sar0" and c.get("path") == "model":
            ctx.dist("noisy_tuple_lengths", "wrong" if (c.get("n_strengths", c["bits"]) != c["bits"]
                                                        or c.get("n_noises", c["bits"]) != c["bits"]) else "right")
    return mism, viol, pairs


def run(ctx: Ctx):
    from translator import c16 as tr

    ctx.trusted += TRUSTED
    ctx.assumptions += [
        "finite vmin < vmax with a finite span vmax - vmin (< 1.8e308), 4 <= bits <= 64, NaN voltages excluded "
        "(outside the property's quantifier; C16_nan_undefined says what the model does with them)",
        "the float->unsigned cast is compared only where it is defined (C16_never_wraps proves it is defined for "
        "every generated setting, so every pixel is compared)",
    ]
    ctx.max_reported = 8     # one replay per repaired defect (7 fixed findings) when run on an unrepaired tree
    gen = {}
    try:
        gen["Gen_C16.v"] = tr.translate(ctx.repo)
    except core.TranslationError as ex:
        ctx.broken.append(Broken("translation", "get_dtype (pyxel/util/misc.py) / detector-level converter models", str(ex)))
        ctx.log("translation failed:", ex)
        # keep going with the last accepted shape so that the search still has a model to run
        gen["Gen_C16.v"] = tr.FALLBACK
    core.proof_leg(ctx, gen, PROP_FILE)

    cases = gen_cases(ctx, ctx.budget(330, 1500))
    if not ctx.quick:
        cases += exhaustive_cases(ctx, 12)
    mism, viol, pairs = correspondence(ctx, cases)
    seen = set()
    for c, o in pairs:
        key = (c["kind"], c["bits"], c["vmin"], c["vmax"])
        if key not in seen:
            seen.add(key)
    ctx.cov["distinct_nontrivial"] = len(seen)
    ctx.cov["rule"] = ("frames of sorted voltages per (converter, bits, range): code transitions +-1 ulp, both range "
                       "ends +-1 ulp, far outside, +-inf, +-0, subnormals, random interior; every width 4..64 at "
                       "least twice; distinct = distinct (converter, bits, vmin, vmax); every frame is non-trivial "
                       "(contains both saturation ends and interior transitions)")
    ctx.cov["traces_validated_against_impl"] = len(pairs)
    ctx.cov["disagreements_checked"] = len(mism)
    ctx.cov["exhaustive"] = False
    for c, o in pairs[:3]:
        ctx.sample(dict(case={k: c.get(k) for k in ("kind", "bits", "vmin", "vmax", "path", "frame")},
                        xs=c["xs"][:5], codes=o.get("codes", [])[:5], n=len(c["xs"])))
    for c, o in viol:
        ctx.violations.append(to_violation(c, o))
    # histories of calls on one detector object (corpus first)
    hs = [c for c in load_corpus() if c["kind"] == "hist"]
    ctx.cov["corpus_histories"] = len(hs)
    hs += gen_histories(ctx, ctx.rng("histories"), ctx.budget(16, 100), all_kind_pairs=not ctx.quick)
    if not ctx.quick:
        ex = exhaustive_histories(ctx.rng("histories_exh"))
        ctx.cov["exhaustive_two_call_histories"] = len(ex)
        hs += ex
    hmism, _, hpairs = run_histories(ctx, hs)
    ctx.cov["histories_validated_against_impl"] = len(hpairs)
    ctx.cov["history_disagreements_checked"] = len(hmism)
    ctx.cov["history_rule"] = ("histories on one detector object: 2..4 converter calls (any of the three models, data_type "
                               "given or not) separated by setter calls (resolution across / inside an output-type band, "
                               "voltage range), a new signal frame or the old one left in place, the Image bucket emptied "
                               "or left holding the previous image; every ordered pair of output-type bands with the image "
                               "left in place; after EVERY operation the raised flag and the whole image are compared with "
                               "the model, every call is judged against the specification for the settings then in force")
    for c, o in hpairs[:2]:
        ctx.sample(dict(history=dict(bits=c["bits"], vmin=c["vmin"], vmax=c["vmax"], n=len(c["xs"])),
                        ops=[{k: v for k, v in op.items() if k not in ("xs", "strengths", "noises", "zs")} for op in c["ops"]]))
    order_violations(ctx)
    confirm_in_isolation(ctx)
    (ctx.build / "mismatches.json").write_text(__import__("json").dumps([dict(case=c, observed=o) for c, o in mism], indent=1))
    for c, o in mism:
        ctx.broken.append(Broken("correspondence", "Model/Adc.v vs implementation",
                                 f"model and implementation differ on {c['kind']} bits={c['bits']}",
                                 dict(case=c, observed=o)))
    if ctx.broken and not new_violations(ctx):
        search(ctx)


def order_violations(ctx: Ctx):
    """Reporting order only: one representative per recorded finding (open or fixed) first, so that on a tree
    where several repaired defects are back each of them gets its own replay file."""
    try:
        ents = [dict(e, status="open") for e in
                json.loads((core.VERIF / "known_findings.json").read_text()).get("findings", [])
                if e.get("property") == ctx.prop]
    except (OSError, ValueError):
        return
    first, rest, seen = [], [], set()
    for v in ctx.violations:
        hit = next((e["id"] for e in ents if core.finding_matches(e, v)), None)
        if hit is not None and hit not in seen:
            seen.add(hit)
            first.append(v)
        else:
            rest.append(v)
    ctx.violations[:] = first + rest


NOT_ALONE = (" [observed in the run, but NOT reproduced when this case runs alone in a fresh process: the outcome "
             "depends on conversions that ran earlier in the same process]")


def mark_alone(v: Violation, ok: bool):
    v.alone = "reproduced" if ok else "not_reproduced"
    v.case = dict(v.case, alone=v.alone)
    if not ok:
        v.what += NOT_ALONE


def sig_key(v: Violation) -> str:
    return json.dumps(v.sig, sort_keys=True) + v.clause       # what core.finish groups the report lines by


def confirm_in_isolation(ctx: Ctx, limit=32):
    """A replay must fail by itself.  The cases of one run share a few worker processes, so a converter that keeps
    something at module level (a remembered type, range or buffer) can spoil a case through the cases that ran before
    it in the same process.  For every kind of violation (signature) up to two violating cases are run again, each
    alone in a fresh process, and judged again inside Coq.  Kinds with a case that still violates are reported first,
    with that case; kinds whose cases do not reproduce alone are reported (and say so) only when nothing reproduces."""
    if not ctx.violations:
        return
    groups: dict[str, list] = {}
    for v in ctx.violations:
        groups.setdefault(sig_key(v), []).append(v)
    vs = []
    for g in groups.values():
        if not any(getattr(v, "alone", None) == "reproduced" for v in g):
            vs += [v for v in g if getattr(v, "alone", None) is None][:2]
    vs = vs[:limit]
    if vs:
        cases = [{k: v.case[k] for k in CASE_KEYS if k in v.case} for v in vs]
        obs = core.run_driver(ctx, "c16", cases, workers=min(8, len(cases)), chunk=1)
        fr = [(k, c, o) for k, (c, o) in enumerate(zip(cases, obs)) if c["kind"] != "hist" and ("codes" in o or "raise" in o)]
        hi = [(k, c, o) for k, (c, o) in enumerate(zip(cases, obs)) if c["kind"] == "hist" and "trace" in o
              and len(o["trace"]) == len(c["ops"])]
        files = {}
        if fr:
            files["iso_f"] = emit_file([(c, o) for _, c, o in fr])
        if hi:
            files["iso_h"] = emit_hist_file([(c, o) for _, c, o in hi])
        res = core.coq_eval_many(ctx, files, timeout=600)
        still = set()
        if fr and res["iso_f"][0] and len(res["iso_f"][1]) == 2:
            still |= {fr[i][0] for i in core.parse_int_list(res["iso_f"][1][1])}
        if hi and res["iso_h"][0] and len(res["iso_h"][1]) == 2:
            still |= {hi[v // 1000][0] for v in core.parse_int_list(res["iso_h"][1][1])}
        for k, v in enumerate(vs):
            mark_alone(v, k in still)
    good, unknown, bad = [], [], []
    for g in groups.values():
        rep = [v for v in g if getattr(v, "alone", None) == "reproduced"]
        unk = [v for v in g if getattr(v, "alone", None) is None]
        if rep:
            good += rep + unk
        elif unk and not any(getattr(v, "alone", None) == "not_reproduced" for v in g):
            unknown += unk
        else:
            bad += [v for v in g if getattr(v, "alone", None) == "not_reproduced"] + unk
    ctx.cov["violation_kinds_confirmed_alone"] = sum(1 for g in groups.values()
                                                     if any(getattr(v, "alone", None) == "reproduced" for v in g))
    ctx.cov["violation_kinds_not_reproduced_alone"] = len({sig_key(v) for v in bad})
    ctx.violations[:] = good + unknown + (bad if not good else [])


def new_violations(ctx: Ctx):
    fs = core.load_findings(ctx.prop)
    return [v for v in ctx.violations if not any(core.finding_matches(e, v) for e in fs)]


def search(ctx: Ctx):
    """A proof obligation or the correspondence broke: look harder for a concrete failing input."""
    ctx.log("searching for a concrete failing input (bigger budget, dense transitions)")
    r = ctx.rng("search")
    cases = []
    for bits in range(4, 65):
        for _ in range(3):
            kind = r.choice(["simple", "simple", "sar", "sar0", "sarp"])
            rv = gen_range(r) if kind == "simple" else (r.choice([0.0, 0.0, -1.0, 0.25]), r.uniform(0.3, 50.0))  # vmin < vmax
            cases.append(gen_case(r, kind, bits, rv, dense=True))
    cases += exhaustive_cases(ctx, 8)
    mism, viol, pairs = correspondence(ctx, cases, tag="s")
    for c, o in viol:
        ctx.violations.append(to_violation(c, o))
    if not new_violations(ctx):
        # state carried from one call to the next on the same detector: every pair of models x every pair of bands
        _, _, hp = run_histories(ctx, gen_histories(ctx, r, 60, all_kind_pairs=True), tag="sh")
        ctx.cov["search_histories"] = len(hp)
    order_violations(ctx)
    confirm_in_isolation(ctx)
    ctx.cov["search_frames"] = len(pairs)


def replay(ctx: Ctx, rp: dict) -> int:
    case = rp.get("case")
    if rp.get("kind") != "input" or not case:
        print(f"replay names a {rp.get('kind')} that no longer checks: {rp.get('no_longer_checks')}")
        print(rp.get("detail", ""))
        return 1
    case = {k: case[k] for k in CASE_KEYS if k in case}
    obs = core.run_driver(ctx, "c16", [case], workers=1)[0]
    print("case:", case)
    print("implementation now returns:", obs)
    from translator import c16 as tr
    gen = ctx.build / "gen"
    gen.mkdir(parents=True, exist_ok=True)
    try:
        (gen / "Gen_C16.v").write_text(tr.translate(ctx.repo))
    except core.TranslationError:
        (gen / "Gen_C16.v").write_text(tr.FALLBACK)      # the specification does not depend on the regenerated tables
    core.ensure_lib(ctx)
    core.coqc(ctx, gen / "Gen_C16.v", [(gen, "PyxelGen")])
    if case.get("kind") == "hist":
        if "trace" not in obs:
            print("the implementation driver failed on this history")
            return 1
        ok, evals, se = core.coq_eval(ctx, "replay", emit_hist_file([(case, obs)]))
    else:
        ok, evals, se = core.coq_eval(ctx, "replay", emit_file([(case, obs)]))
    bad = ok and core.parse_int_list(evals[1]) != []
    print("specification (evaluated in Coq):", "VIOLATED" if bad else "holds")
    return 1 if bad else 0


META = dict(
    level_text=(
        "Coq theorems over a bit-exact Flocq binary64 model of the three converters as repaired (simple: double "
        "precision, clamp to the largest double not above full scale, exact saturation at/above the maximum; SAR: "
        "integer accumulator, double-precision remainder) and over the dtype chain and the detector-level wrappers "
        "regenerated from the source on every run. Proved for EVERY resolution up to 64 bits, every finite range and "
        "every non-NaN voltage incl. infinities: codes in 0..2^bits-1, never an undefined/wrapping cast (finite span), "
        "monotone, 0 at/below vmin, 2^bits-1 exactly at/above vmax; SAR range/definedness/monotonicity and zero-noise "
        "equality; whole frames of the model satisfy the specification used to judge the implementation. The model is "
        "tied to the code by evaluating it inside Coq against apply_simple_adc / apply_sar_adc / the noisy variant "
        "with zero noise and the detector-level models on float64, float32 and float16 frames of code-transition "
        "voltages +-1 ulp; the implementation's codes are judged inside Coq against the specification. Histories on ONE "
        "detector object (setters of the resolution / voltage range, a new signal frame, the Image bucket emptied or left "
        "holding the previous image, the three models called in any order) are a model of their own (Model/AdcHist.v): "
        "proved for every initial state and every history that a call never changes the settings, that every allowed call "
        "stores a defined image meeting the specification of the settings in force at that call whatever the bucket held "
        "before, and that the model's trace passes the judge; generated histories (every ordered pair of output-type "
        "bands, every model) are compared with the model after every operation and judged, inside Coq."),
    level_note=(
        "Trusted: Coq kernel + vm_compute; Flocq's IEEE-754 formalisation (its theorems use the real-number axioms and "
        "classic); translator/c16.py; the correspondence harness; numpy float64 = IEEE-754 binary64 round-to-nearest-even, "
        "np.clip/np.trunc/np.minimum/np.nextafter semantics, correctly rounded int->float conversion, exact "
        "float32/float16->float64 conversion. Assumes finite vmin < vmax with a finite span, no NaN voltages (their "
        "effect is stated: undefined cast)."),
    technique="Coq proof over Flocq binary64 model + regenerated dtype table and wrapper table + in-Coq correspondence/spec evaluation",
    design_ref="DESIGN.md section 6, C16",
)
