"""C04 — seeded runs are bit-reproducible and seeding never leaks."""
from __future__ import annotations

import copy
import json

from .. import core
from ..core import Broken, Ctx, Violation

PROP_FILE = "Properties/C04.v"

TRUSTED = [
    "translator/c04.py (shape of set_random_seed -> src_srs_cfg; for every running mode the seed-forwarding call chain "
    "AND the four doors a seed comes through - constructor, YAML builder, attribute setter, override key - as "
    "(mode, entry, link, XId|XTruthy|XDrop) -> src_links; draw sites inside/outside the bracket, bare reseeding, "
    "iterations over hash-ordered collections and truthiness tests on `seed` of every model function with a `seed` "
    "parameter -> src_seeded_models; np.random.seed/set_state sites -> src_seed_sites; truthiness tests on any seed in the "
    "running modes / run.py / configuration builders / models -> src_seed_truthiness; how each branch of "
    "ArchipelagoDataTree._build iterates over the created islands -> src_island_build; numba-compiled draws -> "
    "src_numba_sites; set_random_seed is read by walking its paths (seed None / not None, normal exit / exception "
    "thrown in at the yield), the call chain, _build and the model functions after general normalisations "
    "(translator/c04_norm.py: helpers of the same module / class inlined, guard clauses -> if/else, single-assignment "
    "aliases and named intermediate results substituted, if/else assignment -> conditional expression); a row that does "
    "not have the shape the theorems need is a broken obligation, never a violation by itself; "
    "fails closed on other shapes; helper calls are followed by NAME inside pyxel/models, an "
    "over-approximation; set expressions are recognised syntactically: literals, set()/frozenset(), comprehensions, "
    "set methods, `a.keys() & b`, names bound to those)",
    "Section variables of Model/Rng.v: the generator is ANY (gen, val, seed_gen : Z -> gen, next : Z -> gen -> gen * val) "
    "and the process is ANY (swap : Z -> bool, which hash-ordered sites come out swapped); the only assumption is that "
    "seeding and drawing are functions of their arguments (MT19937 itself is not modelled)",
    "correspondence harness: harness/props/c04.py session generator, harness/drivers/c04.py (sha1 of "
    "np.random.get_state() at probe points, renumbered by first occurrence; child interpreters started with their own "
    "PYTHONHASHSEED, the generator state carried from one to the next; wrappers installed from outside around "
    "np.random.seed / np.random.set_state (bracket trace with thread and seed; after a run that raised the generator "
    "state is taken while the exception is still referenced), one Detector object reused by several runs where the "
    "session says so, pygmo.island.__init__ (planned delays, "
    "finishing order) and ArchipelagoDataTree.__init__/_build (parallel flag, seed of every island)), "
    "probes/verif_probes.py rng_probe/fail/write",
    "modelled, not verified: np.random.get_state()/set_state() capture and restore the whole legacy generator; distinct "
    "hashed states / draw values are treated as distinct (no collisions); a run's result is a function of its "
    "configuration and of the values it draws (results are compared one way only: equalities the model forces must "
    "hold); pygmo's own generator is deterministic for a fixed pygmo_seed (checked only by repetition); dask runs under "
    "the synchronous scheduler; the bracket theorems speak about one thread of control - the harness checks in Coq that "
    "every observed bracket trace is LIFO, thread interleavings themselves belong to C07",
]

SEEDS = [0, 1, 2 ** 32 - 1]
CALL_MODELS = ["shot_noise", "shot_noise_normal", "simple_conversion", "simple_dark_current",
               "fixed_pattern_noise", "output_node_noise", "ktc_noise", "output_node_noise_cmos",
               # formerly covered by the bracket table only
               "dark_current", "charge_deposition", "charge_deposition_in_mct", "cosmix",
               "radiation_induced_dark_current", "dark_current_rule07", "dark_current_saphira",
               "readout_noise_saphira", "conversion_with_qe_map", "nghxrg", "nghxrg2"]
SLOW_MODELS = ("cosmix",)
ROW = {
    "shot_noise": "photon_collection.shot_noise.shot_noise",
    "shot_noise_normal": "photon_collection.shot_noise.shot_noise",
    "simple_conversion": "charge_generation.photoelectrons.simple_conversion",
    "simple_dark_current": "charge_generation.simple_dark_current.simple_dark_current",
    "dark_current": "charge_generation.dark_current.dark_current",
    "fixed_pattern_noise": "charge_collection.fixed_pattern_noise.fixed_pattern_noise",
    "output_node_noise": "charge_measurement.readout_noise.output_node_noise",
    "ktc_noise": "charge_measurement.reset_noise.ktc_noise",
    "output_node_noise_cmos": "charge_measurement.readout_noise.output_node_noise_cmos",
    "charge_deposition": "charge_generation.charge_deposition.charge_deposition",
    "charge_deposition_in_mct": "charge_generation.charge_deposition.charge_deposition_in_mct",
    "cosmix": "charge_generation.cosmix.cosmix.cosmix",
    "radiation_induced_dark_current": "charge_generation.dark_current_induced.radiation_induced_dark_current",
    "dark_current_rule07": "charge_generation.dark_current_rule07.dark_current_rule07",
    "dark_current_saphira": "charge_generation.dark_current_saphira.dark_current_saphira",
    "readout_noise_saphira": "charge_measurement.readout_noise.readout_noise_saphira",
    "conversion_with_qe_map": "charge_generation.photoelectrons.conversion_with_qe_map",
    "nghxrg": "charge_measurement.nghxrg.nghxrg.nghxrg",
    "nghxrg2": "charge_measurement.nghxrg.nghxrg.nghxrg",
}
GROUPS = ["photon_collection", "charge_generation", "charge_collection", "charge_measurement"]
BY_GROUP = {
    "photon_collection": ["shot_noise", "shot_noise_normal"],
    "charge_generation": ["simple_conversion", "simple_dark_current"],
    "charge_collection": ["fixed_pattern_noise"],
    "charge_measurement": ["output_node_noise", "ktc_noise"],
}
ENTRIES = ["ctor", "setter", "override", "yaml"]
# keys of an item that say HOW it is run, not WHAT is run: two items that differ only in these are the
# same configuration and must give the same result
NON_SEMANTIC = ("via", "stale_seed", "proc", "delay", "predelay", "parallel", "cfg", "yaml_null", "share_det")
NON_SEMANTIC_ENTRY = ("seed_via", "stale_seed")


def mrow(short: str) -> str:
    return "mrow_" + "".join(ch if ch.isalnum() else "_" for ch in ROW[short])


# ------------------------------------------------------------------------------------------ generation


def gen_seed(r):
    return r.choice(SEEDS + [r.randrange(2, 2 ** 32 - 1), r.randrange(2, 100000)])


def gen_pipeline(r, own_seeds: str, probes: bool, fail: bool, emccd=False):
    """own_seeds: 'none' | 'all' | 'mixed'."""
    entries = []
    for g in GROUPS:
        if g == "charge_collection":
            entries.append(dict(k="collect"))
        if g == "charge_measurement":
            entries.append(dict(k="measure"))
        for m in BY_GROUP[g]:
            if r.random() < 0.55:
                e = dict(k="model", model=m)
                if own_seeds == "all" or (own_seeds == "mixed" and r.random() < 0.5):
                    e["seed"] = gen_seed(r)
                entries.append(e)
        if probes and r.random() < 0.6:
            entries.append(dict(k="probe", group=g, draw=r.choice([0, 0, 1, 2, 3]) if own_seeds != "all" else 0))
        if fail and g == "charge_collection":
            entries.append(dict(k="fail", group=g, at_step=0))
    if own_seeds != "all" and not fail and r.random() < 0.3:
        entries.append(dict(k="model", model="sar_adc", noseed=True))    # stochastic, has no `seed` parameter
    if emccd:
        entries.append(dict(k="model", model="emccd"))
    if not any(e["k"] == "model" for e in entries):
        e = dict(k="model", model="shot_noise")
        if own_seeds == "all":
            e["seed"] = gen_seed(r)
        entries.insert(0, e)
    return entries


def priors(r, n):
    out = [[]]
    while len(out) < n:
        k = r.random()
        if k < 0.35:
            out.append([dict(op="seed", j=r.choice([0, 1, 42, 1234, r.randrange(2 ** 32)]))])
        elif k < 0.65:
            out.append([dict(op="draws", k=r.randrange(1, 6))])
        else:
            out.append([dict(op="seed", j=r.randrange(2 ** 32)), dict(op="draws", k=r.randrange(1, 4))])
    return out


def session_of(r, run_item, n=3):
    items = []
    for pr in priors(r, n):
        items += copy.deepcopy(pr)
        items.append(copy.deepcopy(run_item))
    return items


def probe_pipeline(r, own_seed=None):
    """A small pipeline whose generator use is fully visible: probes that draw, and stochastic models."""
    pipe = [dict(k="probe", group="photon_collection", draw=r.choice([1, 2])),
            dict(k="model", model="shot_noise"), dict(k="collect"),
            dict(k="probe", group="charge_measurement", draw=r.choice([1, 3]))]
    if own_seed is not None:
        pipe.insert(2, dict(k="model", model="simple_conversion", seed=own_seed))
    return pipe


def closed_pipeline(r, seeds, seed_via="arguments"):
    """Every stochastic model carries its own seed (taken from `seeds`); no probe draws."""
    ms = ["shot_noise", "simple_conversion", "fixed_pattern_noise", "ktc_noise"]
    pipe = []
    for i, m in enumerate(ms):
        if m == "fixed_pattern_noise":
            pipe.append(dict(k="collect"))
        if m == "ktc_noise":
            pipe.append(dict(k="measure"))
        e = dict(k="model", model=m, seed=seeds[i % len(seeds)])
        if seed_via != "arguments":
            e["seed_via"] = seed_via
        pipe.append(e)
    pipe.append(dict(k="probe", group="charge_measurement", draw=0))
    return pipe


def det_cal_pipeline():
    """Deterministic pipeline for multi-island calibrations (threads: no draw from the shared generator)."""
    return [dict(k="model", model="simple_conversion_det", name="qe", nodraw=True), dict(k="collect")]


def gen_entry_sessions(r, quick: bool):
    """(b) every way a seed reaches a run x boundary seeds."""
    S = []
    modes = [("exposure", {}), ("observation", dict(values=[1, 2])), ("observation", dict(values=[1, 2], dask=True))]
    for op, extra in modes:
        for seed in SEEDS + [None]:
            if quick and op == "observation" and seed == 1:
                continue
            pipe = probe_pipeline(r)
            base = dict(op=op, pipeline=pipe, pipeline_seed=seed, **extra)
            if op == "exposure":
                base["steps"] = r.choice([1, 2])
            items = []
            for k, via in enumerate(ENTRIES):
                if k:
                    items += [dict(op="seed", j=r.randrange(2 ** 32))] if k % 2 else [dict(op="draws", k=r.randrange(1, 4))]
                it = dict(copy.deepcopy(base), via=via)
                if via in ("setter", "override"):
                    it["stale_seed"] = 77 if seed != 77 else 78
                if via == "yaml" and seed is None:
                    it["yaml_null"] = r.random() < 0.5
                items.append(it)
            S.append(dict(kind=f"entry_{op}{'_dask' if extra.get('dask') else ''}", items=items))
    # calibration (1 island): the pipeline seed through every door
    for seed in ([0] if quick else [0, 1, 2 ** 32 - 1]):
        pipe = [dict(k="model", model="shot_noise"), dict(k="model", model="simple_conversion", name="qe"), dict(k="collect")]
        base = dict(op="calibration", pipeline=pipe, pipeline_seed=seed, pygmo_seed=r.randrange(100000), pop=7,
                    generations=1, evolutions=1)
        items = []
        for k, via in enumerate(ENTRIES if not quick else ["setter", "yaml"]):
            if k:
                items.append(dict(op="seed", j=r.randrange(2 ** 32)))
            it = dict(copy.deepcopy(base), via=via)
            if via in ("setter", "override"):
                it["stale_seed"] = 77
            items.append(it)
        S.append(dict(kind="entry_calibration", items=items))
    # model `seed` arguments: ModelFunction arguments vs override key, boundary values; sweep over the seed
    for sv in ([SEEDS] if quick else [SEEDS, [0, 0, 0, 0], [2 ** 32 - 1, 0, 1]]):
        a = dict(op="exposure", pipeline=closed_pipeline(r, sv), steps=1, pipeline_seed=None)
        b2 = dict(op="exposure", pipeline=closed_pipeline(r, sv, "override"), steps=1, pipeline_seed=None)
        S.append(dict(kind="entry_model_seed", items=[copy.deepcopy(a), dict(op="seed", j=r.randrange(2 ** 32)),
                                                      copy.deepcopy(b2), dict(op="draws", k=2), copy.deepcopy(a)]))
    for dask in ([False] if quick else [False, True]):
        pipe = closed_pipeline(r, [5, 6, 7, 8])
        idx = [i for i, e in enumerate(pipe) if e["k"] == "model"][r.randrange(4)]
        ob = dict(op="observation", dask=dask, pipeline=pipe, values=[], pipeline_seed=None,
                  sweep_seed=dict(index=idx, values=SEEDS))
        S.append(dict(kind="entry_sweep_seed", items=[copy.deepcopy(ob), dict(op="seed", j=r.randrange(2 ** 32)),
                                                      copy.deepcopy(ob)]))
    return S


def gen_xproc_sessions(r, quick: bool):
    """(a) the same seeded items in fresh interpreter processes with different PYTHONHASHSEED values."""
    S = []
    nproc = 3 if quick else 4
    models = [m for m in CALL_MODELS if not (quick and m in SLOW_MODELS)]
    r.shuffle(models)
    ngroups = 3 if quick else 5
    groups = [models[i::ngroups] for i in range(ngroups)]
    for gi, grp in enumerate(groups):
        procs = [0, 1 + r.randrange(100)] + [r.randrange(2 ** 32) for _ in range(nproc - 2)]
        calls = [dict(op="call", model=m, seed=gen_seed(r)) for m in grp]
        items = []
        for pi in range(nproc):
            if pi:
                items.append(dict(op="seed", j=r.randrange(2 ** 32), proc=pi) if pi % 2 else dict(op="draws", k=pi, proc=pi))
            items += [dict(copy.deepcopy(c), proc=pi) for c in calls]
        S.append(dict(kind="xproc_calls", procs=procs, items=items))
    # whole runs: pipeline seed only / model seeds only, incl. the HxRG noise generator driven by the pipeline seed
    # distinct pipeline seeds: two DIFFERENT configurations started from the same seed could draw the same
    # numbers for a while, an equality the free generator of the model does not predict
    ps = r.sample(SEEDS + [r.randrange(2, 2 ** 32 - 1), r.randrange(2, 100000)], 4)
    runs = [
        dict(op="exposure", pipeline=probe_pipeline(r, own_seed=gen_seed(r)), steps=2, pipeline_seed=ps[0]),
        dict(op="exposure", det="cmos", rows=16, temp=100.0, steps=1, pipeline_seed=ps[1],
             pipeline=[dict(k="model", model="simple_conversion"), dict(k="collect"), dict(k="measure"),
                       dict(k="model", model="nghxrg")]),
        dict(op="observation", dask=False, pipeline=probe_pipeline(r), values=[1, 2], pipeline_seed=ps[2]),
    ]
    if not quick:
        runs.append(dict(op="observation", dask=True, pipeline=probe_pipeline(r), values=[1, 2], pipeline_seed=ps[3]))
        runs.append(dict(op="exposure", pipeline=closed_pipeline(r, SEEDS), steps=1, pipeline_seed=None))
    procs = [0, 1 + r.randrange(100), r.randrange(2 ** 32)]
    items = []
    for pi in range(3):
        if pi:
            items.append(dict(op="seed", j=r.randrange(2 ** 32), proc=pi))
        items += [dict(copy.deepcopy(x), proc=pi) for x in runs]
    S.append(dict(kind="xproc_runs", procs=procs, items=items))
    return S


def gen_history_sessions(r, quick: bool):
    """(d) what ran EARLIER in the process must not matter: the same Detector object handed to several runs (as in a
    notebook calling run_mode twice on one loaded configuration), under the same and under another pipeline seed;
    stochastic models that have no `seed` parameter of their own (only the pipeline seed reaches them)."""
    S = []
    s1, s2 = r.sample(SEEDS + [r.randrange(2, 2 ** 32 - 1), r.randrange(2, 100000)], 2)
    for variant in range(1 if quick else 3):
        steps = [2, 1, 3][variant]
        pipe = [dict(k="model", model="shot_noise"), dict(k="model", model="simple_conversion"), dict(k="collect"),
                dict(k="model", model="fixed_pattern_noise"), dict(k="measure"),
                dict(k="model", model=["ktc_noise", "output_node_noise", "ktc_noise"][variant]),
                dict(k="probe", group="charge_measurement", draw=1)]
        a = dict(op="exposure", pipeline=pipe, steps=steps, pipeline_seed=s1)
        b = dict(op="exposure", pipeline=pipe, steps=steps, pipeline_seed=s2)
        u = dict(op="exposure", pipeline=pipe, steps=steps, pipeline_seed=None)
        sh = lambda x: dict(copy.deepcopy(x), share_det="A")      # noqa: E731
        S.append(dict(kind="shared_detector", items=[
            copy.deepcopy(a), dict(op="draws", k=2), sh(a), dict(op="seed", j=r.randrange(2 ** 32)), sh(a),
            sh(b), sh(a), sh(u), dict(op="draws", k=1), sh(a), copy.deepcopy(b)]))
    for variant in range(1 if quick else 2):
        pipe = [dict(k="model", model="simple_conversion_det", nodraw=True), dict(k="collect"), dict(k="measure"),
                dict(k="model", model="sar_adc", noseed=True), dict(k="probe", group="charge_measurement", draw=1)]
        if variant:
            pipe.insert(0, dict(k="model", model="shot_noise"))
        a = dict(op="exposure", pipeline=pipe, steps=1 + variant, pipeline_seed=[s2, s1][variant])
        S.append(dict(kind="unseeded_model", items=session_of(r, a, n=3)))
    return S


def gen_island_sessions(r, quick: bool):
    """(c) several islands, parallel and sequential creation, forced out-of-order completion."""
    S = []
    for c in range(1 if quick else 3):
        n = r.choice([3, 4]) if c else 3
        # the optimiser seed at its boundaries too (0 is falsy, 100000 is the largest the setter accepts)
        pg_seed = [0, 100000, r.randrange(1, 100000)][c % 3]
        cal = dict(op="calibration", pipeline=det_cal_pipeline(), pipeline_seed=None, pygmo_seed=pg_seed,
                   pop=r.choice([7, 8]), generations=1, evolutions=1, islands=n,
                   topology="unconnected" if c != 1 else "ring")
        step = 0.3
        rev = [round(step * (n - 1 - k), 2) for k in range(n)]          # the first created finishes last
        mid = [round(step * ((k * 2 + 1) % n), 2) for k in range(n)]     # some other order
        fwd_ = [round(step * k, 2) for k in range(n)]                    # the first created finishes first
        items = [dict(copy.deepcopy(cal), delay=fwd_), dict(op="seed", j=r.randrange(2 ** 32)),
                 dict(copy.deepcopy(cal), delay=rev, predelay=[round(0.15 * (n - 1 - k), 2) for k in range(n)]),
                 dict(copy.deepcopy(cal), parallel=False, delay=[0.0] * n)]
        if not quick:
            items.insert(3, dict(copy.deepcopy(cal), delay=mid))
            items.append(dict(copy.deepcopy(cal), delay=[0.0] * n))          # whatever order the threads take
        S.append(dict(kind="cal_islands", items=items))
    return S


def gen_sessions(ctx: Ctx, budget: int, salt="cases"):
    r = ctx.rng(salt)
    quick = ctx.quick
    S = []
    # direct calls of every seeded model: same seed / different prior state; seed None
    for m in CALL_MODELS:
        s = gen_seed(r)
        call = dict(op="call", model=m, seed=s)
        un = dict(op="call", model=m, seed=None)
        if m in SLOW_MODELS:
            items = [copy.deepcopy(call), dict(op="seed", j=r.randrange(2 ** 32)), copy.deepcopy(call), copy.deepcopy(un)]
        else:
            items = [copy.deepcopy(call), dict(op="seed", j=r.randrange(2 ** 32)), copy.deepcopy(call),
                     dict(op="draws", k=r.randrange(1, 5)), copy.deepcopy(call), copy.deepcopy(un),
                     dict(op="seed", j=r.randrange(2 ** 32)), copy.deepcopy(un)]
        S.append(dict(kind="call", items=items))
    # every seeded model at the boundary seeds (falsy 0, 1, largest)
    bitems = []
    for m in [x for x in CALL_MODELS if x not in SLOW_MODELS and x != "nghxrg2"]:
        sd = SEEDS[len(bitems) % 3] if not quick else 0
        bitems += [dict(op="call", model=m, seed=sd), dict(op="draws", k=1), dict(op="call", model=m, seed=sd)]
    for k in range(0, len(bitems), 18):
        S.append(dict(kind="call_boundary", items=bitems[k:k + 18]))
    # the known-defect scenarios
    em = dict(op="exposure", pipeline=[dict(k="model", model="simple_conversion", seed=1), dict(k="collect"),
                                      dict(k="model", model="emccd")], steps=1, pipeline_seed=5)
    S.append(dict(kind="emccd", items=[copy.deepcopy(em), dict(op="seed", j=3), copy.deepcopy(em)], no_model=True))
    ncal = 1 if ctx.quick else 3
    for c in range(ncal):
        pipe = [dict(k="model", model="shot_noise"), dict(k="model", model="simple_conversion", name="qe"), dict(k="collect")]
        cal = dict(op="calibration", pipeline=pipe, pipeline_seed=gen_seed(r) % 100000, pygmo_seed=r.randrange(100000),
                   pop=r.choice([7, 8]), generations=1, evolutions=r.choice([1, 2]) if c else 1)
        S.append(dict(kind="calibration", items=[copy.deepcopy(cal), dict(op="seed", j=r.randrange(2 ** 32)),
                                                 dict(op="draws", k=2), copy.deepcopy(cal)]))
        if c == 0:
            # calibration whose stochastic models all carry their own seed: reproducible even now
            pipe2 = [dict(k="model", model="shot_noise", seed=3), dict(k="model", model="simple_conversion", name="qe", seed=4),
                     dict(k="collect")]
            cal2 = dict(cal, pipeline=pipe2)
            S.append(dict(kind="calibration_closed", items=[copy.deepcopy(cal2), dict(op="seed", j=9), copy.deepcopy(cal2)]))
    S += gen_entry_sessions(r, quick)
    S += gen_island_sessions(r, quick)
    S += gen_xproc_sessions(r, quick)
    S += gen_history_sessions(r, quick)
    templates = ["exp_probe", "exp_models", "exp_nested", "exp_raise", "exp_closed", "exp_unseeded", "obs", "obs_dask",
                 "exp_models", "obs"]
    k = 0
    while len(S) < budget:
        t = templates[k % len(templates)]
        k += 1
        steps = r.choice([1, 1, 2, 3])
        seed = gen_seed(r)
        if t == "exp_probe":
            pipe = [dict(k="probe", group="photon_collection", draw=r.choice([1, 2])), dict(k="collect"),
                    dict(k="probe", group="charge_measurement", draw=r.choice([0, 1, 3]))]
            it = dict(op="exposure", pipeline=pipe, steps=steps, pipeline_seed=seed)
        elif t == "exp_models":
            it = dict(op="exposure", pipeline=gen_pipeline(r, "none", True, False), steps=steps, pipeline_seed=seed)
        elif t == "exp_nested":
            it = dict(op="exposure", pipeline=gen_pipeline(r, "mixed", True, False), steps=steps, pipeline_seed=seed)
        elif t == "exp_raise":
            it = dict(op="exposure", pipeline=gen_pipeline(r, r.choice(["none", "mixed"]), True, True), steps=steps,
                      pipeline_seed=seed)
        elif t == "exp_closed":
            it = dict(op="exposure", pipeline=gen_pipeline(r, "all", True, r.random() < 0.3), steps=steps, pipeline_seed=None)
        elif t == "exp_unseeded":
            it = dict(op="exposure", pipeline=gen_pipeline(r, "mixed", True, False), steps=steps, pipeline_seed=None)
        else:
            it = dict(op="observation", dask=(t == "obs_dask"), pipeline=gen_pipeline(r, r.choice(["none", "mixed"]), True, False),
                      values=[1, 2, 3][:r.choice([2, 3])], pipeline_seed=seed)
        it["via"] = r.choice(ENTRIES)
        if it["via"] in ("setter", "override"):
            it["stale_seed"] = 77
        S.append(dict(kind=t, items=session_of(r, it, n=r.choice([2, 3]))))
    for sess in S:
        for it, cid in zip(sess["items"], cfg_ids(sess["items"])):
            it["cfg"] = cid
    return S


# ------------------------------------------------------------------------------------------ programs

MODE_NAME = {"exposure": "exposure", "observation": "observation", "observation_dask": "observation_dask",
             "calibration": "calibration"}


def entry_prog(e, step, base, i, seed_override=None):
    if e.get("nodraw"):
        return "Skip"
    if e.get("noseed"):      # a stochastic model without a `seed` parameter: draws from whatever generator is current
        return f"(Draw {4 * (base + 40 * step + i + 1)})"
    sd = e.get("seed") if seed_override is None else seed_override[0]
    return f"(model_prog {mrow(e['model'])} {core.copt(sd, core.cz)} {base + 40 * step + i + 1})"


def step_body(entries, step, base, facts, sweep=None):
    """sweep = (index of the entry whose seed is swept, value) for observations sweeping a model seed."""
    ps = []
    for i, e in enumerate(entries):
        if e["k"] == "probe":
            n = int(e.get("draw", 0))
            ps.append(f"(Seq Observe (Seq (repeat_prog {n} (Draw 0)) Observe))")
        elif e["k"] == "fail":
            ps.append("Raise" if e.get("at_step") in (None, step) else "Skip")
        elif e["k"] == "model" and e["model"] != "emccd":
            so = (sweep[1],) if sweep is not None and sweep[0] == i else None
            ps.append(entry_prog(e, step, base, i, so))
    return "(seq_all " + core.clist(ps) + ")"


def arriving_seed(it, mode: str) -> str:
    """The seed that reaches set_random_seed, computed IN COQ from the regenerated link table, the door the
    seed came through and the seed given."""
    sd = core.copt(it.get("pipeline_seed"), core.cz)
    return f'(seed_through src_links "{mode}" "{it.get("via", "ctor")}" {sd})'


def item_prog(it, cfg_id, facts) -> str:
    op = it["op"]
    if op == "seed":
        return f"(BareSeed {core.cz(it['j'])})"
    if op == "draws":
        return f"(repeat_prog {int(it['k'])} (Draw 0))"
    base = 100000 * (cfg_id + 1)
    if op == "exposure":
        bodies = [step_body(it["pipeline"], s, base, facts) for s in range(it.get("steps", 1))]
        return f'(mode_prog MExposure true {arriving_seed(it, "exposure")} {core.clist(bodies)})'
    if op == "observation":
        sw = it.get("sweep_seed")
        if sw:
            bodies = [step_body(it["pipeline"], 0, base, facts, sweep=(sw["index"], int(v))) for v in sw["values"]]
        else:
            bodies = [step_body(it["pipeline"], 0, base, facts) for _ in it["values"]]
        if it.get("dask"):
            return f'(mode_prog MObservationDask true {arriving_seed(it, "observation_dask")} {core.clist(bodies)})'
        return f'(mode_prog MObservation true {arriving_seed(it, "observation")} {core.clist(bodies)})'
    if op == "call":
        return f"(model_prog {mrow(it['model'])} {core.copt(it.get('seed'), core.cz)} {base})"
    if op == "calibration":
        n = it.get("pop", 7) * 2
        bodies = [step_body(it["pipeline"], 0, base + 1000 * (vi + 1), facts) for vi in range(n)]
        return f'(mode_prog MCalibration true {arriving_seed(it, "calibration")} {core.clist(bodies)})'
    raise ValueError(op)


def flags(it):
    """(seeded, closed) as the PROPERTY demands them (not as the code happens to behave)."""
    op = it["op"]
    if op in ("seed", "draws"):
        return False, False
    if op == "call":
        return it.get("seed") is not None, False
    seeded = it.get("pipeline_seed") is not None
    sw = it.get("sweep_seed")
    closed = (not seeded) and all(
        (e["k"] != "probe" or int(e.get("draw", 0)) == 0)
        and (e["k"] != "model" or e.get("nodraw") or (e.get("seed") is not None and e["model"] != "emccd")
             or (sw is not None and sw["index"] == i))
        for i, e in enumerate(it["pipeline"]))
    return seeded, closed


def semantic(it):
    d = {k: v for k, v in it.items() if k not in NON_SEMANTIC}
    if "pipeline" in d:
        d["pipeline"] = [{k: v for k, v in e.items() if k not in NON_SEMANTIC_ENTRY} for e in d["pipeline"]]
    return d


def cfg_ids(items):
    ids, m = [], {}
    for it in items:
        key = json.dumps(semantic(it), sort_keys=True)
        if key not in m:
            m[key] = len(m)
        ids.append(m[key])
    return ids


def aux_of(it, o):
    """(model side as a Coq term, implementation side) of the island assignment of a calibration."""
    aux = o.get("aux")
    if not aux or it.get("op") != "calibration":
        return "[]", "[]"
    branch = "sequential" if it.get("parallel") is False else "parallel"
    order = core.clist(f"{int(k)}%nat" for k in aux["order"])
    model = f'(island_assignment src_island_build "{branch}" {int(aux["n"])} {order})'
    return model, core.clist(core.cz(int(x)) for x in aux["assignment"])


def emit_case(sess, obs, facts) -> str:
    ids = cfg_ids(sess["items"])
    rows = []
    for it, o, cid in zip(sess["items"], obs["items"], ids):
        seeded, closed = flags(it)
        m_aux, o_aux = aux_of(it, o)
        rows.append(
            "{| it_run := %s; it_prog := %s; it_seeded := %s; it_closed := %s; it_cfg := %d; it_proc := %d; "
            "it_aux := %s; ob_pre := %d; ob_inner := %s; ob_post := %d; ob_draws := %s; ob_res := %s; "
            "ob_raised := %s; ob_aux := %s; it_collapse := %s; ob_trace := %s |}" % (
                core.cbool(o["run"]), item_prog(it, cid, facts), core.cbool(seeded), core.cbool(closed), cid,
                int(it.get("proc", 0)), m_aux, o["pre"],
                core.clist(str(x) for x in o["inner"]), o["post"], core.clist(str(x) for x in o["draws"]),
                core.cz(o["res"]), core.cbool(o["raised"]), o_aux, core.cbool(it.get("op") == "calibration" or bool(it.get("dask"))),
                trace_lit(o.get("trace", []))))
    return "[" + ";\n   ".join(rows) + "]"


def trace_lit(tr) -> str:
    out = []
    for t, kind, sd in tr:
        if kind == "enter":
            out.append(f"BEnter {int(t)} {core.cz(-1 if sd is None else int(sd))}")
        else:
            out.append(f"BExit {int(t)}")
    return core.clist(out)


def emit_file(pairs, facts) -> str:
    body = ";\n  ".join(emit_case(s, o, facts) for s, o in pairs)
    return ("From Coq Require Import ZArith List Bool String.\nFrom PyxelV Require Import Model.Rng.\n"
            "From PyxelGen Require Import Gen_C04.\nImport ListNotations.\nOpen Scope Z_scope.\n"
            f"Definition cases : list (list item) := [\n  {body}\n].\n"
            "Eval vm_compute in mismatches src_srs_cfg cases.\n"
            "Eval vm_compute in violations cases.\n"
            "Eval vm_compute in interleaved cases.\n")


# ------------------------------------------------------------------------------------------ classification


def classify(sess, obs):
    """Python-side naming + shrinking of a session that Coq judged to violate the specification."""
    items, ob = sess["items"], obs["items"]
    ids = cfg_ids(items)
    fl = [flags(it) for it in items]

    def uses(it):
        return "emccd" if any(e.get("model") == "emccd" for e in it.get("pipeline", [])) else (it.get("model") or "plain")

    def extra(it):
        d = dict(op=it["op"], uses=uses(it))
        if it["op"] == "calibration":
            d["seeded"] = it.get("pipeline_seed") is not None
            d["islands"] = int(it.get("islands", 1))
        return d

    def aux(o):
        return (o.get("aux") or {}).get("assignment")

    for i, (it, o) in enumerate(zip(items, ob)):
        if o["run"] and (fl[i][0] or fl[i][1]) and o["pre"] != o["post"]:
            return "not_restored", [i], dict(extra(it), raised=o["raised"], via=it.get("via", "ctor"),
                                             seed_class=seed_class(it))
    for i in range(len(items)):
        for j in range(i + 1, len(items)):
            a, b = ob[i], ob[j]
            if not (a["run"] and b["run"] and ids[i] == ids[j]):
                continue
            det = fl[i][0] or fl[i][1]
            if det and (a["res"] != b["res"] or a["raised"] != b["raised"] or a["draws"] != b["draws"] or aux(a) != aux(b)):
                d = extra(items[i])
                if items[i].get("proc", 0) != items[j].get("proc", 0):
                    d["across"] = "processes"
                elif items[i].get("via", "ctor") != items[j].get("via", "ctor"):
                    d["across"] = "entries"
                    d["via"] = sorted([items[i].get("via", "ctor"), items[j].get("via", "ctor")])
                elif aux(a) != aux(b) or items[i].get("delay") != items[j].get("delay") \
                        or items[i].get("predelay") != items[j].get("predelay") \
                        or items[i].get("parallel") != items[j].get("parallel"):
                    d["across"] = "island_completion_orders"
                return "not_reproducible", [i, j], d
            if not fl[i][0] and not fl[i][1] and a["pre"] != b["pre"] and a["post"] == b["post"]:
                return "made_deterministic", [i, j], extra(items[i])
    return "unclassified", list(range(len(items))), dict(op="?")


def seed_class(it):
    s = it.get("pipeline_seed", it.get("seed"))
    return "none" if s is None else "0" if s == 0 else "1" if s == 1 else "2^32-1" if s == 2 ** 32 - 1 else "other"


def to_violation(sess, obs) -> Violation:
    clause, idx, extra = classify(sess, obs)
    last = max(idx)
    # keep everything up to the last offending item (the generator state is carried along the session)
    keep = list(range(last + 1))
    case = dict(kind=sess["kind"], items=[sess["items"][i] for i in keep])
    if sess.get("procs"):
        case["procs"] = sess["procs"]
    observed = dict(items=[obs["items"][i] for i in keep], offending_items=[keep.index(i) for i in idx])
    it = sess["items"][idx[0]]
    return Violation(
        clause=clause, case=case, observed=observed,
        expected="seeded items: generator state after = before, and equal results/draws for equal configurations "
                 "from any prior state, in any interpreter process (PYTHONHASHSEED), through any entry (constructor, "
                 "YAML, setter, override), for any completion order of the island threads; unseeded items must not end "
                 "in the same state from different prior states",
        what=f"{clause}: {it['op']} {json.dumps({k: v for k, v in it.items() if k != 'pipeline'})[:200]}"
             + (f" [{extra.get('across')}]" if extra.get("across") else ""),
        sig=dict(clause=clause, **extra))


# ------------------------------------------------------------------------------------------ legs


def session_cost(sess) -> float:
    c = 0.0
    for it in sess["items"]:
        op = it["op"]
        if op == "calibration":
            c += 3.0 + 1.5 * int(it.get("islands", 1)) + sum(it.get("delay", []))
        elif op == "call":
            c += 3.0 if it["model"] in SLOW_MODELS else 0.2
        elif op in ("exposure", "observation"):
            c += 0.4
    return c + 6.0 * len(sess.get("procs", []))


def balanced_order(sessions, workers):
    """Indices of the sessions, dealt over the workers in snake order by decreasing cost, so that run_driver's
    contiguous chunks have similar total cost."""
    idx = sorted(range(len(sessions)), key=lambda i: -session_cost(sessions[i]))
    bins = [[] for _ in range(workers)]
    for k, i in enumerate(idx):
        rnd, pos = divmod(k, workers)
        bins[pos if rnd % 2 == 0 else workers - 1 - pos].append(i)
    size = max(len(b) for b in bins)
    # run_driver cuts chunks of ceil(n/workers): move items so that every bin but the last ones has that size
    flat = [i for b in bins for i in b]
    return flat


def correspondence(ctx: Ctx, sessions, facts, tag="c"):
    order = balanced_order(sessions, 8)
    got = core.run_driver(ctx, "c04", [sessions[i] for i in order], workers=8, timeout=600)
    obs = [None] * len(sessions)
    for i, o in zip(order, got):
        obs[i] = o
    pairs = []
    for s, o in zip(sessions, obs):
        if "crash" in o or "driver_error" in o:
            ctx.broken.append(Broken("correspondence", "implementation driver failed", str(o)[:800], s))
            continue
        pairs.append((s, o))
    files, per = {}, 12
    for k in range(0, len(pairs), per):
        files[f"{tag}_{k // per:03d}"] = emit_file(pairs[k:k + per], facts)
    res = core.coq_eval_many(ctx, files, timeout=600, par=8)
    mism, viol = [], []
    for k, name in enumerate(sorted(files)):
        ok, evals, se = res[name]
        chunk = pairs[k * per:(k + 1) * per]
        if not ok or len(evals) != 3:
            ctx.broken.append(Broken("correspondence", f"case file {name}.v did not evaluate", core.tail(se, 15)))
            continue
        mism += [chunk[i] for i in core.parse_int_list(evals[0]) if not chunk[i][0].get("no_model")]
        viol += [chunk[i] for i in core.parse_int_list(evals[1])]
        for i in core.parse_int_list(evals[2]):
            if not chunk[i][0].get("no_model"):
                ctx.broken.append(Broken(
                    "assumption", "one thread of control over the process-wide generator",
                    f"the np.random.seed / set_state calls observed in a {chunk[i][0]['kind']} session are not LIFO: "
                    "brackets of different threads interleave (hypothesis of C04_one_thread_of_control; C07)",
                    dict(case=chunk[i][0], observed=chunk[i][1])))
    for s, o in pairs:
        runs = [x for x in o["items"] if x["run"]]
        ctx.count("evaluations", len(runs))
        ctx.count("sessions")
        ctx.dist("session_kind", s["kind"])
        ctx.dist("raised_runs", sum(1 for x in runs if x["raised"]))
        if s.get("procs"):
            ctx.dist("interpreter_processes_per_session", len(s["procs"]))
            for h in o.get("hashseeds", []):
                ctx.dist("hashseed_class", "0" if str(h) == "0" else "small" if int(h) < 1000 else "large")
        for it, oi in zip(s["items"], o["items"]):
            if it["op"] in ("exposure", "observation", "calibration"):
                ctx.dist("seed_entry", it.get("via", "ctor"))
            if oi.get("aux"):
                ax = oi["aux"]
                ctx.dist("island_completion", "in_order" if ax["order"] == sorted(ax["order"]) else "out_of_order")
                ctx.dist("island_creation", "sequential" if it.get("parallel") is False else "parallel")
        for it in s["items"]:
            ctx.dist("op", it["op"])
            if it.get("pipeline_seed") is not None:
                ctx.dist("seed_class", "0" if it["pipeline_seed"] == 0 else "1" if it["pipeline_seed"] == 1 else
                         "2^32-1" if it["pipeline_seed"] == 2 ** 32 - 1 else "random")
    return mism, viol, pairs


def table_facts(facts):
    """Rows of the regenerated tables that do not have the shape the theorems need, as (clause, case, text).
    These are facts ABOUT THE SOURCE TEXT AS THE TRANSLATOR READ IT - a link the translator could not follow reads
    as 'drops the seed', a draw it could not place reads as 'outside the bracket'.  They are therefore never
    violations by themselves: each one is a broken obligation (the theorem over the table fails as well), the
    search stage then tries to CONFIRM it by running the implementation, and only a run that breaks the
    specification is reported with a concrete input."""
    out = []
    for site, n in facts.get("seed_sites", []):
        out.append(("global_seeding", dict(site=site, calls=n),
                    f"{site}: np.random.seed / set_state outside util/randomize.py ({n} call(s))"))
    for r in facts.get("models", []):
        if r["outside"] or r["bare_seed"] or not r["bracket_seed"]:
            out.append(("model_not_bracketed", dict(r),
                        f"{r['name']}: {r['outside']} draw site(s) read as outside the bracket, {r['bare_seed']} bare reseeding "
                        f"call(s), bracket given the function's own seed: {r['bracket_seed']}"))
    for m, e, l, x in facts.get("links", []):
        if x != "XId":
            out.append(("seed_not_forwarded", dict(mode=m, entry=e, link=l, transfer=x),
                        f"{m}{'/' + e if e else ''}: {l} reads as " +
                        ("not passing the seed on" if x == "XDrop" else "passing the seed on only if truthy (0 would become None)")))
    return out


def static_obligations(ctx: Ctx, facts):
    for clause, case, text in table_facts(facts):
        ctx.broken.append(Broken("table", f"{clause}: {text}"[:200],
                                 "read from the source by translator/c04.py; not confirmed by a run of the implementation "
                                 "unless a VIOLATION with a session is reported beside it", dict(clause=clause, **case)))


def run(ctx: Ctx):
    from translator import c04 as tr

    ctx.trusted += TRUSTED
    ctx.assumptions += [
        "seeds in 0 .. 2^32-1 (np.random.seed's domain); calibration seeds in 0 .. 100000",
        "single-threaded execution (dask synchronous scheduler); concurrent brackets are C07 / F16",
        "all 17 model functions with a seed parameter are driven directly (3x3 / 6x6 / 16x16 detectors of the kind each "
        "needs) from different prior states, at the boundary seeds and in several interpreter processes",
        "multi-island calibrations use a deterministic pipeline and no pipeline seed: the island threads would otherwise "
        "interleave their brackets on the one process-wide generator (C07 / F16); what is judged there is the optimiser "
        "seed: island i must have the i-th derived seed whatever order the island threads start and finish in",
        "history sessions: the same Detector OBJECT is handed to several runs (same seed, another seed, no seed) and "
        "must give what a fresh detector gives; sar_adc_with_noise (stochastic, no `seed` parameter) runs under the "
        "pipeline seed only",
        "a calibration's lazy champion data are not materialised (doing so fails in pyxel with KeyError 'pixel' for "
        "with_inherited_coords=True; not a C04 matter): its result is the champions' decision/fitness/parameters",
    ]
    gen, facts = {}, None
    try:
        facts = tr.analyse(ctx.repo)
        gen["Gen_C04.v"] = tr.emit(facts)
    except core.TranslationError as ex:
        ctx.broken.append(Broken("translation", "seed brackets / seed forwarding (translator/c04.py)", str(ex)))
        ctx.log("translation failed:", ex)
        gen["Gen_C04.v"] = tr.FALLBACK
        facts = dict(models=[], seed_sites=[], links=[], seed_truthiness=[], island_build=[])
    core.proof_leg(ctx, gen, PROP_FILE)
    static_obligations(ctx, facts)

    sessions = gen_sessions(ctx, ctx.budget(64, 220))
    mism, viol, pairs = correspondence(ctx, sessions, facts)
    distinct = {json.dumps(s["items"], sort_keys=True) for s, _ in pairs
                if sum(1 for it in s["items"] if it["op"] not in ("seed", "draws")) >= 2}
    ctx.cov["distinct_nontrivial"] = len(distinct)
    ctx.cov["rule"] = ("a session is non-trivial if it repeats a run / model call at least twice from different prior "
                       "generator states (fresh, after np.random.seed(j), after k draws); distinct = distinct item lists")
    ctx.cov["traces_validated_against_impl"] = len(pairs)
    ctx.cov["bracket_operations_observed"] = sum(len(x.get("trace", [])) for _, o in pairs for x in o["items"])
    ctx.cov["threads_seen_using_brackets"] = max([1 + max([e[0] for e in x.get("trace", [])] or [-1])
                                                  for _, o in pairs for x in o["items"]] or [0])
    ctx.cov["disagreements_checked"] = len(mism)
    ctx.cov["models_in_table"] = len(facts.get("models", []))
    ctx.cov["models_driven_directly"] = len(CALL_MODELS) + 1
    for s, o in pairs[:2] + pairs[-2:]:
        ctx.sample(dict(kind=s["kind"], items=[{k: v for k, v in it.items() if k != "pipeline"} for it in s["items"]][:5],
                        observed=o["items"][:5]))
    for s, o in viol:
        ctx.violations.append(to_violation(s, o))
    (ctx.build / "mismatches.json").write_text(json.dumps([dict(case=s, observed=o) for s, o in mism], indent=1))
    for s, o in mism:
        ctx.broken.append(Broken("correspondence", "Model/Rng.v vs implementation",
                                 f"equality pattern of generator states / draws / results differs ({s['kind']})",
                                 dict(case=s, observed=o)))
    if ctx.broken and not new_violations(ctx):
        search(ctx, facts)


def new_violations(ctx: Ctx):
    fs = core.load_findings(ctx.prop)
    return [v for v in ctx.violations if not any(core.finding_matches(e, v) for e in fs)]


def search(ctx: Ctx, facts):
    ctx.log("searching for a concrete failing input (more sessions, other seeds and prior states)")
    sessions = gen_sessions(ctx, ctx.budget(100, 260), salt="search")
    mism, viol, pairs = correspondence(ctx, sessions, facts, tag="s")
    for s, o in viol:
        ctx.violations.append(to_violation(s, o))
    ctx.cov["search_sessions"] = len(pairs)


def replay(ctx: Ctx, rp: dict) -> int:
    case = rp.get("case")
    if rp.get("kind") != "input" or not case or "items" not in case:
        print(f"replay names a {rp.get('kind')}/{rp.get('clause')} that is not an executable session: "
              f"{rp.get('no_longer_checks') or rp.get('what')}")
        print(rp.get("detail", "") or json.dumps(case)[:600])
        if (rp.get("clause") in ("global_seeding", "model_not_bracketed", "seed_not_forwarded")
                or (isinstance(case, dict) and case.get("clause"))):
            from translator import c04 as tr
            facts = tr.analyse(ctx.repo)
            want = rp.get("clause") or case.get("clause")
            still = [t for c, k, t in table_facts(facts) if c == want]
            print("the regenerated tables still read that way:" if still else "the regenerated tables no longer read that way",
                  "; ".join(still)[:600])
            print("(a fact about the source text, not a failing input: nothing to run)")
            return 1 if still else 0
        return 1
    from translator import c04 as tr
    facts = tr.analyse(ctx.repo)
    gen = ctx.build / "gen"
    gen.mkdir(parents=True, exist_ok=True)
    (gen / "Gen_C04.v").write_text(tr.emit(facts))
    core.ensure_lib(ctx, targets=["theories/Model/Rng.vo"])
    core.coqc(ctx, gen / "Gen_C04.v", [(gen, "PyxelGen")])
    obs = core.run_driver(ctx, "c04", [case], workers=1)[0]
    print("session:", json.dumps(case)[:1500])
    print("implementation now gives:", json.dumps(obs)[:1500])
    if "items" not in obs:
        return 1
    ok, evals, se = core.coq_eval(ctx, "replay", emit_file([(case, obs)], facts))
    bad = (not ok) or core.parse_int_list(evals[1]) != []
    print("specification (evaluated in Coq):", "VIOLATED" if bad else "holds")
    return 1 if bad else 0


META = dict(
    level_text=(
        "Coq theorems, for every generator (any state type, seeding function and transition function), every seed, every "
        "body program and every prior state: set_random_seed as coded (its shape is re-read from the source on every run) "
        "restores the generator also when the body raises, makes draws/probed states/outcome independent of the prior "
        "state, nests, and is transparent for seed None; by structural induction every program whose draws all sit under "
        "seeded brackets is reproducible and leak-free, and - if no part of it runs in an order the process chooses "
        "(iteration over a set: PYTHONHASHSEED) - also from one interpreter process to another, with a refutation showing "
        "the condition is needed; hence exposure, sequential and dask observation and calibration are reproducible with "
        "the seed each mode ACTUALLY receives: the call-chain table (regenerated from the source) records for the "
        "constructor, the YAML builder, the attribute setter and the override key what each link does to the seed "
        "(identity / truthiness test that loses the legal seed 0 / drop), and the seed arriving at the bracket is proved to be "
        "the seed given for every entry and every seed; no seed is tested for truthiness anywhere; all 17 model functions "
        "with a seed parameter are bracketed, hand their own seed to the bracket and iterate over no hash-ordered "
        "collection (tables regenerated); no np.random.seed outside the bracket; ArchipelagoDataTree._build (both "
        "branches, read from the source) pushes the islands in submission order, so island i has the i-th derived seed "
        "for every completion order of the island threads (proved; pushing in completion order is refuted). Still "
        "refuted on the current tree: draws inside numba-compiled functions (EMCCD registers). The tie to the running "
        "code is by correspondence (testing): equality patterns of hashed np.random states, draw values, results and "
        "island seeds over sessions of repeated runs - from different prior states, in fresh interpreter processes with "
        "different PYTHONHASHSEED values, with the seed given through every entry at 0, 1, 2^32-1, with the island threads "
        "forced to finish in different orders - are compared inside Coq with the model on the free generator and judged "
        "against the specification."),
    level_note=(
        "Trusted: Coq kernel + vm_compute; translator/c04.py (helper calls followed by name: over-approximation; set "
        "expressions recognised syntactically); the driver (child interpreters, wrappers around pygmo.island.__init__ and "
        "ArchipelagoDataTree._build installed from outside) and probes. Not carried: MT19937 itself, pygmo's generator, "
        "numba's private generator (the EMCCD models draw from it: known finding), thread interleavings of brackets on "
        "the one process-wide generator (C07): the bracket theorems speak about ONE thread of control - between "
        "get_state and set_state nothing else touches the generator. pulse_processing is never executed by the check "
        "(one call takes minutes); it is covered by the regenerated table of np.random.seed sites."),
    technique="Coq proof over an abstract-generator program semantics + regenerated bracket/forwarding/seed-entry/"
              "island-order tables + in-Coq correspondence of state-equality patterns, incl. across interpreter processes",
    design_ref="DESIGN.md section 6, C04; section 7 F1, F16",
)
