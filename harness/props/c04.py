"""C04 — seeded runs are bit-reproducible and seeding never leaks."""
from __future__ import annotations

import copy
import json

from .. import core
from ..core import Broken, Ctx, Violation

PROP_FILE = "Properties/C04.v"

TRUSTED = [
    "translator/c04.py (shape of set_random_seed -> src_srs_cfg; seed-forwarding call chain of every mode -> "
    "src_links; draw sites inside/outside the bracket of every model function with a `seed` parameter -> "
    "src_seeded_models; np.random.seed/set_state sites -> src_seed_sites; numba-compiled draws -> src_numba_sites; "
    "fails closed on other shapes; helper calls are followed by NAME inside pyxel/models, an over-approximation)",
    "Section variables of Model/Rng.v: the generator is ANY (gen, val, seed_gen : Z -> gen, next : Z -> gen -> gen * val); "
    "the only assumption is that seeding and drawing are functions of their arguments (MT19937 itself is not modelled)",
    "correspondence harness: harness/props/c04.py session generator, harness/drivers/c04.py (sha1 of "
    "np.random.get_state() at probe points, renumbered by first occurrence), probes/verif_probes.py rng_probe/fail/write",
    "modelled, not verified: np.random.get_state()/set_state() capture and restore the whole legacy generator; distinct "
    "hashed states / draw values are treated as distinct (no collisions); a run's result is a function of its "
    "configuration and of the values it draws; pygmo's own generator is deterministic for a fixed pygmo_seed "
    "(checked only by repetition); dask runs under the synchronous scheduler (thread interleavings belong to C07)",
]

SEEDS = [0, 1, 2 ** 32 - 1]
CALL_MODELS = ["shot_noise", "shot_noise_normal", "simple_conversion", "simple_dark_current",
               "fixed_pattern_noise", "output_node_noise", "ktc_noise"]
ROW = {
    "shot_noise": "photon_collection.shot_noise.shot_noise",
    "shot_noise_normal": "photon_collection.shot_noise.shot_noise",
    "simple_conversion": "charge_generation.photoelectrons.simple_conversion",
    "simple_dark_current": "charge_generation.simple_dark_current.simple_dark_current",
    "dark_current": "charge_generation.dark_current.dark_current",
    "fixed_pattern_noise": "charge_collection.fixed_pattern_noise.fixed_pattern_noise",
    "output_node_noise": "charge_measurement.readout_noise.output_node_noise",
    "ktc_noise": "charge_measurement.reset_noise.ktc_noise",
    "output_node_noise_cmos": "charge_measurement.readout_noise.output_node_noise_cmos",
}
GROUPS = ["photon_collection", "charge_generation", "charge_collection", "charge_measurement"]
BY_GROUP = {
    "photon_collection": ["shot_noise", "shot_noise_normal"],
    "charge_generation": ["simple_conversion", "simple_dark_current"],
    "charge_collection": ["fixed_pattern_noise"],
    "charge_measurement": ["output_node_noise", "ktc_noise"],
}


def mrow(short: str) -> str:
    return "mrow_" + "".join(ch if ch.isalnum() else "_" for ch in ROW[short])


# ------------------------------------------------------------------------------------------ generation


def gen_seed(r):
    return r.choice(SEEDS + [r.randrange(2, 2 ** 32 - 1), r.randrange(2, 100000)])


def gen_pipeline(r, own_seeds: str, probes: bool, fail: bool, emccd=False):
    """own_seeds: 'none' | 'all' | 'mixed'."""
    entries = []
    for g in GROUPS:
        if g == "charge_collection":
            entries.append(dict(k="collect"))
        if g == "charge_measurement":
            entries.append(dict(k="measure"))
        for m in BY_GROUP[g]:
            if r.random() < 0.55:
                e = dict(k="model", model=m)
                if own_seeds == "all" or (own_seeds == "mixed" and r.random() < 0.5):
                    e["seed"] = gen_seed(r)
                entries.append(e)
        if probes and r.random() < 0.6:
            entries.append(dict(k="probe", group=g, draw=r.choice([0, 0, 1, 2, 3]) if own_seeds != "all" else 0))
        if fail and g == "charge_collection":
            entries.append(dict(k="fail", group=g, at_step=0))
    if emccd:
        entries.append(dict(k="model", model="emccd"))
    if not any(e["k"] == "model" for e in entries):
        e = dict(k="model", model="shot_noise")
        if own_seeds == "all":
            e["seed"] = gen_seed(r)
        entries.insert(0, e)
    return entries


def priors(r, n):
    out = [[]]
    while len(out) < n:
        k = r.random()
        if k < 0.35:
            out.append([dict(op="seed", j=r.choice([0, 1, 42, 1234, r.randrange(2 ** 32)]))])
        elif k < 0.65:
            out.append([dict(op="draws", k=r.randrange(1, 6))])
        else:
            out.append([dict(op="seed", j=r.randrange(2 ** 32)), dict(op="draws", k=r.randrange(1, 4))])
    return out


def session_of(r, run_item, n=3):
    items = []
    for pr in priors(r, n):
        items += copy.deepcopy(pr)
        items.append(copy.deepcopy(run_item))
    return items


def gen_sessions(ctx: Ctx, budget: int, salt="cases"):
    r = ctx.rng(salt)
    S = []
    # direct calls of every drivable seeded model: same seed / different prior state; seed None
    for m in CALL_MODELS:
        s = gen_seed(r)
        call = dict(op="call", model=m, seed=s)
        un = dict(op="call", model=m, seed=None)
        items = [copy.deepcopy(call), dict(op="seed", j=r.randrange(2 ** 32)), copy.deepcopy(call),
                 dict(op="draws", k=r.randrange(1, 5)), copy.deepcopy(call), copy.deepcopy(un),
                 dict(op="seed", j=r.randrange(2 ** 32)), copy.deepcopy(un)]
        S.append(dict(kind="call", items=items))
    S.append(dict(kind="call", items=[dict(op="call", model="output_node_noise_cmos", det="cmos", seed=7),
                                      dict(op="draws", k=2),
                                      dict(op="call", model="output_node_noise_cmos", det="cmos", seed=7)]))
    # the known-defect scenarios
    em = dict(op="exposure", pipeline=[dict(k="model", model="simple_conversion", seed=1), dict(k="collect"),
                                      dict(k="model", model="emccd")], steps=1, pipeline_seed=5)
    S.append(dict(kind="emccd", items=[copy.deepcopy(em), dict(op="seed", j=3), copy.deepcopy(em)], no_model=True))
    ncal = 1 if ctx.quick else 3
    for c in range(ncal):
        pipe = [dict(k="model", model="shot_noise"), dict(k="model", model="simple_conversion", name="qe"), dict(k="collect")]
        cal = dict(op="calibration", pipeline=pipe, pipeline_seed=gen_seed(r) % 100000, pygmo_seed=r.randrange(100000),
                   pop=r.choice([7, 8]), generations=1, evolutions=r.choice([1, 2]) if c else 1)
        S.append(dict(kind="calibration", items=[copy.deepcopy(cal), dict(op="seed", j=r.randrange(2 ** 32)),
                                                 dict(op="draws", k=2), copy.deepcopy(cal)]))
        if c == 0:
            # calibration whose stochastic models all carry their own seed: reproducible even now
            pipe2 = [dict(k="model", model="shot_noise", seed=3), dict(k="model", model="simple_conversion", name="qe", seed=4),
                     dict(k="collect")]
            cal2 = dict(cal, pipeline=pipe2)
            S.append(dict(kind="calibration_closed", items=[copy.deepcopy(cal2), dict(op="seed", j=9), copy.deepcopy(cal2)]))
    templates = ["exp_probe", "exp_models", "exp_nested", "exp_raise", "exp_closed", "exp_unseeded", "obs", "obs_dask",
                 "exp_models", "obs"]
    k = 0
    while len(S) < budget:
        t = templates[k % len(templates)]
        k += 1
        steps = r.choice([1, 1, 2, 3])
        seed = gen_seed(r)
        if t == "exp_probe":
            pipe = [dict(k="probe", group="photon_collection", draw=r.choice([1, 2])), dict(k="collect"),
                    dict(k="probe", group="charge_measurement", draw=r.choice([0, 1, 3]))]
            it = dict(op="exposure", pipeline=pipe, steps=steps, pipeline_seed=seed)
        elif t == "exp_models":
            it = dict(op="exposure", pipeline=gen_pipeline(r, "none", True, False), steps=steps, pipeline_seed=seed)
        elif t == "exp_nested":
            it = dict(op="exposure", pipeline=gen_pipeline(r, "mixed", True, False), steps=steps, pipeline_seed=seed)
        elif t == "exp_raise":
            it = dict(op="exposure", pipeline=gen_pipeline(r, r.choice(["none", "mixed"]), True, True), steps=steps,
                      pipeline_seed=seed)
        elif t == "exp_closed":
            it = dict(op="exposure", pipeline=gen_pipeline(r, "all", True, r.random() < 0.3), steps=steps, pipeline_seed=None)
        elif t == "exp_unseeded":
            it = dict(op="exposure", pipeline=gen_pipeline(r, "mixed", True, False), steps=steps, pipeline_seed=None)
        else:
            it = dict(op="observation", dask=(t == "obs_dask"), pipeline=gen_pipeline(r, r.choice(["none", "mixed"]), True, False),
                      values=[1, 2, 3][:r.choice([2, 3])], pipeline_seed=seed)
        S.append(dict(kind=t, items=session_of(r, it, n=r.choice([2, 3]))))
    return S


# ------------------------------------------------------------------------------------------ programs


def step_body(entries, step, base, facts):
    ps = []
    for i, e in enumerate(entries):
        if e["k"] == "probe":
            n = int(e.get("draw", 0))
            ps.append(f"(Seq Observe (Seq (repeat_prog {n} (Draw 0)) Observe))")
        elif e["k"] == "fail":
            ps.append("Raise" if e.get("at_step") in (None, step) else "Skip")
        elif e["k"] == "model" and e["model"] != "emccd":
            sd = core.copt(e.get("seed"), core.cz)
            ps.append(f"(model_prog {mrow(e['model'])} {sd} {base + 40 * step + i + 1})")
    return "(seq_all " + core.clist(ps) + ")"


def item_prog(it, cfg_id, facts) -> str:
    op = it["op"]
    if op == "seed":
        return f"(BareSeed {core.cz(it['j'])})"
    if op == "draws":
        return f"(repeat_prog {int(it['k'])} (Draw 0))"
    sd = core.copt(it.get("pipeline_seed"), core.cz)
    base = 100000 * (cfg_id + 1)
    if op == "exposure":
        bodies = [step_body(it["pipeline"], s, base, facts) for s in range(it.get("steps", 1))]
        return f'(mode_prog MExposure (forwards_of src_links "exposure") {sd} {core.clist(bodies)})'
    if op == "observation":
        bodies = [step_body(it["pipeline"], 0, base, facts) for _ in it["values"]]
        if it.get("dask"):
            return f'(mode_prog MObservationDask (forwards_of src_links "observation_dask") {sd} {core.clist(bodies)})'
        return f'(mode_prog MObservation (forwards_of src_links "observation") {sd} {core.clist(bodies)})'
    if op == "call":
        return f"(model_prog {mrow(it['model'])} {core.copt(it.get('seed'), core.cz)} {base})"
    if op == "calibration":
        n = it.get("pop", 7) * 2
        bodies = [step_body(it["pipeline"], 0, base + 1000 * (vi + 1), facts) for vi in range(n)]
        return f'(mode_prog MCalibration (forwards_of src_links "calibration") {sd} {core.clist(bodies)})'
    raise ValueError(op)


def flags(it):
    """(seeded, closed) as the PROPERTY demands them (not as the code happens to behave)."""
    op = it["op"]
    if op in ("seed", "draws"):
        return False, False
    if op == "call":
        return it.get("seed") is not None, False
    seeded = it.get("pipeline_seed") is not None
    closed = (not seeded) and all(
        (e["k"] != "probe" or int(e.get("draw", 0)) == 0) and (e["k"] != "model" or (e.get("seed") is not None and e["model"] != "emccd"))
        for e in it["pipeline"])
    return seeded, closed


def cfg_ids(items):
    ids, m = [], {}
    for it in items:
        key = json.dumps(it, sort_keys=True)
        if key not in m:
            m[key] = len(m)
        ids.append(m[key])
    return ids


def emit_case(sess, obs, facts) -> str:
    ids = cfg_ids(sess["items"])
    rows = []
    for it, o, cid in zip(sess["items"], obs["items"], ids):
        seeded, closed = flags(it)
        rows.append(
            "{| it_run := %s; it_prog := %s; it_seeded := %s; it_closed := %s; it_cfg := %d; ob_pre := %d; "
            "ob_inner := %s; ob_post := %d; ob_draws := %s; ob_res := %s; ob_raised := %s |}" % (
                core.cbool(o["run"]), item_prog(it, cid, facts), core.cbool(seeded), core.cbool(closed), cid, o["pre"],
                core.clist(str(x) for x in o["inner"]), o["post"], core.clist(str(x) for x in o["draws"]),
                core.cz(o["res"]), core.cbool(o["raised"])))
    return "[" + ";\n   ".join(rows) + "]"


def emit_file(pairs, facts) -> str:
    body = ";\n  ".join(emit_case(s, o, facts) for s, o in pairs)
    return ("From Coq Require Import ZArith List Bool String.\nFrom PyxelV Require Import Model.Rng.\n"
            "From PyxelGen Require Import Gen_C04.\nImport ListNotations.\nOpen Scope Z_scope.\n"
            f"Definition cases : list (list item) := [\n  {body}\n].\n"
            "Eval vm_compute in mismatches src_srs_cfg cases.\n"
            "Eval vm_compute in violations cases.\n")


# ------------------------------------------------------------------------------------------ classification


def classify(sess, obs):
    """Python-side naming + shrinking of a session that Coq judged to violate the specification."""
    items, ob = sess["items"], obs["items"]
    ids = cfg_ids(items)
    fl = [flags(it) for it in items]

    def uses(it):
        return "emccd" if any(e.get("model") == "emccd" for e in it.get("pipeline", [])) else (it.get("model") or "plain")

    for i, (it, o) in enumerate(zip(items, ob)):
        if o["run"] and (fl[i][0] or fl[i][1]) and o["pre"] != o["post"]:
            return "not_restored", [i], dict(op=it["op"], uses=uses(it), raised=o["raised"])
    for i in range(len(items)):
        for j in range(i + 1, len(items)):
            a, b = ob[i], ob[j]
            if not (a["run"] and b["run"] and ids[i] == ids[j]):
                continue
            if fl[i][0] and (a["res"] != b["res"] or a["raised"] != b["raised"] or a["draws"] != b["draws"]):
                return "not_reproducible", [i, j], dict(op=items[i]["op"], uses=uses(items[i]))
            if not fl[i][0] and a["pre"] != b["pre"] and a["post"] == b["post"]:
                return "made_deterministic", [i, j], dict(op=items[i]["op"], uses=uses(items[i]))
    return "unclassified", list(range(len(items))), dict(op="?")


def to_violation(sess, obs) -> Violation:
    clause, idx, extra = classify(sess, obs)
    last = max(idx)
    case = dict(kind=sess["kind"], items=sess["items"][:last + 1])
    observed = dict(items=obs["items"][:last + 1], offending_items=idx)
    it = sess["items"][idx[0]]
    return Violation(
        clause=clause, case=case, observed=observed,
        expected="seeded items: generator state after = before, and equal results/draws for equal configurations "
                 "from any prior state; unseeded items must not end in the same state from different prior states",
        what=f"{clause}: {it['op']} {json.dumps({k: v for k, v in it.items() if k != 'pipeline'})[:160]}",
        sig=dict(clause=clause, **extra))


# ------------------------------------------------------------------------------------------ legs


def correspondence(ctx: Ctx, sessions, facts, tag="c"):
    obs = core.run_driver(ctx, "c04", sessions, workers=8, timeout=600)
    pairs = []
    for s, o in zip(sessions, obs):
        if "crash" in o or "driver_error" in o:
            ctx.broken.append(Broken("correspondence", "implementation driver failed", str(o)[:800], s))
            continue
        pairs.append((s, o))
    files, per = {}, 12
    for k in range(0, len(pairs), per):
        files[f"{tag}_{k // per:03d}"] = emit_file(pairs[k:k + per], facts)
    res = core.coq_eval_many(ctx, files, timeout=600, par=8)
    mism, viol = [], []
    for k, name in enumerate(sorted(files)):
        ok, evals, se = res[name]
        chunk = pairs[k * per:(k + 1) * per]
        if not ok or len(evals) != 2:
            ctx.broken.append(Broken("correspondence", f"case file {name}.v did not evaluate", core.tail(se, 15)))
            continue
        mism += [chunk[i] for i in core.parse_int_list(evals[0]) if not chunk[i][0].get("no_model")]
        viol += [chunk[i] for i in core.parse_int_list(evals[1])]
    for s, o in pairs:
        runs = [x for x in o["items"] if x["run"]]
        ctx.count("evaluations", len(runs))
        ctx.count("sessions")
        ctx.dist("session_kind", s["kind"])
        ctx.dist("raised_runs", sum(1 for x in runs if x["raised"]))
        for it in s["items"]:
            ctx.dist("op", it["op"])
            if it.get("pipeline_seed") is not None:
                ctx.dist("seed_class", "0" if it["pipeline_seed"] == 0 else "1" if it["pipeline_seed"] == 1 else
                         "2^32-1" if it["pipeline_seed"] == 2 ** 32 - 1 else "random")
    return mism, viol, pairs


def static_violations(ctx: Ctx, facts):
    for site, n in facts.get("seed_sites", []):
        ctx.violations.append(Violation(
            clause="global_seeding", case=dict(site=site, calls=n), observed="np.random.seed / set_state outside util/randomize.py",
            expected="only set_random_seed touches the seed of the process-wide generator (and restores it)",
            what=f"{site} reseeds the process-wide generator without restoring it",
            sig=dict(clause="global_seeding", site=site)))
    for r in facts.get("models", []):
        if r["outside"] or r["bare_seed"] or not r["bracket_seed"]:
            ctx.violations.append(Violation(
                clause="model_not_bracketed", case=dict(r), observed=dict(r),
                expected="every draw of a model function with a `seed` parameter is inside `with set_random_seed(seed)`",
                what=f"{r['name']}: {r['outside']} draw site(s) outside the bracket, {r['bare_seed']} bare reseeding call(s), "
                     f"bracket given seed: {r['bracket_seed']}",
                sig=dict(clause="model_not_bracketed", model=r["name"])))
    for m, l, ok in facts.get("links", []):
        if not ok and not (m == "calibration" and l == "Calibration.run_calibration -> ModelFittingDataTree"):
            ctx.violations.append(Violation(
                clause="seed_not_forwarded", case=dict(mode=m, link=l), observed="pipeline_seed not passed on",
                expected="every link between the mode and set_random_seed passes the seed on",
                what=f"{m}: {l} drops the seed", sig=dict(clause="seed_not_forwarded", mode=m, link=l)))


def run(ctx: Ctx):
    from translator import c04 as tr

    ctx.trusted += TRUSTED
    ctx.assumptions += [
        "seeds in 0 .. 2^32-1 (np.random.seed's domain); calibration seeds in 0 .. 100000",
        "single-threaded execution (dask synchronous scheduler); concurrent brackets are C07 / F16",
        "model functions are driven on a 3x3 detector; nghxrg, cosmix, charge_deposition*, radiation_induced_dark_current, "
        "dark_current (its output is almost noise-free on a tiny frame), dark_current_rule07, the SAPHIRA models and conversion_with_qe_map are covered by the regenerated bracket table only",
    ]
    gen, facts = {}, None
    try:
        facts = tr.analyse(ctx.repo)
        gen["Gen_C04.v"] = tr.emit(facts)
    except core.TranslationError as ex:
        ctx.broken.append(Broken("translation", "seed brackets / seed forwarding (translator/c04.py)", str(ex)))
        ctx.log("translation failed:", ex)
        gen["Gen_C04.v"] = tr.FALLBACK
        facts = dict(models=[], seed_sites=[], links=[])
    core.proof_leg(ctx, gen, PROP_FILE)
    static_violations(ctx, facts)

    sessions = gen_sessions(ctx, ctx.budget(44, 160))
    mism, viol, pairs = correspondence(ctx, sessions, facts)
    distinct = {json.dumps(s["items"], sort_keys=True) for s, _ in pairs
                if sum(1 for it in s["items"] if it["op"] not in ("seed", "draws")) >= 2}
    ctx.cov["distinct_nontrivial"] = len(distinct)
    ctx.cov["rule"] = ("a session is non-trivial if it repeats a run / model call at least twice from different prior "
                       "generator states (fresh, after np.random.seed(j), after k draws); distinct = distinct item lists")
    ctx.cov["traces_validated_against_impl"] = len(pairs)
    ctx.cov["disagreements_checked"] = len(mism)
    ctx.cov["models_in_table"] = len(facts.get("models", []))
    ctx.cov["models_driven_directly"] = len(CALL_MODELS) + 1
    for s, o in pairs[:2] + pairs[-2:]:
        ctx.sample(dict(kind=s["kind"], items=[{k: v for k, v in it.items() if k != "pipeline"} for it in s["items"]][:5],
                        observed=o["items"][:5]))
    for s, o in viol:
        ctx.violations.append(to_violation(s, o))
    (ctx.build / "mismatches.json").write_text(json.dumps([dict(case=s, observed=o) for s, o in mism], indent=1))
    for s, o in mism:
        ctx.broken.append(Broken("correspondence", "Model/Rng.v vs implementation",
                                 f"equality pattern of generator states / draws / results differs ({s['kind']})",
                                 dict(case=s, observed=o)))
    if ctx.broken and not new_violations(ctx):
        search(ctx, facts)


def new_violations(ctx: Ctx):
    fs = core.load_findings(ctx.prop)
    return [v for v in ctx.violations if not any(core.finding_matches(e, v) for e in fs)]


def search(ctx: Ctx, facts):
    ctx.log("searching for a concrete failing input (more sessions, other seeds and prior states)")
    sessions = gen_sessions(ctx, ctx.budget(90, 240), salt="search")
    mism, viol, pairs = correspondence(ctx, sessions, facts, tag="s")
    for s, o in viol:
        ctx.violations.append(to_violation(s, o))
    ctx.cov["search_sessions"] = len(pairs)


def replay(ctx: Ctx, rp: dict) -> int:
    case = rp.get("case")
    if rp.get("kind") != "input" or not case or "items" not in case:
        print(f"replay names a {rp.get('kind')}/{rp.get('clause')} that is not an executable session: "
              f"{rp.get('no_longer_checks') or rp.get('what')}")
        print(rp.get("detail", "") or json.dumps(case)[:600])
        if rp.get("clause") in ("global_seeding", "model_not_bracketed", "seed_not_forwarded"):
            from translator import c04 as tr
            facts = tr.analyse(ctx.repo)
            c2 = Ctx(prop=ctx.prop, tier=ctx.tier, seed=ctx.seed, repo=ctx.repo, build=ctx.build, work=ctx.work)
            static_violations(c2, facts)
            still = any(v.sig == rp.get("sig") for v in c2.violations)
            print("source still has it:", still)
            return 1 if still else 0
        return 1
    from translator import c04 as tr
    facts = tr.analyse(ctx.repo)
    gen = ctx.build / "gen"
    gen.mkdir(parents=True, exist_ok=True)
    (gen / "Gen_C04.v").write_text(tr.emit(facts))
    core.ensure_lib(ctx, targets=["theories/Model/Rng.vo"])
    core.coqc(ctx, gen / "Gen_C04.v", [(gen, "PyxelGen")])
    obs = core.run_driver(ctx, "c04", [case], workers=1)[0]
    print("session:", json.dumps(case)[:1500])
    print("implementation now gives:", json.dumps(obs)[:1500])
    if "items" not in obs:
        return 1
    ok, evals, se = core.coq_eval(ctx, "replay", emit_file([(case, obs)], facts))
    bad = (not ok) or core.parse_int_list(evals[1]) != []
    print("specification (evaluated in Coq):", "VIOLATED" if bad else "holds")
    return 1 if bad else 0


META = dict(
    level_text=(
        "Coq theorems, for every generator (any state type, seeding function and transition function), every seed, every "
        "body program and every prior state: set_random_seed as coded (its shape is re-read from the source on every run) "
        "restores the generator also when the body raises, makes draws/probed states/outcome independent of the prior "
        "state, nests, and is transparent for seed None; by structural induction every program whose draws all sit under "
        "seeded brackets is reproducible and leak-free; hence exposure, sequential and dask observation are reproducible "
        "with the seed each mode ACTUALLY forwards (call-chain table regenerated from the source), and all 17 model "
        "functions with a seed parameter are bracketed (table regenerated). The calibration instance is REFUTED on the "
        "unchanged tree (run_calibration drops pipeline_seed) with the full statement kept and the true restriction proved. "
        "The tie to the running code is by correspondence (testing): equality patterns of hashed np.random states, draw "
        "values and results over sessions of repeated runs from different prior states are compared inside Coq with the "
        "model on the free generator and judged against the specification."),
    level_note=(
        "Trusted: Coq kernel + vm_compute; translator/c04.py (helper calls followed by name: over-approximation); the "
        "driver and probes. Not carried: MT19937 itself, pygmo's generator, numba's private generator (the EMCCD models "
        "draw from it: known finding), thread interleavings (C07). Ten of the 17 seeded model functions are only covered "
        "by the bracket table, not driven. pulse_processing's np.random.seed(42) is established statically (importing the "
        "module triggers a very long superconductor computation, so it is not executed)."),
    technique="Coq proof over an abstract-generator program semantics + regenerated bracket/forwarding tables + in-Coq "
              "correspondence of state-equality patterns",
    design_ref="DESIGN.md section 6, C04; section 7 F1, F16",
)
