"""C17 — splitting an exposure into more readouts does not change collected charge."""
from __future__ import annotations

import copy
import json
import time
from fractions import Fraction

from .. import core
from ..core import Broken, Ctx, Violation

PROP_FILE = "Properties/C17.v"

TRUSTED = [
    "correspondence harness: harness/props/c17.py (generators, exact float -> rational conversion, rate of each "
    "configured model per pixel), harness/drivers/c17.py (calls the real models / pyxel.run_mode; pooch.retrieve is "
    "pointed at a local PNG for usaf_illumination)",
    "translator/c17_life.py: the scan of pyxel/ for the Detector family and for the callers of detector.empty, the "
    "three-valued interpretation of the `empty` bodies for reset = True / False (which statements empty a bucket) and "
    "of the readout loops for both modes; that no other code empties or fills the buckets between the models (the "
    "resulting table is compared with real detector.empty calls on every detector type on every run)",
    "translator/c17.py: the scan for clock readers under pyxel/models, the symbolic evaluation of the integrating "
    "models' bodies (which helpers are pure, which attributes are step-independent: geometry / characteristics / "
    "environment) and its CLASSIFICATION table (which readers are excluded as random / relaxation / bookkeeping); the "
    "translated rows are evaluated in Coq against real calls on every run",
    "modelled, not verified: numpy element-wise float64 arithmetic is exact on the dyadic inputs of the exact stream "
    "(every intermediate value has < 53 significant bits); the 0/1 spatial mask of rectangular/elliptic illumination "
    "and of the stripe pattern, the placement (crop/align) of loaded files and the interpolated rotated stripe pattern "
    "are taken from the implementation's own helpers (the property is about time, not shape); the dark-current rates "
    "in e-/pixel/s are measured on the implementation at unit time step (figure_of_merit chosen so that the measured "
    "rate is a small dyadic number); system_gain is read from the detector",
]

TOL = Fraction(1, 10 ** 9)
RATE_MODELS = ["ill_uniform", "ill_rect", "ill_ellip", "load_image", "stripe", "load_charge", "dark_current",
               "dark_current_rule07", "usaf"]
# time-integrating models that are only called directly (K-free proportionality of their increment): the
# scene -> photon projection needs a scene generator in front of it and makes 3-D photons
INC_ONLY = ["scene"]
CHARGE_KINDS = ["load_charge", "dark_current", "dark_current_rule07"]
PHOTON_KINDS = ["ill_uniform", "ill_rect", "ill_ellip", "load_image", "stripe", "usaf"]


# ------------------------------------------------------------------------------------------ literals


def H(x) -> str:
    return float(x).hex()


def fr(h) -> Fraction:
    return Fraction(float.fromhex(h) if isinstance(h, str) else float(h))


def Q(f: Fraction) -> str:
    return core.cq(f.numerator, f.denominator)


def QL(fs) -> str:
    return core.clist(Q(f) for f in fs)


def is_small_dyadic(f: Fraction) -> bool:
    d = f.denominator
    return d & (d - 1) == 0 and d <= 2 ** 16 and abs(f.numerator) < 2 ** 30


# ------------------------------------------------------------------------------------------ generators


KINDS = ["ccd", "cmos", "mkid", "apd"]
KIND_CLASS = {"ccd": "CCD", "cmos": "CMOS", "mkid": "MKID", "apd": "APD"}
# dark_current_rule07 refuses anything but a CCD / CMOS (TypeError): a documented restriction of that model
RULE07_KINDS = ["ccd", "cmos"]
ROUTES = ["ctor", "set_times", "set_start", "set_both", "set_nd", "replace", "replace_times", "file", "string"]


def gen_det(r, need_even=False, small=False, dy=True, kind=None, kinds=KINDS):
    hi = 4 if small else 8
    rows, cols = r.randrange(1, hi + 1), r.randrange(1, hi + 1)
    if r.random() < 0.5:  # bias towards small detectors (cost), the full 1..8 x 1..8 range stays reachable
        rows, cols = min(rows, r.randrange(1, 4)), min(cols, r.randrange(1, 5))
    if need_even:
        rows, cols = rows + rows % 2, cols + cols % 2
    d = dict(kind=kind or r.choice(kinds), rows=rows, cols=cols, pv=H(r.choice([10.0, 15.0, 18.0])),
             ph=H(r.choice([10.0, 12.0])), temperature=H(r.choice([150.0, 200.0, 250.0, 300.0])),
             qe=H(r.choice([1.0, 0.5, 0.75])))
    # read-out chain (enters load_image(convert_to_photons=True) through system_gain); powers of two in the exact stream
    if dy:
        # (magnitudes kept moderate so that every float intermediate of a 12-readout exposure stays below 53 bits)
        d.update(adc_bits=r.choice([8, 10, 12]), ctv=H(2.0 ** -r.choice([8, 12])),
                 preamp=H(r.choice([1.0, 2.0, 0.5])), vrange=[H(0.0), H(r.choice([4.0, 8.0, 16.0]))])
    else:
        d.update(adc_bits=r.choice([8, 12, 16]), ctv=H(r.choice([1.0e-6, 3.0e-6, 5.0e-5])),
                 preamp=H(r.choice([1.0, 0.8, 100.0])), vrange=[H(0.0), H(r.choice([5.0, 10.0, 3.3]))])
    return d


def gen_level(r, dy):
    return r.randrange(1, 64) * 2.0 ** -r.randrange(0, 4) if dy else round(r.uniform(0.1, 50.0), 3)


def gen_ts(r, dy):
    return r.choice([0.5, 2.0, 0.25, 4.0, 0.125, 8.0]) if dy else r.choice([0.001, 0.1, 3.0, 60.0, 1e-6])


def gen_data(r, n, dy, hi=32):
    if dy:
        return [H(r.randrange(0, hi * 4) / 4.0) for _ in range(n)]
    return [H(round(r.uniform(0.0, hi), 4)) for _ in range(n)]


DC_TARGETS = [3.0, 2.0, 1.0, 0.5, 5.0, 8.0, 12.0, 0.75, 6.0, 10.0, 4.0, 1.5, 7.0, 0.25, 16.0, 9.0]
ALIGNS = ["center", "top_left", "top_right", "bottom_left", "bottom_right"]

# Every option / branch of a time-integrating model that changes how the time step reaches the bucket (or could
# plausibly do so after a rewrite).  Each variant is exercised by direct calls on EVERY run (call_items) and drawn
# at random inside exposures.  The option names are checked against the signatures in the source by the
# translator (translator/c17.py: a parameter that is not classified there fails closed).
VARIANTS = {
    "ill_uniform": [dict(ts=False), dict(ts=True)],
    "ill_rect": [dict(ts=False, center=False), dict(ts=True, center=True), dict(ts=True)],
    "ill_ellip": [dict(ts=True, center=False), dict(ts=False, center=True), dict(ts=True, center=True)],
    "load_image": [dict(), dict(mult=True), dict(ts=True), dict(mult=True, ts=True, fmt="fits"),
                   dict(convert=True), dict(convert=True, mult=True), dict(convert=True, ts=True),
                   dict(convert=True, mult=True, ts=True, place="position"),
                   dict(place="position", ts=True), dict(place="shape", mult=True)]
                  + [dict(place=a, ts=(i % 2 == 0), convert=(i % 3 == 0)) for i, a in enumerate(ALIGNS)],
    "stripe": [dict(ts=False, angle=0), dict(ts=True, angle=0), dict(ts=True, angle=90), dict(ts=False, angle=30)],
    "load_charge": [dict(), dict(ts=True), dict(place="position", ts=True), dict(place="shape")]
                   + [dict(place=a, ts=(i % 2 == 1)) for i, a in enumerate(ALIGNS)],
    "usaf": [dict(), dict(ts=True, mult=True), dict(convert=True, ts=True), dict(place="position", convert=True, mult=True),
             dict(place="center", ts=True), dict(place="top_right")],
    "scene": [dict(integrate=True), dict(integrate=False)],
    "dark_current": [dict(), dict(band_gap=True)],
    "dark_current_rule07": [dict(cutoff=False), dict(cutoff=True)],
}


def gen_placement(r, m, det, place, dy):
    """File of another shape than the detector and/or position / align (the placed image is read back from the
    implementation's own load_cropped_and_aligned_image by the driver)."""
    rows, cols = det["rows"], det["cols"]
    if place is None:
        return
    fr_, fc_ = r.randrange(1, rows + 3), r.randrange(1, cols + 3)
    m["data_shape"] = [fr_, fc_]
    m["data"] = gen_data(r, fr_ * fc_, dy)
    if place == "position":
        # any offset that leaves an overlap in both directions (negative offsets crop the file)
        m["position"] = [r.randrange(-(fr_ - 1), rows), r.randrange(-(fc_ - 1), cols)]
    elif place in ALIGNS:
        m["align"] = place


def gen_model(r, kind, det, dy, variant=None):
    rows, cols = det["rows"], det["cols"]
    n = rows * cols
    v = dict(r.choice(VARIANTS[kind])) if (variant is None and kind in VARIANTS) else dict(variant or {})
    m = {}
    if kind == "ill_uniform":
        m = dict(m="illumination", level=H(gen_level(r, dy)), option="uniform")
    elif kind in ("ill_rect", "ill_ellip"):
        m = dict(m="illumination", level=H(gen_level(r, dy)), option="rectangular" if kind == "ill_rect" else "elliptic",
                 object_size=[r.randrange(1, rows + 2), r.randrange(1, cols + 2)])
        if v.get("center", False):
            m["object_center"] = [r.randrange(0, rows + 1), r.randrange(0, cols + 1)]
    elif kind == "load_image":
        m = dict(m="load_image", data=gen_data(r, n, dy), fmt=v.get("fmt") or r.choice(["npy", "npy", "fits"]))
        gen_placement(r, m, det, v.get("place"), dy)
        if v.get("mult"):
            m["multiplier"] = H(r.choice([2.0, 0.5, 3.0, 1.5]) if dy else round(r.uniform(0.1, 5), 3))
        if v.get("convert"):
            m["convert"] = True
            m["bit_resolution"] = r.choice([8, 10, 12, 6])
    elif kind == "usaf":
        # the 8-bit image the model would download, here a small local file of arbitrary shape
        fr_, fc_ = r.randrange(1, rows + 3), r.randrange(1, cols + 3)
        m = dict(m="usaf_illumination", data=[H(float(r.randrange(0, 256))) for _ in range(fr_ * fc_)], data_shape=[fr_, fc_])
        if v.get("place") == "position":
            m["position"] = [r.randrange(-(fr_ - 1), rows), r.randrange(-(fc_ - 1), cols)]
        elif v.get("place") in ALIGNS:
            m["align"] = v["place"]
        if v.get("mult"):
            m["multiplier"] = H(r.choice([2.0, 0.5, 3.0, 1.5]) if dy else round(r.uniform(0.1, 5), 3))
        if v.get("convert"):
            m["convert"] = True
            m["bit_resolution"] = r.choice([8, 10, 12, 6])
    elif kind == "scene":
        m = dict(m="scene_collection", aperture=H(r.choice([1.0, 0.5, 2.0, 1.5])), pixel_scale=H(r.choice([12.0, 16.0, 10.0])),
                 integrate=bool(v.get("integrate", True)), flux_scale=H(r.choice([1.0, 2.0, 8.0])))
    elif kind == "stripe":
        per = r.choice([p for p in (2, 4, 6, 8) if p // 2 <= max(rows, cols)])
        m = dict(m="stripe_pattern", level=H(gen_level(r, dy)), period=per, startwith=r.randrange(2))
        if v.get("angle"):
            m["angle"] = int(v["angle"])
    elif kind == "load_charge":
        m = dict(m="load_charge", data=gen_data(r, n, dy), fmt="npy")
        gen_placement(r, m, det, v.get("place"), dy)
    elif kind == "dark_current":
        if dy:
            t = DC_TARGETS[:]
            r.shuffle(t)
            m = dict(m="dark_current", targets=[H(x) for x in t])
        else:
            m = dict(m="dark_current", fom=H(round(r.uniform(0.01, 50.0), 4)))
        if v.get("band_gap"):
            m["band_gap"] = H(r.choice([1.12, 1.0, 1.25]))
            m["band_gap_rt"] = H(r.choice([1.12, 1.1, 1.2]))
    elif kind == "dark_current_rule07":
        m = dict(m="dark_current_rule07")
        if v.get("cutoff"):
            # moderate rates only (the rate spans 20 orders of magnitude over the accepted cut-off range)
            m["cutoff"] = H(r.choice([1.7, 1.8, 2.0, 2.2]))
    elif kind == "simple_conversion":
        q = r.choice([None, 0.5, 0.75, 0.25, 1.0, 0.625]) if dy else r.choice([None, 0.9, 0.33, 0.618])
        m = dict(m="simple_conversion", qe=None if q is None else H(q))
    elif kind == "qe_map":
        vals = [r.choice([0.0, 0.25, 0.5, 0.75, 1.0, 0.875]) if dy else round(r.random(), 4) for _ in range(n)]
        m = dict(m="qe_map", data=[H(v) for v in vals], fmt="npy")
    else:
        raise ValueError(kind)
    if kind in ("ill_uniform", "ill_rect", "ill_ellip", "load_image", "stripe", "load_charge", "usaf") and v.get("ts", False):
        m["time_scale"] = H(gen_ts(r, dy))
    return m


def gen_pipeline(r, dy, kinds=None, det_kind=None):
    """(det, models in pipeline order).  kinds = the rate models to use (else random); det_kind = detector type."""
    if kinds is None:
        nph = r.choice([0, 1, 1, 2, 2, 3])
        kinds = [r.choice(PHOTON_KINDS) for _ in range(nph)]
        kinds = [k for i, k in enumerate(kinds) if k != "usaf" or "usaf" not in kinds[:i]]   # one download per pipeline
        kinds += [k for k in CHARGE_KINDS if r.random() < (0.45 if k != "dark_current_rule07" else 0.2)]
        if not kinds:
            kinds = [r.choice(RATE_MODELS)]
    if det_kind is not None and det_kind not in RULE07_KINDS:
        kinds = [k for k in kinds if k != "dark_current_rule07"] or ["dark_current"]
    det = gen_det(r, need_even="stripe" in kinds, small=not dy, dy=dy, kind=det_kind,   # non-dyadic rationals are long: keep them few
                  kinds=RULE07_KINDS if "dark_current_rule07" in kinds else KINDS)
    ph = [gen_model(r, k, det, dy) for k in kinds if k in PHOTON_KINDS]
    gen = [gen_model(r, k, det, dy) for k in kinds if k in CHARGE_KINDS]
    if ph:
        gen.append(gen_model(r, r.choice(["simple_conversion", "simple_conversion", "qe_map"]), det, dy))
        if r.random() < 0.15:
            gen.append(gen_model(r, r.choice(["simple_conversion", "qe_map"]), det, dy))
    r.shuffle(gen)
    return det, ph + gen + [dict(m="simple_collection")]


def gen_start(r, dy):
    if dy:
        return r.choice([0.0, 0.0, 0.25, 1.0, -1.0, 2.5, -0.5, 10.0, 0.125, -3.0, 100.0])
    return r.choice([0.0, 0.1, -0.3, 1.7, 12.345])


def gen_increment(r, dy):
    return r.randrange(1, 41) / 8.0 if dy else round(r.uniform(0.01, 5.0), 3)


def gen_times(r, dy, n=None, start=None):
    n = n or r.choice([1, 2, 2, 3, 3, 4, 5, 6, 8, 10, 12])
    start = gen_start(r, dy) if start is None else start
    while True:
        ts, t = [], start
        for _ in range(n):
            t = t + gen_increment(r, dy)
            ts.append(t)
        if ts[0] != 0.0:
            return start, ts


def gen_partition(r, dy, start, end, n):
    """n strictly increasing times in (start, end], the last one = end."""
    if dy:
        grid = int(round((end - start) * 8))
        pts = sorted(r.sample(range(1, grid), min(n - 1, grid - 1))) if grid > 1 else []
        ts = [start + k / 8.0 for k in pts] + [end]
    else:
        ts = sorted({round(r.uniform(start, end), 3) for _ in range(n - 1)} - {start, end})
        ts = [t for t in ts if start < t < end] + [end]
    if ts[0] == 0.0:
        ts = ts[1:] if len(ts) > 1 else ts
    return ts


def rate_kind(m):
    """The RATE_MODELS name of a configured model (None for conversions / collection)."""
    k = m["m"]
    if k == "illumination":
        return {"uniform": "ill_uniform", "rectangular": "ill_rect", "elliptic": "ill_ellip"}.get(m.get("option", "uniform"))
    return {"load_image": "load_image", "stripe_pattern": "stripe", "load_charge": "load_charge", "dark_current": "dark_current",
            "dark_current_rule07": "dark_current_rule07", "usaf_illumination": "usaf"}.get(k)


def exposure_payload(det, models, start, times, nd, entry=None, route=None, dirty=None):
    p = dict(kind="exposure", det=det, models=models, start=H(start), times=[H(t) for t in times], nd=bool(nd))
    if entry == "exposure_mode":     # the deprecated public entry point (own copy of the readout loop)
        p["entry"] = entry
    if route not in (None, "ctor"):  # how the Readout object gets its schedule (constructor unless said otherwise)
        p["route"] = route
    if dirty is not None:            # the detector object holds data from earlier use
        p["dirty"] = H(dirty)
    return p


def arithmetic(start, times):
    return len(times) == 1 or len({b - a for a, b in zip(times, times[1:])}) == 1


def gen_route(r, times, p_ctor=0.5):
    """A way of establishing the schedule; the textual range form only for equally spaced times."""
    if r.random() < p_ctor:
        return None
    return r.choice([x for x in ROUTES[1:] if x != "string" or arithmetic(None, times)])


def gen_dirty(r):
    return r.choice([5.0, 3.0, 0.5, 64.0]) if r.random() < 0.35 else None


def gen_entry(r):
    return "exposure_mode" if r.random() < 0.3 else None


# ------------------------------------------------------------------------------------------ rates (exact rationals)


def pow2(f: Fraction) -> bool:
    n, d = abs(f.numerator), f.denominator
    return n > 0 and n & (n - 1) == 0 and d & (d - 1) == 0


def model_rates(det, m, aux):
    """Per pixel: the rate of this configured rate model (exact rational), i.e. its bucket increment per unit time
    step.  Closed form from the model's documented arguments; only 0/1 masks, placed (cropped/aligned) files,
    rotated stripe patterns, system_gain and the dark-current rates are read back from the implementation."""
    n = det["rows"] * det["cols"]
    k = m["m"]
    ts = fr(m["time_scale"]) if "time_scale" in m else Fraction(1)
    if k in ("illumination", "stripe_pattern"):
        if "pattern_level" in aux:
            pat = [fr(v) for v in aux["pattern_level"]]
            if len(pat) != n:
                raise ValueError(f"pattern of {k} does not have the detector shape")
            return [p / ts for p in pat]
        pat = [fr(v) for v in aux["pattern"]] if "pattern" in aux else [Fraction(1)] * n
        if any(p not in (0, 1) for p in pat) or len(pat) != n:
            raise ValueError(f"spatial pattern of {k} is not a 0/1 mask of the detector shape")
        return [fr(m["level"]) / ts * p for p in pat]
    if k in ("load_image", "load_charge", "usaf_illumination"):
        img = [fr(v) for v in (aux["image"] if "image" in aux else m["data"])]
        if len(img) != n:
            raise ValueError(f"placed file of {k} does not have the detector shape")
        f = Fraction(1) / ts
        if k in ("load_image", "usaf_illumination"):
            f *= fr(m["multiplier"]) if "multiplier" in m else Fraction(1)
            if m.get("convert"):
                # documented ADU -> photon factor: 2^adc_bit_resolution / 2^bit_resolution / system_gain
                f *= Fraction(2) ** int(aux["adc_bits"]) / Fraction(2) ** int(m["bit_resolution"]) / fr(aux["system_gain"])
        return [v * f for v in img]
    if k in ("dark_current", "dark_current_rule07"):
        return [fr(v) for v in aux["rate"]]
    raise ValueError(k)


def model_ops(det, m, aux):
    """Per pixel: the Coq op of this configured model (its rate at that pixel as an exact rational)."""
    n = det["rows"] * det["cols"]
    k = m["m"]
    if k in ("illumination", "stripe_pattern", "load_image", "usaf_illumination"):
        return [f"PhotonRate {Q(x)}" for x in model_rates(det, m, aux)]
    if k in ("load_charge", "dark_current", "dark_current_rule07"):
        return [f"ChargeRate {Q(x)}" for x in model_rates(det, m, aux)]
    if k == "simple_conversion":
        q = fr(m["qe"]) if m.get("qe") is not None else fr(det.get("qe", H(1.0)))
        return [f"Convert {Q(q)}"] * n
    if k == "qe_map":
        return [f"Convert {Q(fr(v))}" for v in m["data"]]
    if k == "simple_collection":
        return ["Collect"] * n
    raise ValueError(k)


def exact_possible(models, auxs) -> bool:
    """Float arithmetic of the implementation is exact on this configuration (else: tolerance stream)."""
    for m, a in zip(models, auxs):
        a = a or {}
        if m["m"] in ("dark_current", "dark_current_rule07") and \
                not all(is_small_dyadic(fr(v)) for v in a.get("rate", [])):
            return False
        if m["m"] == "scene_collection":
            return False
        if m["m"] in ("load_image", "usaf_illumination") and m.get("convert") and not pow2(fr(a["system_gain"])):
            return False
        if "pattern_level" in a and not all(is_small_dyadic(fr(v)) for v in a["pattern_level"]):
            return False
    return True


# ------------------------------------------------------------------------------------------ items -> Coq cases
#
# An item is {"type": inc|lin|exp|pair|scale, "payloads": [...], ...}; build(item, results) returns the Coq
# literal of the case (or raises ValueError if the driver result cannot be used).


def transpose(per_step):
    return [list(col) for col in zip(*per_step)] if per_step else []


def tol_of(item, exact=True):
    return Fraction(0) if (item.get("dy", True) and exact) else TOL


def build_exp(item, res, tol=None):
    p = item["payloads"][0]
    det, models = p["det"], p["models"]
    n = det["rows"] * det["cols"]
    auxs = res.get("aux") or [{} for _ in models]
    per_model = [model_ops(det, m, a) for m, a in zip(models, auxs)]
    ops = [core.clist(pm[i] for pm in per_model) for i in range(n)]
    if tol is None:
        tol = tol_of(item, exact_possible(models, auxs))
    if "pixel" in res:
        obs = transpose([[fr(v) for v in step] for step in res["pixel"]])
        obs_txt = "(Some " + core.clist(QL(o) for o in obs) + ")"
    else:
        obs_txt = "None"
    return (f"CExp {{| ec_tol := {Q(tol)}; ec_nd := {core.cbool(p['nd'])}; ec_start := {Q(fr(p['start']))}; "
            f"ec_times := {QL(fr(t) for t in p['times'])}; ec_ops := {core.clist(ops)}; ec_obs := {obs_txt} |}}")


def build_pair(item, ra, rb):
    pa, pb = item["payloads"]
    if "pixel" not in ra or "pixel" not in rb:
        raise ValueError("a run of the pair raised: " + str(ra.get("raise") or rb.get("raise")))
    tol = tol_of(item, exact_possible(pa["models"], ra.get("aux", [])))
    return (f"CPair {{| pc_tol := {Q(tol)}; pc_start := {Q(fr(pa['start']))}; "
            f"pc_times_a := {QL(fr(t) for t in pa['times'])}; pc_times_b := {QL(fr(t) for t in pb['times'])}; "
            f"pc_final_a := {QL(fr(v) for v in ra['pixel'][-1])}; pc_final_b := {QL(fr(v) for v in rb['pixel'][-1])} |}}")


def build_scale(item, ra, rb):
    pa, pb = item["payloads"]
    if "pixel" not in ra or "pixel" not in rb:
        raise ValueError("a run of the pair raised: " + str(ra.get("raise") or rb.get("raise")))
    tol = tol_of(item, exact_possible(pa["models"], ra.get("aux", [])))
    fa = transpose([[fr(v) for v in s] for s in ra["pixel"]])
    fb = transpose([[fr(v) for v in s] for s in rb["pixel"]])
    return (f"CScale {{| sc_tol := {Q(tol)}; sc_c := {Q(fr(item['c']))}; sc_start_a := {Q(fr(pa['start']))}; "
            f"sc_times_a := {QL(fr(t) for t in pa['times'])}; sc_start_b := {Q(fr(pb['start']))}; "
            f"sc_times_b := {QL(fr(t) for t in pb['times'])}; sc_frames_a := {core.clist(QL(f) for f in fa)}; "
            f"sc_frames_b := {core.clist(QL(f) for f in fb)} |}}")


def build_sched(item, res):
    """The Readout object the exposure ran with and the detector's readout properties: start, times, steps, mode."""
    p = item["payloads"][0]
    if "sched" not in res:
        raise ValueError("the run raised: " + str(res.get("raise")))
    obs = [f"{{| so_start := {Q(fr(o['start']))}; so_times := {QL(fr(t) for t in o['times'])}; "
           f"so_steps := {QL(fr(t) for t in o['steps'])}; so_nd := {core.cbool(o['nd'])} |}}" for o in res["sched"]]
    return (f"CSched {{| sh_tol := {Q(tol_of(item))}; sh_start := {Q(fr(p['start']))}; "
            f"sh_times := {QL(fr(t) for t in p['times'])}; sh_nd := {core.cbool(p['nd'])}; sh_obs := {core.clist(obs)} |}}")


def bucket_of(m):
    return "photon" if m["m"] in ("illumination", "load_image", "stripe_pattern", "usaf_illumination",
                                  "scene_collection") else "charge"


def build_inc(item, res):
    p = item["payloads"][0]
    obs = []
    for rec in res["steps"]:
        e = rec.get("empty")
        if not e or "raise" in e or e.get(bucket_of(p["model"])) is None:
            raise ValueError(f"model call failed: {e}")
        obs.append([fr(v) for v in e[bucket_of(p["model"])]])
    exact = exact_possible([p["model"]], [res.get("aux", {})])
    return (f"CInc {{| ic_tol := {Q(tol_of(item, exact))}; ic_steps := {QL(fr(s) for s in p['steps'])}; "
            f"ic_obs := {core.clist(QL(o) for o in obs)} |}}")


def st_lit(ph, ch, px):
    return f"mkst {Q(ph)} {Q(ch)} {Q(px)}"


def build_lin(item, res):
    """One CLin per time step of the call (the model applied to the pre-filled detector)."""
    p = item["payloads"][0]
    det, m = p["det"], p["model"]
    n = det["rows"] * det["cols"]
    ops = model_ops(det, m, res.get("aux", {}))
    pre = p["prefill"]
    zero = [H(0.0)] * n
    init = [st_lit(fr(a), fr(b), fr(c)) for a, b, c in
            zip(pre.get("photon") or zero, pre.get("charge") or zero, pre.get("pixel") or zero)]
    exact = exact_possible([m], [res.get("aux", {})])
    out = []
    for sh, rec in zip(p["steps"], res["steps"]):
        e = rec.get("prefilled")
        if not e or "raise" in e:
            raise ValueError(f"model call failed: {e}")
        after = [st_lit(fr(a), fr(b), fr(c)) for a, b, c in zip(e["photon"] or zero, e["charge"], e["pixel"])]
        out.append(f"CLin {{| lc_tol := {Q(tol_of(item, exact))}; lc_step := {Q(fr(sh))}; lc_ops := {core.clist(ops)}; "
                   f"lc_init := {core.clist(init)}; lc_obs := {core.clist(after)} |}}")
    return out


# ------------------------------------------------------------------------------------------ translated rows

TABLE = {"st": None}     # the structure returned by translator/c17.py for the tree under test (set by run / replay)

FAMILY = {"illumination": ["ill_uniform", "ill_rect", "ill_ellip"], "load_image": ["load_image"],
          "stripe_pattern": ["stripe"], "load_charge": ["load_charge"], "dark_current": ["dark_current"],
          "dark_current_rule07": ["dark_current_rule07"], "usaf_illumination": ["usaf"]}


class Skip(Exception):
    """The translated row of this configuration cannot be evaluated (unknown variable, no row, ...): the case is
    not judged (counted in the coverage), it is never an alarm."""


def cond_true(cond: str, kw: dict) -> bool:
    try:
        return bool(eval(compile(cond, "<option>", "eval"), {"__builtins__": {}, "len": len, "isinstance": isinstance,  # noqa: S307
                                                             "min": min, "max": max, "abs": abs, "bool": bool,
                                                             "int": int, "float": float}, dict(kw)))
    except Exception as ex:  # noqa: BLE001
        raise Skip(f"option condition {cond!r} cannot be evaluated: {type(ex).__name__}") from ex


def decode_kw(j):
    return {k: (float.fromhex(v["hex"]) if isinstance(v, dict) and "hex" in v else v) for k, v in (j or {}).items()}


def approx_kw(m):
    """Harness-side view of the keyword arguments the driver passes for a generated model (used only to aim the
    failing-input search at the option branches of a table row)."""
    k = m["m"]
    kw = {}
    if "time_scale" in m:
        kw["time_scale"] = float.fromhex(m["time_scale"])
    if k in ("load_image", "usaf_illumination"):
        kw.update(convert_to_photons=bool(m.get("convert")), bit_resolution=m.get("bit_resolution"),
                  include_header=False, align=m.get("align"))
        if "multiplier" in m:
            kw["multiplier"] = float.fromhex(m["multiplier"])
    elif k in ("dark_current", "dark_current_rule07"):
        kw.update(temporal_noise=False, spatial_noise_factor=None)
        if m.get("band_gap") is not None:
            kw.update(band_gap=float.fromhex(m["band_gap"]), band_gap_room_temperature=float.fromhex(m["band_gap_rt"]))
        if m.get("cutoff") is not None:
            kw["cutoff_wavelength"] = float.fromhex(m["cutoff"])
    return kw


def table_entry(kind):
    st = TABLE["st"]
    if st is None:
        raise Skip("no table")
    key = next((k for k, v in st["models"].items() if v["kind"] == kind and v["expr"]), None)
    if key is None:
        raise Skip(f"no expression-shaped table entry for {kind}")
    return key, st["models"][key]


def row_of(kind, kw):
    """(index, row) of the rate_table row whose option conditions hold for these keyword arguments."""
    from translator import c17 as tr

    key, info = table_entry(kind)
    full = dict(info["defaults"])
    full.update(kw)
    rows = [(i, r) for i, r in enumerate(TABLE["st"]["rows"])
            if r["model"] == key and all(cond_true(c, full) for c in r["conds"])]
    if len(rows) != 1:
        raise Skip(f"{len(rows)} table rows match the options of {kind}")
    del tr
    return rows[0][0], rows[0][1], full


def provide(nm, det, m, aux, kw, n):
    """('s', Fraction) | ('p', [Fraction]*n) | None: the value of a table variable for this configured model."""
    if nm in kw:
        v = kw[nm]
        if isinstance(v, bool) or not isinstance(v, (int, float)):
            return None
        return "s", Fraction(v)
    if nm.startswith("detector."):
        v = (aux.get("detvars") or {}).get(nm)
        return None if v is None else ("s", fr(v))
    if nm.startswith("call:"):
        base = nm[5:].split("#")[0]
        if base == "load_cropped_and_aligned_image" and m["m"] in ("load_image", "load_charge", "usaf_illumination", "qe_map"):
            img = [fr(v) for v in (aux["image"] if "image" in aux else m["data"])]
            return ("p", img) if len(img) == n else None
        if base in ("calculate_illumination", "compute_pattern") and m["m"] in ("illumination", "stripe_pattern"):
            if "pattern_level" in aux:
                pat = [fr(v) for v in aux["pattern_level"]]
            else:
                mask = [fr(v) for v in aux["pattern"]] if "pattern" in aux else [Fraction(1)] * n
                pat = [fr(m["level"]) * x for x in mask]
            return ("p", pat) if len(pat) == n else None
        if base in ("simulate_dark_signal", "average_dark_current_rule07") and "rate" in aux:
            rate = [fr(v) for v in aux["rate"]]
            return ("p", rate) if len(rate) == n else None
    return None


def expr_vars(e):
    from translator import c17 as tr

    return sorted({a[1] for a in tr.atoms(e) if a[0] == "var"}), [a for a in tr.atoms(e) if a[0] == "bad"]


def build_rate(item, res):
    """The translated expression of the configured model's option branch, evaluated inside Coq on the actual
    arguments, against the increments the implementation produced."""
    p = item["payloads"][0]
    det, m = p["det"], p["model"]
    n = det["rows"] * det["cols"]
    aux = res.get("aux", {})
    idx, row, kw = row_of(m["m"], decode_kw(aux.get("kw")))
    names, bads = expr_vars(row["expr"])
    if row.get("random") or bads:
        raise Skip("the row is not a deterministic arithmetic expression")
    scal, pix = [], [[] for _ in range(n)]
    for nm in names:
        v = provide(nm, det, m, aux, kw, n)
        if v is None:
            raise Skip(f"no value for table variable {nm}")
        if v[0] == "s":
            scal.append(f"({core.cstr(nm)}, {Q(v[1])})")
        else:
            for i in range(n):
                pix[i].append(f"({core.cstr(nm)}, {Q(v[1][i])})")
    obs = []
    for rec in res["steps"]:
        e = rec.get("empty")
        if not e or "raise" in e or e.get(bucket_of(m)) is None:
            raise ValueError(f"model call failed: {e}")
        obs.append([fr(v) for v in e[bucket_of(m)]])
    exact = exact_possible([m], [aux])
    return (f"{{| rc_tol := {Q(tol_of(item, exact))}; rc_row := {idx}%nat; rc_env := {core.clist(scal)}; "
            f"rc_pix := {core.clist(core.clist(x) for x in pix)}; rc_steps := {QL(fr(s) for s in p['steps'])}; "
            f"rc_obs := {core.clist(QL(o) for o in obs)} |}}")


def conv_row_of(kind, kw):
    """(index, row, full kwargs) of the conv_table row whose option conditions hold for these keyword arguments."""
    st = TABLE["st"]
    if st is None or not st.get("conv_rows"):
        raise Skip("no conversion table")
    key = next((k for k, v in st["conv_models"].items() if v["kind"] == kind), None)
    if key is None:
        raise Skip(f"no conversion table entry for {kind}")
    full = dict(st["conv_models"][key]["defaults"])
    full.update(kw)
    rows = [(i, r) for i, r in enumerate(st["conv_rows"]) if r["model"] == key and all(cond_true(c, full) for c in r["conds"])]
    if len(rows) != 1:
        raise Skip(f"{len(rows)} conversion rows match the options of {kind}")
    return rows[0][0], rows[0][1], full


def build_conv(item, res):
    """The translated expression of a conversion / collection model, evaluated inside Coq on the actual source bucket
    content and arguments, against what the implementation added to the sink bucket."""
    p = item["payloads"][0]
    det, m = p["det"], p["model"]
    n = det["rows"] * det["cols"]
    aux = res.get("aux", {})
    idx, row, kw = conv_row_of(m["m"], decode_kw(aux.get("kw")))
    names, bads = expr_vars(row["expr"])
    if row.get("random") or bads:
        raise Skip("the conversion row is not a deterministic arithmetic expression")
    scal, pix = [], [[] for _ in range(n)]
    for nm in names:
        v = provide(nm, det, m, aux, kw, n)
        if v is None:
            raise Skip(f"no value for table variable {nm}")
        if v[0] == "s":
            scal.append(f"({core.cstr(nm)}, {Q(v[1])})")
        else:
            for i in range(n):
                pix[i].append(f"({core.cstr(nm)}, {Q(v[1][i])})")
    pre = p["prefill"]
    zero = [H(0.0)] * n
    e = res["steps"][0].get("prefilled")
    if not e or "raise" in e:
        raise ValueError(f"model call failed: {e}")
    src = [fr(v) for v in (pre.get(row["src"]) or zero)]
    before = [fr(v) for v in (pre.get(row["sink"]) or zero)]
    after = [fr(v) for v in (e[row["sink"]] or zero)]
    exact = exact_possible([m], [aux])
    return (f"{{| cc_tol := {Q(tol_of(item, exact))}; cc_row := {idx}%nat; cc_env := {core.clist(scal)}; "
            f"cc_pix := {core.clist(core.clist(x) for x in pix)}; cc_src := {QL(src)}; "
            f"cc_obs := {QL(a - b for a, b in zip(after, before))} |}}")


def emit_conv_file(lits) -> str:
    body = ";\n  ".join(lits)
    return (RATE_HEADER + f"Definition cases : list conv_case := [\n  {body}\n].\n"
            "Eval vm_compute in conv_mismatches conv_table cases.\nEval vm_compute in conv_illposed conv_table cases.\n")


RATE_HEADER = ("From Coq Require Import QArith List String.\nFrom PyxelV Require Import Model.Flux Model.FluxExpr.\n"
               "From PyxelGen Require Import Gen_C17.\nImport ListNotations.\nOpen Scope string_scope.\n"
               "Open Scope Q_scope.\n")


def emit_rate_file(lits) -> str:
    body = ";\n  ".join(lits)
    return (RATE_HEADER + f"Definition cases : list rate_case := [\n  {body}\n].\n"
            "Eval vm_compute in rate_mismatches rate_table cases.\nEval vm_compute in rate_illposed rate_table cases.\n")


def build_life(item, res):
    """detector.empty(arg) on a real detector of one type: which of photon / charge / pixel were emptied."""
    p = item["payloads"][0]
    cls = res.get("cls")
    if not isinstance(cls, str):
        raise ValueError(f"no detector class reported: {res}")
    if "raise" in res:
        obs = "None"
    else:
        b = res.get("buckets") or {}
        if any(b.get(k) not in ("emptied", "kept") for k in ("photon", "charge", "pixel")):
            raise ValueError(f"a bucket is neither emptied nor kept after detector.empty: {b}")
        obs = "(Some (" + ", ".join(core.cbool(b[k] == "emptied") for k in ("photon", "charge", "pixel")) + "))"
    arg = "EDefault" if p["arg"] == "default" else f"(EBool {core.cbool(bool(p['arg']))})"
    return f"{{| lf_class := {core.cstr(cls)}; lf_arg := {arg}; lf_obs := {obs} |}}"


LIFE_HEADER = ("From Coq Require Import QArith List String.\nFrom PyxelV Require Import Model.Flux Model.FluxDet.\n"
               "From PyxelGen Require Import Gen_C17.\nImport ListNotations.\nOpen Scope string_scope.\n")


def emit_life_file(lits) -> str:
    body = ";\n  ".join(lits)
    return (LIFE_HEADER + f"Definition cases : list life_case := [\n  {body}\n].\n"
            "Eval vm_compute in life_mismatches det_table cases.\nEval vm_compute in life_violations cases.\n")


HEADER = ("From Coq Require Import QArith List.\nFrom PyxelV Require Import Model.Flux.\n"
          "Import ListNotations.\nOpen Scope Q_scope.\n")


def emit_file(lits) -> str:
    body = ";\n  ".join(lits)
    return (HEADER + f"Definition cases : list fcase := [\n  {body}\n].\n"
            "Eval vm_compute in mismatches cases.\nEval vm_compute in violations cases.\n")


# ------------------------------------------------------------------------------------------ building the run


def call_items(ctx, r, n_extra, dy):
    """Direct calls of every rate model: EVERY variant of VARIANTS once, plus n_extra random ones per model."""
    items = []
    for kind in RATE_MODELS:
        for variant in list(VARIANTS[kind]) + [None] * n_extra:
            det = gen_det(r, need_even=(kind == "stripe"), small=True, dy=dy,
                          kinds=RULE07_KINDS if kind == "dark_current_rule07" else KINDS)
            m = gen_model(r, kind, det, dy, variant)
            n = det["rows"] * det["cols"]
            steps = []
            while len(set(steps)) < 3:
                steps = [gen_increment(r, dy) for _ in range(r.choice([3, 4]))]
            pre = dict(photon=gen_data(r, n, dy, 8), charge=gen_data(r, n, dy, 8), pixel=gen_data(r, n, dy, 8))
            if bucket_of(m) == "charge" and r.random() < 0.5:
                pre["photon"] = None
            pl = dict(kind="call", det=det, model=m, steps=[H(s) for s in steps],
                      time=H(r.choice([7.0, 3.0, 11.5])), prefill=pre)
            items.append(dict(type="inc", dy=dy, payloads=[pl], name=kind))
            items.append(dict(type="lin", dy=dy, payloads=[pl], name=kind))
            items.append(dict(type="rate", dy=dy, payloads=[pl], name=kind))
    for kind in INC_ONLY:
        for variant in VARIANTS[kind]:
            det = dict(gen_det(r, dy=dy), rows=24, cols=24)
            m = gen_model(r, kind, det, dy, variant)
            steps = []
            while len(set(steps)) < 3:
                steps = [gen_increment(r, dy) for _ in range(3)]
            pl = dict(kind="call", det=det, model=m, steps=[H(x) for x in steps], time=H(7.0), prefill=None)
            items.append(dict(type="inc", dy=dy, payloads=[pl], name=kind))
    for kind in ["simple_conversion", "qe_map", "simple_collection"]:
        for _ in range(max(2, n_extra)):
            det = gen_det(r, small=True, dy=dy)
            n = det["rows"] * det["cols"]
            m = dict(m="simple_collection") if kind == "simple_collection" else gen_model(r, kind, det, dy)
            pre = dict(photon=gen_data(r, n, dy, 16), charge=gen_data(r, n, dy, 8), pixel=gen_data(r, n, dy, 8))
            pl = dict(kind="call", det=det, model=m, steps=[H(gen_increment(r, dy)) for _ in range(2)],
                      time=H(5.0), prefill=pre, skip_empty=True)
            items.append(dict(type="lin", dy=dy, payloads=[pl], name=kind))
            items.append(dict(type="conv", dy=dy, payloads=[pl], name=kind))
    return items


def exposure_items(ctx, r, n_pair, n_scale, n_single, dy, kinds_list=()):
    items = []
    kinds_iter = list(kinds_list)
    det_kinds = []

    def pipe():
        # the detector types in turn (shuffled per round), so that every type meets every kind of case
        if not det_kinds:
            det_kinds.extend(r.sample(KINDS, len(KINDS)))
        ks = kinds_iter.pop() if kinds_iter else None
        dk = det_kinds.pop()
        if ks is not None and "dark_current_rule07" in ks and dk not in RULE07_KINDS:
            dk = r.choice(RULE07_KINDS)
        return gen_pipeline(r, dy, ks, dk)

    def payload(det, models, start, times, nd):
        return exposure_payload(det, models, start, times, nd, gen_entry(r), gen_route(r, times), gen_dirty(r))

    for _ in range(n_pair):
        det, models = pipe()
        start = gen_start(r, dy)
        end = start + (r.randrange(4, 97) / 8.0 if dy else round(r.uniform(0.5, 12.0), 3))
        if end == 0.0:
            end += 1.0
        # several splittings of the same total: a random one, a second one, a fine one and the single readout
        ta = gen_partition(r, dy, start, end, r.randrange(2, 13))
        others = [gen_partition(r, dy, start, end, r.choice([2, 3, 5, 8])), gen_partition(r, dy, start, end, 12), [end]]
        pa = payload(det, models, start, ta, True)
        items.append(dict(type="exp", dy=dy, payloads=[pa]))
        for tb in others:
            pb = payload(det, models, start, tb, True)
            items += [dict(type="exp", dy=dy, payloads=[pb]), dict(type="pair", dy=dy, payloads=[pa, pb])]
    for _ in range(n_scale):
        det, models = pipe()
        sa, ta = gen_times(r, dy)
        c = r.choice([2.0, 0.5, 3.0, 1.5, 0.25, 5.0, 4.0]) if dy else r.choice([2.0, 0.1, 3.3, 0.5])
        while True:
            sb = gen_start(r, dy)
            tb, prev = [], sa
            t = sb
            for x in ta:
                t = t + c * (x - prev)
                prev = x
                tb.append(t)
            if tb[0] != 0.0:
                break
        pa = payload(det, models, sa, ta, False)
        pb = payload(det, models, sb, tb, False)
        items += [dict(type="exp", dy=dy, payloads=[pa]), dict(type="exp", dy=dy, payloads=[pb])]
        if dy:  # with non-dyadic times the scaled steps are not exactly c times the steps: no exact premise
            items.append(dict(type="scale", dy=dy, c=H(c), payloads=[pa, pb]))
    for _ in range(n_single):
        det, models = pipe()
        s, ts = gen_times(r, dy)
        if dy and r.random() < 0.3:      # an equally spaced schedule (what the textual range form can express)
            d, n = gen_increment(r, dy), len(ts)
            s = s if s + d != 0.0 else s + 0.25
            ts = [s + d * (i + 1) for i in range(n)]
        items.append(dict(type="exp", dy=dy, payloads=[payload(det, models, s, ts, r.random() < 0.5)]))
    return items


def matrix_items(r, exhaustive=False):
    """On EVERY run: every detector type x both readout modes x both entry points (a 3-way split against the single
    readout in non-destructive mode, a scaled schedule in destructive mode), alternately on a clean detector and on
    one that holds data from earlier use; every route of establishing the schedule in both modes; and
    detector.empty(default / True / False) called directly on every detector type."""
    items = []
    flip = 0
    for kind in KINDS:
        for entry in (None, "exposure_mode"):
            det, models = gen_pipeline(r, True, [r.choice(["ill_uniform", "load_charge", "dark_current", "load_image"])], kind)
            start = gen_start(r, True)
            end = start + r.randrange(8, 49) / 8.0
            end = end + 1.0 if end == 0.0 else end
            ta, tb = gen_partition(r, True, start, end, 3), [end]
            flip += 1
            pa = exposure_payload(det, models, start, ta, True, entry, None, 5.0 if flip % 2 else None)
            pb = exposure_payload(det, models, start, tb, True, entry, None, None if flip % 2 else 3.0)
            items += [dict(type="exp", dy=True, payloads=[pa]), dict(type="exp", dy=True, payloads=[pb]),
                      dict(type="pair", dy=True, payloads=[pa, pb])]
            sa, tsa = gen_times(r, True, n=3)
            c = r.choice([2.0, 0.5, 3.0])
            while True:
                sb = gen_start(r, True)
                tsb, prev, t = [], sa, sb
                for x in tsa:
                    t = t + c * (x - prev)
                    prev = x
                    tsb.append(t)
                if tsb[0] != 0.0:
                    break
            qa = exposure_payload(det, models, sa, tsa, False, entry, None, None if flip % 2 else 5.0)
            qb = exposure_payload(det, models, sb, tsb, False, entry, None, 3.0 if flip % 2 else None)
            items += [dict(type="exp", dy=True, payloads=[qa]), dict(type="exp", dy=True, payloads=[qb]),
                      dict(type="scale", dy=True, c=H(c), payloads=[qa, qb])]
    for route in ROUTES:
        for nd in (True, False):
            det, models = gen_pipeline(r, True, [r.choice(["ill_uniform", "load_charge"])])
            s = gen_start(r, True)
            d, n = gen_increment(r, True), r.choice([2, 3, 4])
            if route == "string":
                s = s if s + d != 0.0 else s + 0.25
                ts = [s + d * (i + 1) for i in range(n)]
            else:
                s, ts = gen_times(r, True, n=n, start=s)
            items.append(dict(type="exp", dy=True, payloads=[exposure_payload(det, models, s, ts, nd, gen_entry(r), route)]))
    for kind in KINDS:
        for arg in ("default", True, False):
            det = gen_det(r, small=True, kind=kind)
            items.append(dict(type="life", dy=True, payloads=[dict(kind="life", det=det, arg=arg)]))
    if exhaustive:
        # thorough tier: every route x detector type x readout mode x entry point (alternately a fresh / a reused detector)
        for route in ROUTES:
            for kind in KINDS:
                for nd in (True, False):
                    for entry in (None, "exposure_mode"):
                        for dirty in ((None,) if (len(items) % 2) else (5.0,)):
                            det, models = gen_pipeline(r, True, [r.choice(["ill_uniform", "load_charge", "dark_current"])], kind)
                            s = gen_start(r, True)
                            d, n = gen_increment(r, True), r.choice([2, 3])
                            if route == "string":
                                s = s if s + d != 0.0 else s + 0.25
                                ts = [s + d * (i + 1) for i in range(n)]
                            else:
                                s, ts = gen_times(r, True, n=n, start=s)
                            items.append(dict(type="exp", dy=True,
                                              payloads=[exposure_payload(det, models, s, ts, nd, entry, route, dirty)]))
    return items


def refused_items(r):
    """A few schedules the Readout guards must refuse (the model's valid_schedule = false)."""
    det, models = gen_pipeline(r, True, ["ill_uniform"])
    bad = [(0.0, [0.0, 1.0]), (-1.0, [0.0, 1.0]), (1.0, [1.0, 2.0]), (2.0, [1.0, 3.0]), (0.0, [1.0, 1.0]),
           (0.0, [1.0, 3.0, 2.0]), (0.0, [])]
    out = [dict(type="exp", dy=True, payloads=[exposure_payload(det, models, s, ts, nd)], refused=True)
           for s, ts in bad for nd in (True,)]
    # the same through the other ways of establishing a schedule: the `times` setter of Readout does not check
    # monotonicity - such a schedule must still be refused (by the detector's readout properties) before any model runs
    via = [(0.0, [1.0, 3.0, 2.0], "set_times"), (0.0, [2.0, 1.0], "set_both"), (0.0, [1.0, 1.0], "set_times"),
           (0.5, [1.0, 0.75, 2.0], "replace"), (0.0, [2.0, 2.0, 3.0], "replace_times"), (1.0, [3.0, 2.5], "file"),
           (-1.0, [0.0, 1.0], "file"), (2.0, [1.0, 3.0], "set_start"), (0.0, [1.0, 3.0, 3.0], "set_nd")]
    out += [dict(type="exp", dy=True, payloads=[exposure_payload(det, models, s, ts, r.random() < 0.5, gen_entry(r), route)],
                 refused=True) for s, ts, route in via]
    return out


def sched_items(items):
    """For the exposures already in the run (no extra driver work): the schedule carried by the Readout object
    and by the detector - every exposure whose schedule was not simply given to the constructor, and every
    third of the others."""
    out, k = [], 0
    for it in items:
        if it["type"] != "exp" or it.get("refused"):
            continue
        k += 1
        if it["payloads"][0].get("route") or k % 3 == 0:
            out.append(dict(type="sched", dy=it.get("dy", True), payloads=it["payloads"]))
    return out


def corpus_items():
    """Minimised past failures (harness/corpus/C17/*.json), run first."""
    out = []
    for f in sorted((core.VERIF / "harness" / "corpus" / "C17").glob("*.json")):
        c = json.loads(f.read_text())
        if c.get("type") in ("exp", "pair", "scale", "inc", "lin", "rate", "life", "sched", "conv") and c.get("payloads"):
            out.append({k: c[k] for k in ("type", "dy", "payloads", "c", "refused", "name") if k in c})
    return out


def all_subsets():
    out = []
    for mask in range(1, 2 ** len(RATE_MODELS)):
        out.append([k for i, k in enumerate(RATE_MODELS) if mask >> i & 1])
    return out


def evaluate(ctx: Ctx, items, tag="c", per=30):
    """Run the payloads, build the Coq cases, evaluate them.  Returns a list of records
    {item, lit, result(s), mismatch: bool, violation: bool}."""
    payloads, index = [], {}
    for it in items:
        for p in it["payloads"]:
            key = json.dumps(p, sort_keys=True)
            if key not in index:
                index[key] = len(payloads)
                payloads.append(p)
    t0 = time.time()
    results = core.run_driver(ctx, "c17", payloads, workers=8)
    ctx.cov.setdefault("phase_secs", {})[f"driver_{tag}"] = round(time.time() - t0, 1)
    recs = []
    for it in items:
        rs = [results[index[json.dumps(p, sort_keys=True)]] for p in it["payloads"]]
        bad = next((x for x in rs if "crash" in x or "driver_error" in x), None)
        if bad is not None:
            ctx.broken.append(Broken("correspondence", "implementation driver failed", str(bad)[:600], it))
            continue
        try:
            if it["type"] == "exp":
                lits = [build_exp(it, rs[0])]
            elif it["type"] == "sched":
                lits = [build_sched(it, rs[0])]
            elif it["type"] == "pair":
                lits = [build_pair(it, *rs)]
            elif it["type"] == "scale":
                lits = [build_scale(it, *rs)]
            elif it["type"] == "inc":
                lits = [build_inc(it, rs[0])]
            elif it["type"] == "rate":
                lits = [build_rate(it, rs[0])]
            elif it["type"] == "life":
                lits = [build_life(it, rs[0])]
            elif it["type"] == "conv":
                lits = [build_conv(it, rs[0])]
            else:
                lits = build_lin(it, rs[0])
        except Skip as ex:
            ctx.dist("rate_case", "not judged: " + str(ex)[:90])
            continue
        except (ValueError, KeyError, TypeError) as ex:
            ctx.broken.append(Broken("correspondence", f"unusable driver result for a {it['type']} case",
                                     f"{type(ex).__name__}: {ex}", it))
            continue
        for j, lit in enumerate(lits):
            recs.append(dict(item=it, lit=lit, results=rs, sub=j, mismatch=False, violation=False))
    files, chunks = {}, {}
    # keep files small: a case with many pixels and readouts is a long literal
    def group_of(rec):
        return rec["item"]["type"] if rec["item"]["type"] in ("rate", "life", "conv") else "flux"

    for grp, emit in (("flux", emit_file), ("rate", emit_rate_file), ("life", emit_life_file), ("conv", emit_conv_file)):
        cur, size, k = [], 0, 0
        for rec in [x for x in recs if group_of(x) == grp]:
            cur.append(rec)
            size += len(rec["lit"])
            if len(cur) >= per or size > 600_000:
                name = f"{tag}_{grp[0]}{k:03d}"
                files[name], chunks[name] = emit([x["lit"] for x in cur]), cur
                cur, size, k = [], 0, k + 1
        if cur:
            name = f"{tag}_{grp[0]}{k:03d}"
            files[name], chunks[name] = emit([x["lit"] for x in cur]), cur
    t0 = time.time()
    res = core.coq_eval_many(ctx, files, timeout=900, par=8)
    ctx.cov["phase_secs"][f"coq_{tag}"] = round(time.time() - t0, 1)
    ctx.cov["phase_secs"][f"coq_files_{tag}"] = len(files)
    for name in sorted(files):
        ok, evals, se = res[name]
        if not ok or len(evals) != 2:
            ctx.broken.append(Broken("correspondence", f"case file {name}.v did not evaluate", core.tail(se, 15)))
            continue
        is_rate = chunks[name][0]["item"]["type"] in ("rate", "conv")
        for i in core.parse_int_list(evals[0]):
            chunks[name][i]["mismatch"] = True
        for i in core.parse_int_list(evals[1]):
            chunks[name][i]["mismatch" if is_rate else "violation"] = True   # an ill-posed rate case is a harness fault
    return recs


# ------------------------------------------------------------------------------------------ violations


def model_names(it):
    ps = it["payloads"][0]
    if ps.get("kind") == "life":
        return ["detector.empty"]
    ms = ps["models"] if "models" in ps else [ps["model"]]
    out = []
    for m in ms:
        nm = m["m"]
        if nm == "illumination":
            nm += ":" + m.get("option", "uniform")
        out.append(nm)
    return out


def clause_of(rec):
    it = rec["item"]
    t = it["type"]
    if t == "inc":
        return "increment_not_proportional_to_time_step"
    if t == "lin":
        nm = it["payloads"][0]["model"]["m"]
        if nm in ("simple_conversion", "qe_map"):
            return "conversion_not_expectation_value"
        if nm == "simple_collection":
            return "collection_not_accumulating"
        return "increment_differs_from_rate_times_step"
    if t == "life":
        return "bucket_lifecycle"
    if t == "sched":
        return "steps_differ_from_schedule"
    if t == "pair":
        return "partition_dependent"
    if t == "scale":
        return "destructive_not_proportional"
    p = it["payloads"][0]
    if it.get("refused"):
        return "invalid_schedule_accepted"
    if "pixel" not in rec["results"][0]:
        return "valid_exposure_raised"
    return "nondestructive_closed_form" if p["nd"] else "destructive_frame_closed_form"


def describe(rec):
    it = rec["item"]
    p = it["payloads"][0]
    kind = p["det"].get("kind", "ccd").upper()
    if it["type"] == "life":
        arg = "" if p["arg"] == "default" else str(bool(p["arg"]))
        return f"{kind}.empty({arg}) on a detector whose photon, charge and pixel buckets hold data"
    if it["type"] in ("inc", "lin", "rate", "conv"):
        return (f"{p['model']['m']} called with time steps {[float.fromhex(s) for s in p['steps']]} on a "
                f"{p['det']['rows']}x{p['det']['cols']} {kind} detector")

    def extras(q):
        return ((" (pyxel.exposure_mode)" if q.get("entry") else "") + (f" schedule via {q['route']}" if q.get("route") else "")
                + (" on a detector holding earlier data" if q.get("dirty") else ""))

    ts = [float.fromhex(t) for t in p["times"]]
    s = (f"{'non-destructive' if p['nd'] else 'destructive'} exposure{extras(p)} start={float.fromhex(p['start'])} times={ts} "
         f"models={model_names(it)} on {p['det']['rows']}x{p['det']['cols']} {kind}")
    if len(it["payloads"]) > 1:
        q = it["payloads"][1]
        s += f" versus{extras(q)} start={float.fromhex(q['start'])} times={[float.fromhex(t) for t in q['times']]}"
    return s


EXPECTED = {
    "increment_not_proportional_to_time_step": "increment(step_j) * step_0 = increment(step_0) * step_j at every pixel",
    "increment_differs_from_rate_times_step": "bucket after = bucket before + rate * time_step (rate = level/time_scale, "
                                              "file value * multiplier / time_scale, ...)",
    "conversion_not_expectation_value": "charge after = charge before + photon * qe, photon and pixel unchanged",
    "collection_not_accumulating": "pixel after = pixel before + charge",
    "partition_dependent": "equal final pixel arrays for two partitions of the same interval",
    "destructive_not_proportional": "frames of the scaled schedule = c * frames",
    "nondestructive_closed_form": "pixel at readout i = (total rate) * (t_i - start)",
    "destructive_frame_closed_form": "frame i = (total rate) * (t_i - t_(i-1))",
    "bucket_lifecycle": "detector.empty(reset) empties photon and charge, and pixel exactly when reset is True (default True), "
                        "on every detector type",
    "steps_differ_from_schedule": "the Readout object and the detector's readout properties carry the requested start, times "
                                  "and mode, and steps = diff([start] + times), however the schedule was established",
    "valid_exposure_raised": "an accepted schedule with valid models runs",
    "invalid_schedule_accepted": "the schedule is refused",
}


def to_violation(rec) -> Violation:
    it = rec["item"]
    clause = clause_of(rec)
    res = rec["results"]
    obs = [{k: v for k, v in x.items() if k in ("pixel", "raise", "msg", "sched")} if it["type"] in ("exp", "pair", "scale", "sched")
           else ({k: v for k, v in x.items() if k in ("cls", "buckets", "raise", "msg")} if it["type"] == "life" else x["steps"])
           for x in res]
    stream = "dyadic" if it.get("dy", True) else "nondyadic_tol1e-9"
    sig = dict(clause=clause, models=sorted(set(model_names(it))), stream=stream)
    if it["type"] == "life":
        sig["detector"] = it["payloads"][0]["det"].get("kind", "ccd")
    case = dict(type=it["type"], dy=it.get("dy", True), payloads=it["payloads"], sub=rec.get("sub", 0))
    for k in ("c", "refused", "name"):
        if k in it:
            case[k] = it[k]
    return Violation(clause=clause, case=case, observed=obs, expected=EXPECTED[clause],
                     what=f"{clause}: {describe(rec)}", sig=sig)


PH_NAMES = ("illumination", "load_image", "stripe_pattern", "usaf_illumination")
CV_NAMES = ("simple_conversion", "qe_map")


def tiny_payload(p):
    """The same pipeline on a 1x1 (2x2 with stripes) detector: file data cropped, shapes reset."""
    has_stripe = any(m["m"] == "stripe_pattern" for m in p["models"])
    side = 2 if has_stripe else 1
    det = dict(p["det"], rows=side, cols=side)
    if (p["det"]["rows"], p["det"]["cols"]) == (side, side):
        return None
    ms = []
    for m in p["models"]:
        m = dict(m)
        if "data" in m and m["m"] != "usaf_illumination":
            m["data"] = m["data"][:side * side]
            m.pop("data_shape", None)
            m.pop("position", None)
            m.pop("align", None)
        if m.get("option") in ("rectangular", "elliptic"):
            m["object_size"] = [2 * side + 1, 2 * side + 1]
            m.pop("object_center", None)
        if m["m"] == "stripe_pattern":
            m["period"] = 2
        ms.append(m)
    return dict(p, det=det, models=ms)


def reductions(p):
    """Candidate smaller exposure payloads, most aggressive first."""
    models = p["models"]
    cands = []
    rate = [m for m in models if m["m"] not in CV_NAMES + ("simple_collection",)]
    convs = [m for m in models if m["m"] in CV_NAMES]
    coll = [m for m in models if m["m"] == "simple_collection"]
    if len(rate) > 1 or len(convs) > 1:
        for m in rate:  # a single rate model (with one conversion if it is a photon model)
            cands.append(dict(p, models=[m] + (convs[:1] if m["m"] in PH_NAMES else []) + coll))
    n = len(p["times"])
    if n > 2:
        cands += [dict(p, times=p["times"][:2]), dict(p, times=p["times"][:1]), dict(p, times=p["times"][:n // 2]),
                  dict(p, times=p["times"][:-1])]
    elif n == 2:
        cands.append(dict(p, times=p["times"][:1]))
    for opt in ("route", "dirty", "entry"):    # the plain way of running it
        if p.get(opt):
            cands.append({k: v for k, v in p.items() if k != opt})
    t = tiny_payload(p)
    if t is not None:
        cands.append(t)
    for i, m in enumerate(models):  # drop one model
        ms = [x for j, x in enumerate(models) if j != i]
        has_ph = any(x["m"] in PH_NAMES for x in ms)
        has_cv = any(x["m"] in CV_NAMES for x in ms)
        if m["m"] != "simple_collection" and len(ms) >= 2 and (has_ph or not has_cv):
            cands.append(dict(p, models=ms))
    return cands


def shrink_exposure(ctx: Ctx, rec, rounds=6):
    """Greedy reduction of a violating exposure case (fewer models, fewer readouts, tiny detector).
    Every candidate is run on the implementation and judged inside Coq again."""
    best = rec
    for rd in range(rounds):
        cands = reductions(best["item"]["payloads"][0])
        if not cands:
            break
        items = [dict(type="exp", dy=best["item"].get("dy", True), payloads=[c]) for c in cands]
        nb = len(ctx.broken)
        recs = evaluate(ctx, items, tag=f"shrink{rd}")
        del ctx.broken[nb:]  # a candidate that cannot be built is simply not a reduction
        nxt = next((x for x in recs if x["violation"] and "pixel" in x["results"][0]), None)
        if nxt is None:
            break
        best = nxt
    return best


def collect(ctx: Ctx, recs, shrink=True):
    by_clause = {}
    for rec in recs:
        it = rec["item"]
        if rec["violation"]:
            by_clause.setdefault(clause_of(rec), []).append(rec)
        elif rec["mismatch"] and it["type"] == "life":
            ctx.broken.append(Broken("correspondence", "translated bucket lifecycle (Gen_C17.det_table) vs implementation",
                                     "what the table read from the source says detector.empty does differs from what it "
                                     "did: " + describe(rec), dict(type=it["type"], payloads=it["payloads"])))
        elif rec["mismatch"] and it["type"] == "conv":
            ctx.broken.append(Broken("correspondence", "translated conversion expression (Gen_C17.conv_table) vs implementation",
                                     "the expression read from the source, evaluated in Coq on the actual bucket content, "
                                     "differs from what the model added (or the case is ill-posed): " + describe(rec),
                                     dict(type=it["type"], payloads=it["payloads"])))
        elif rec["mismatch"] and it["type"] == "rate":
            ctx.broken.append(Broken("correspondence", "translated increment expression (Gen_C17.rate_table) vs implementation",
                                     "the expression read from the source, evaluated in Coq on the actual arguments, differs "
                                     "from what the model added (or the case is ill-posed): " + describe(rec),
                                     dict(type=it["type"], payloads=it["payloads"])))
        elif rec["mismatch"]:
            ctx.broken.append(Broken("correspondence", f"Model/Flux.v vs implementation ({it['type']} case)",
                                     "model and implementation differ, or the generated case is ill-posed: " + describe(rec),
                                     dict(type=it["type"], payloads=it["payloads"])))
    # smallest cases first inside a clause; report the clauses round-robin so that the few replay files
    # written by core.finish cover different clauses
    def size(rec):
        p = rec["item"]["payloads"][0]
        return (len(p.get("models", [0])), len(p.get("times", p.get("steps", []))), p["det"]["rows"] * p["det"]["cols"],
                1 if p.get("route") else 0, 1 if p.get("dirty") else 0)
    for cl in by_clause:
        by_clause[cl].sort(key=size)
    order = []
    k = 0
    while any(len(v) > k for v in by_clause.values()):
        order += [v[k] for cl, v in sorted(by_clause.items()) if len(v) > k]
        k += 1
    shrunk = 0
    for rec in order:
        it = rec["item"]
        if (shrink and it["type"] == "exp" and shrunk < 2 and "pixel" in rec["results"][0]
                and not it.get("refused")):
            rec = shrink_exposure(ctx, rec)
            shrunk += 1
        ctx.violations.append(to_violation(rec))


def coverage(ctx: Ctx, recs):
    seen = set()
    for rec in recs:
        it = rec["item"]
        t = it["type"]
        ctx.count("evaluations")
        ctx.dist("case_type", t)
        ctx.dist("stream", "dyadic_exact" if it.get("dy", True) else "nondyadic_tol_1e-9")
        p = it["payloads"][0]
        if t == "life":
            ctx.dist("detector_empty_called", f"{p['det'].get('kind')}.empty({'' if p['arg'] == 'default' else p['arg']})")
            seen.add(json.dumps([t, it["payloads"]], sort_keys=True))
            continue
        if t == "sched":
            ctx.dist("schedule_object_judged", p.get("route", "ctor"))
            seen.add(json.dumps([t, it["payloads"]], sort_keys=True))
            continue
        if t in ("exp", "pair", "scale"):
            for q in it["payloads"]:
                ctx.dist("detector_x_mode_x_entry", f"{q['det'].get('kind', 'ccd')}/{'nd' if q['nd'] else 'destr'}/{q.get('entry', 'run_mode')}")
                ctx.dist("schedule_route", q.get("route", "ctor") + ("/nd" if q["nd"] else "/destr"))
                ctx.dist("detector_state_before", "holds earlier data" if q.get("dirty") else "fresh")
            ctx.dist("readouts", len(p["times"]))
            ctx.dist("geometry", f"{p['det']['rows']}x{p['det']['cols']}")
            ctx.dist("mode", "non_destructive" if p["nd"] else "destructive")
            ctx.dist("entry_point", p.get("entry", "run_mode"))
            ctx.dist("start", "zero" if float.fromhex(p["start"]) == 0 else
                     ("negative" if float.fromhex(p["start"]) < 0 else "positive"))
            for nm in model_names(it):
                ctx.dist("model_in_exposure", nm)
            for m in p["models"]:
                if "time_scale" in m:
                    ctx.dist("time_scale", float.fromhex(m["time_scale"]))
            for m, a in zip(p["models"], rec["results"][0].get("aux") or []):
                if m["m"] == "dark_current" and it.get("dy", True):
                    ctx.dist("dark_current_rate_dyadic", all(is_small_dyadic(fr(v)) for v in a.get("rate", [])))
            ctx.dist("n_rate_models", sum(1 for m in p["models"] if m["m"] not in
                                          ("simple_collection", "simple_conversion", "qe_map")))
            if t == "exp":
                ctx.count("traces_validated_against_impl")
            nontrivial = (len(p["times"]) >= 2 or float.fromhex(p["start"]) != 0.0) and any(
                "pixel" in x and any(float.fromhex(v) != 0.0 for v in x["pixel"][-1]) for x in rec["results"])
        else:
            ctx.dist("model_called", p["model"]["m"] + (":" + p["model"].get("option", "") if p["model"]["m"] == "illumination" else ""))
            if t == "inc":
                mm = p["model"]
                opts = [k for k in ("time_scale", "multiplier", "convert", "position", "align", "data_shape", "angle",
                                    "band_gap", "cutoff", "object_center") if mm.get(k) not in (None, False)]
                ctx.dist("options_called", mm["m"] + "(" + ",".join(opts) + ")")
            if t in ("rate", "conv"):
                ctx.dist("rate_case" if t == "rate" else "conv_case", "judged in Coq against the translated row")
            nontrivial = True
        if nontrivial:
            seen.add(json.dumps([t, it["payloads"], rec.get("sub", 0)], sort_keys=True))
    return seen


def run(ctx: Ctx):
    ctx.trusted += TRUSTED
    ctx.assumptions += [
        "pipelines contain only the models classified as time-integrating by translator/c17.py with every option that "
        "is not a noise switch: illumination (uniform/rectangular/elliptic, object size/centre, time_scale), load_image and "
        "usaf_illumination (position, align, file shape, multiplier, time_scale, convert_to_photons + bit_resolution), "
        "stripe_pattern (period, startwith, angle, time_scale), load_charge (position, align, time_scale), dark_current "
        "(figure_of_merit, band gaps) and dark_current_rule07 (cut-off) with temporal_noise=False and no spatial noise, "
        "simple_conversion / conversion_with_qe_map with binomial_sampling=False, simple_collection (exactly one, last); "
        "the scene -> photon simple_collection is called directly only",
        "exact stream: dyadic times, levels, file values, time scales (powers of two), QE; equality is exact. "
        "Non-dyadic stream: relative tolerance 1e-9, reported separately in the distribution",
        "stripe_pattern only on even detector shapes (it returns a smaller array on odd shapes - outside this property)",
        "detector types CCD, CMOS, MKID, APD (dark_current_rule07 only on CCD / CMOS: it refuses the others); the detector "
        "object is fresh or holds data from earlier use; the schedule reaches the Readout object through its "
        "constructor, its setters, replace(), a file or a range string",
    ]
    proof_ok = translator_leg(ctx)

    r = ctx.rng("cases")
    q = ctx.quick
    items = corpus_items()
    ctx.cov["corpus_cases"] = len(items)
    items += matrix_items(ctx.rng("matrix"), exhaustive=not q)
    items += call_items(ctx, r, 2 if q else 12, True)
    items += call_items(ctx, ctx.rng("calls-nd"), 0 if q else 6, False)
    singles_and_full = [[k] for k in RATE_MODELS] + [list(RATE_MODELS)]
    subsets = singles_and_full if q else all_subsets()
    r.shuffle(subsets)
    # (the matrix block above adds 16 pairs / 16 scaled pairs / 18 routed exposures to these on every run)
    items += exposure_items(ctx, r, 20 if q else 240, 20 if q else 200, 12 if q else 160, True, subsets)
    items += exposure_items(ctx, ctx.rng("exp-nd"), 6 if q else 50, 5 if q else 40, 5 if q else 40, False)
    items += refused_items(r)
    items += sched_items(items)
    recs = evaluate(ctx, items)
    seen = coverage(ctx, recs)
    ctx.cov["distinct_nontrivial"] = len(seen)
    ctx.cov["rule"] = ("distinct (case type, payload); an exposure case is non-trivial when it has >= 2 readouts or a "
                       "non-zero start time and a non-zero final pixel value; every direct model call uses >= 3 distinct "
                       "time steps and a pre-filled bucket")
    ctx.cov["disagreements_checked"] = sum(1 for x in recs if x["mismatch"])
    subsets_run = {frozenset(rate_kind(m) for m in x["item"]["payloads"][0]["models"] if rate_kind(m))
                   for x in recs if x["item"]["type"] == "exp" and x["item"].get("dy", True) and not x["item"].get("refused")}
    subsets_run.discard(frozenset())
    ctx.cov["rate_model_subsets_run"] = len(subsets_run)
    ctx.cov["exhaustive"] = (f"{len(subsets_run)} of the {2 ** len(RATE_MODELS) - 1} non-empty subsets of the "
                             f"{len(RATE_MODELS)} rate models were run as exposures (measured)") if not q else False
    for rec in [x for x in recs if x["item"]["type"] == "pair"][:2] + [x for x in recs if x["item"]["type"] == "inc"][:1]:
        ctx.sample(dict(what=describe(rec), mismatch=rec["mismatch"], violation=rec["violation"]))
    collect(ctx, recs)
    if not q:
        ok, out = core.coqchk(ctx, "PyxelGen.C17_prop")
        ctx.cov["coqchk"] = "ok" if ok else "FAILED"
        if not ok:
            ctx.broken.append(Broken("theorem", "coqchk of Properties/C17.v", core.tail(out, 20)))
    if not proof_ok:
        rejected_lifecycle(ctx)
    if ctx.broken and not new_violations(ctx):
        search(ctx, focus=[] if proof_ok else rejected_rows(ctx))


def translator_leg(ctx: Ctx) -> bool:
    """Regenerate Gen_C17.v from the tree under test (fail closed -> FALLBACK) and check the theorems over it."""
    from translator import c17 as tr

    try:
        st = tr.translate_struct(ctx.repo)
    except core.TranslationError as ex:
        ctx.broken.append(Broken("translation", "translator/c17.py (time readers / increment expressions)", str(ex)))
        ctx.log("translation failed (fail closed), continuing with the table of the unchanged tree:", str(ex)[:300])
        st = tr.fallback_struct()
    TABLE["st"] = st
    ctx.cov["translator"] = dict(time_readers=len(st["readers"]), integrating_models=len(st["integrating"]),
                                 expression_shaped=len(st["expr_models"]), excluded_models=len(st["excluded"]),
                                 rate_table_rows=len(st["rows"]),
                                 deterministic_rows=sum(1 for x in st["rows"] if not x.get("random")),
                                 conversion_rows=len(st.get("conv_rows", [])),
                                 deterministic_conversion_rows=sum(1 for x in st.get("conv_rows", []) if not x.get("random")),
                                 detector_classes=[c["name"] + ("" if c["empty"] is None else " (own empty)") for c in st["family"]],
                                 readout_loops=[lp["name"] for lp in st["loops"]])
    known = set(KIND_CLASS.values()) | {"Detector"}
    ctx.cov["detector_classes_not_exercised"] = sorted(c["name"] for c in st["family"] if c["name"] not in known)
    return core.proof_leg(ctx, {"Gen_C17.v": tr.render(st)}, PROP_FILE)


def rejected_lifecycle(ctx: Ctx):
    """Log the detector classes / readout loops of the regenerated tables that the lifecycle check rejects."""
    text = ("From Coq Require Import List String.\nFrom PyxelV Require Import Model.FluxDet.\n"
            "From PyxelGen Require Import Gen_C17.\nImport ListNotations.\nOpen Scope string_scope.\n"
            "Set Printing Depth 100000.\nEval vm_compute in bad_classes det_table.\n"
            "Eval vm_compute in bad_loops det_table loop_table.\n")
    ctext = ("From Coq Require Import List.\nFrom PyxelV Require Import Model.FluxExpr.\n"
             "From PyxelGen Require Import Gen_C17.\nImport ListNotations.\nEval vm_compute in bad_conv_rows conv_table.\n")
    okc, evc, _ = core.coq_eval(ctx, "bad_conv", ctext)
    st = TABLE["st"]
    if okc and evc and st is not None:
        for i in core.parse_int_list(evc[0]):
            if i < len(st.get("conv_rows", [])):
                row = st["conv_rows"][i]
                ctx.log(f"conversion row rejected (not [a step-independent factor] * {row['src']}): {row['model']} "
                        f"[{' & '.join(row['conds']) or 'always'}]")
                ctx.cov.setdefault("rejected_conv_rows", []).append(f"{row['model']}: {' & '.join(row['conds'])}")
    ok, evals, se = core.coq_eval(ctx, "bad_lifecycle", text)
    if not ok or len(evals) != 2:
        return
    import re

    names = [re.findall(r'"([^"]*)"', e) for e in evals]
    for n in names[0]:
        ctx.log(f"detector class rejected: {n}.empty(reset) does not (empty photon and charge, and pixel exactly when reset)")
    for n in names[1]:
        ctx.log(f"readout loop rejected: {n} does not (reset the detector before the loop and pass reset = destructive inside)")
    ctx.cov["rejected_lifecycle"] = dict(classes=names[0], loops=names[1])


def rejected_rows(ctx: Ctx):
    """The rows of the regenerated table that are neither linear in the time step nor random (evaluated in Coq):
    [(model kind, option conditions)] for the failing-input search."""
    text = ("From Coq Require Import List.\nFrom PyxelV Require Import Model.FluxExpr.\n"      # (without the list
            "From PyxelGen Require Import Gen_C17.\nImport ListNotations.\n"                    # notations an empty
            "Eval vm_compute in bad_rows rate_table.\n")                                        # list prints as `nil`)
    ok, evals, se = core.coq_eval(ctx, "bad_rows", text)
    st = TABLE["st"]
    if not ok or not evals or st is None:
        return []
    out = []
    for i in core.parse_int_list(evals[0]):
        if i < len(st["rows"]):
            row = st["rows"][i]
            kind = st["models"].get(row["model"], {}).get("kind")
            ctx.log(f"table row rejected (not linear in the time step): {row['model']} [{' & '.join(row['conds']) or 'always'}]")
            out.append((kind, list(row["conds"])))
    ctx.cov["rejected_rows"] = [f"{k}: {' & '.join(c)}" for k, c in out]
    return out


def new_violations(ctx: Ctx):
    fs = core.load_findings(ctx.prop)
    return [v for v in ctx.violations if not any(core.finding_matches(e, v) for e in fs)]


def focus_items(ctx: Ctx, r, focus, n_calls=24, n_exp=16):
    """Direct calls and exposures of the models / option branches whose table row the theorem rejected."""
    items = []
    for kind, conds in focus:
        for hk in FAMILY.get(kind, []):
            made_c = made_e = tries = 0
            while (made_c < n_calls or made_e < n_exp) and tries < 400:
                tries += 1
                det = gen_det(r, need_even=(hk == "stripe"), small=True)
                m = gen_model(r, hk, det, True)
                try:
                    _, info = table_entry(kind)
                    full = dict(info["defaults"])
                    full.update(approx_kw(m))
                    if not all(cond_true(c, full) for c in conds):
                        continue
                except Skip:
                    pass
                n = det["rows"] * det["cols"]
                if made_c < n_calls:
                    steps = []
                    while len(set(steps)) < 3:
                        steps = [gen_increment(r, True) for _ in range(3)]
                    pre = dict(photon=gen_data(r, n, True, 8), charge=gen_data(r, n, True, 8), pixel=gen_data(r, n, True, 8))
                    pl = dict(kind="call", det=det, model=m, steps=[H(x) for x in steps], time=H(7.0), prefill=pre)
                    items += [dict(type="inc", dy=True, payloads=[pl], name=hk), dict(type="lin", dy=True, payloads=[pl], name=hk)]
                    made_c += 1
                elif made_e < n_exp:
                    models = [m] + ([gen_model(r, "simple_conversion", det, True)] if hk in PHOTON_KINDS else []) \
                        + [dict(m="simple_collection")]
                    start = gen_start(r, True)
                    end = start + r.randrange(4, 49) / 8.0
                    end = end + 1.0 if end == 0.0 else end
                    ta, tb = gen_partition(r, True, start, end, r.randrange(2, 7)), [end]
                    pa, pb = exposure_payload(det, models, start, ta, True), exposure_payload(det, models, start, tb, True)
                    items += [dict(type="exp", dy=True, payloads=[pa]), dict(type="pair", dy=True, payloads=[pa, pb])]
                    made_e += 1
    return items


def search(ctx: Ctx, focus=()):
    """An obligation or the correspondence broke without a concrete failing input: look harder."""
    ctx.log("searching for a concrete failing input (bigger budget, every subset of the rate models"
            + (", aimed at the rejected table rows" if focus else "") + ")")
    r = ctx.rng("search")
    subsets = all_subsets()
    r.shuffle(subsets)
    items = focus_items(ctx, r, focus) if focus else []
    items += call_items(ctx, r, 6, True)
    items = [it for it in items if it["type"] != "rate"]
    items += exposure_items(ctx, r, 60, 40, 30, True, subsets[:120])
    recs = evaluate(ctx, items, tag="s")
    ctx.cov["search_cases"] = len(recs)
    nb = len(ctx.broken)
    collect(ctx, recs)
    del ctx.broken[nb:]


def replay(ctx: Ctx, rp: dict) -> int:
    case = rp.get("case")
    if rp.get("kind") != "input" or not case or "payloads" not in case:
        print(f"replay names a {rp.get('kind')} that no longer checks: {rp.get('no_longer_checks')}")
        print(rp.get("detail", ""))
        return 1
    core.ensure_lib(ctx, targets=core.lib_targets_of([(core.THEORIES / PROP_FILE).read_text()]))
    if case.get("type") in ("rate", "life", "conv"):
        translator_leg(ctx)
    it = copy.deepcopy(case)
    recs = evaluate(ctx, [it], tag="replay")
    sub = case.get("sub", 0)
    recs = [x for x in recs if x.get("sub", 0) == sub] or recs
    print("case:", json.dumps(case)[:1500])
    for b in ctx.broken:
        print("could not evaluate:", b.name, b.detail[:300])
    bad = any(x["violation"] for x in recs) or not recs
    for x in recs:
        print("what:", describe(x))
        print("implementation now returns:", json.dumps([{k: v for k, v in y.items() if k != "aux"} for y in x["results"]])[:1500])
    print("specification (evaluated in Coq):", "VIOLATED" if bad else "holds")
    return 1 if bad else 0


META = dict(
    level_text=(
        "Coq theorems (closed under the global context, over Q, lists of any length) about an executable model of the "
        "exposure loop restricted to flux-integrating models: for every well-formed pipeline (any number of photon-rate "
        "models, expectation-value conversions, charge-rate models, one simple collection), every accepted schedule and "
        "start time, the pixel charge at readout i of a non-destructive exposure is (total rate)*(t_i - start) - hence "
        "the final charge is the same for any two partitions with the same end points - and each destructive frame is "
        "(total rate)*(t_i - t_(i-1)), so scaling every interval by c scales every frame by c. Tie to the source, "
        "regenerated on every run (translator/c17.py, fail closed): (a) every function under pyxel/models that reads the "
        "exposure clock or takes a time_scale must be classified as time-integrating or excluded with a reason, and "
        "every parameter of an integrating model must be classified; (b) for the expression-shaped integrating models "
        "(illumination, load_image, usaf_illumination, stripe_pattern, load_charge, dark_current, dark_current_rule07) the "
        "quantity added to the bucket is read symbolically for every option branch, and Coq proves over the regenerated "
        "table that every deterministic branch is (value at unit step)*time_step for all argument values, is additive "
        "over any split of the step, and is a PhotonRate/ChargeRate op of the exposure model; (c) the refusals of "
        "Readout.__init__ and of the detector's ReadoutProperties.__init__ read from the source accept exactly "
        "valid_schedule; (d) what simple_conversion / conversion_with_qe_map / simple_collection add to their sink is read "
        "symbolically over the content of their source bucket, and Coq proves that every deterministic branch is the "
        "Convert / Collect op of the model (a step-independent factor times the photons; the charge itself); (e) the "
        "Detector family (every class, what each own `empty(reset)` empties for both values and what it passes to its "
        "parent) and every function that calls detector.empty (the empties before the readout loop, the argument inside it "
        "for both modes) are read from the source, and Coq proves that on every detector class, by every loop, from any "
        "initial bucket content, the exposure is the modelled one - so the partition / proportionality theorems hold "
        "for every detector type. That the helpers treated as step-independent are "
        "so, that the translated rows describe what the code does, and the exposure loop itself, are established by "
        "correspondence (= testing): each real model with every option variant is called with several time steps and "
        "judged inside Coq (K-free proportionality, closed-form rate, the translated row evaluated on the actual "
        "arguments; conversions likewise; detector.empty(default/True/False) on every detector type against the translated "
        "table); real pyxel.run_mode / exposure_mode exposures on every detector type (fresh or reused), the schedule given "
        "through every route (the Readout's and the detector's start, times, steps, mode judged in Coq), under several partitions of the same interval, and under scaled "
        "destructive schedules, are judged inside Coq against the model trace, the closed forms, and each other."),
    level_note=(
        "Trusted: Coq kernel + vm_compute; the harness, driver and translator (its symbolic evaluator and classification "
        "table); numpy float64 arithmetic being exact on the dyadic inputs (a separate non-dyadic stream uses a 1e-9 "
        "relative tolerance); spatial masks, file placement, system_gain and the dark-current rates per unit time are "
        "taken from the implementation (the property is about the time dependence). Noise options and always-random "
        "models are outside the property; the scene projection (photon_collection.simple_collection) is covered by "
        "direct calls only."),
    technique="Coq proof (induction over the schedule, telescoping; homogeneity of the translated increment expressions) "
              "+ fail-closed translator + in-Coq correspondence/spec evaluation of real runs",
    design_ref="DESIGN.md section 6, C17",
)
