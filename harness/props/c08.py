"""C08 — a dotted parameter key addresses exactly one existing setting."""
from __future__ import annotations

import json
from fractions import Fraction

from .. import core
from ..core import Broken, Ctx, TranslationError, Violation

PROP_FILE = "Properties/C08.v"

TRUSTED = [
    "translator/c08.py (copy policy of Processor.__deepcopy__ / ModelGroup.__deepcopy__ and of the entry points that "
    "assign on a copy, through the recognisers of translator/c06.py; range guards of the property setters of Geometry / "
    "Characteristics / Environment / APDCharacteristics through the recognisers of translator/c12.py; fails closed); "
    "CPython's copy.deepcopy for every class without a custom hook",
    "correspondence harness: harness/props/c08.py (generators, Gallina emission), harness/drivers/c08.py "
    "(settings tree obtained by introspection of the real objects: declared properties with/without setter, "
    "vars(), dict items, model arguments, models of a group; the setters' range guards are looked up in the regenerated table)",
    "modelled, not verified: Python attribute lookup order (data descriptor, instance dict, class attribute, "
    "__getattr__), str.split/find/slicing, ast.literal_eval on the literal subset, truthiness / `is True` / `== True` on "
    "the values a flag can hold",
    "translator/c08.py also reads the test ModelGroup.__iter__ applies to a model's enabled flag, the test "
    "Observation.validate_steps applies to it, and the names Arguments.__setattr__ hands to object.__setattr__ (fail closed); "
    "probes/verif_probes_c08.py (recording probe models: which model ran, with which argument values)",
]
ASSUME = [
    "private names occur as LAST key component only, and only those that do not exist or are not the backing field of a "
    "setting listed in the snapshot: a private backing field (_row / row, _phasing / phasing, Arguments._arguments) and a "
    "list index (models.0 / <model name>) are a second key for a setting that already has one, and the tree model has no "
    "sharing inside one processor; such keys are outside the modelled key space",
    "scalar leaves expose no attributes (int.real, str.upper ... are not settings and are not generated); the same holds "
    "for a method object: a model called like a method of ModelGroup (`run`) is hidden by that method, and keys through "
    "it are generated with public components only (every Python object, a method included, has `__class__`, `__eq__` ...)",
    "class-level names used as last component (methods, class constants, read-only properties holding a plain value) are "
    "listed by introspection of the implementation under test (generator input only; static table as fallback); "
    "properties of Detector that hold data containers (photon, pixel, ...) or whose getter raises, and `numbytes` (reading "
    "it changes private caches), are not used as key components",
    "the effect of a sweep is observed on non-dask runs (product, sequential, custom mode), one readout time per run, with "
    "every model replaced by a recording probe; models of one group have distinct names",
    "APD avalanche_gain / pixel_reset_voltage / common_voltage are a documented coupled triple: when one of them is "
    "assigned, the triple and its derived caches are not compared",
    "literal subset: decimal integers, decimals/exponents (dyadic values, compared as exact rationals), True/False/None, "
    "quoted and bare words without quotes/backslashes, lists/tuples thereof; no underscores in numbers, no hex/complex/bytes/dict/set",
]

GROUPS = ["scene_generation", "photon_collection", "phasing", "charge_generation", "charge_collection",
          "charge_transfer", "charge_measurement", "signal_transfer", "readout_electronics", "data_processing"]
MODEL_NAMES = ["illumination", "illum", "illumination2", "shot_noise", "simple_conversion", "cdm", "adc", "load_image",
               "m1", "m", "run", "noise"]
ARG_NAMES = ["level", "lvl", "levels", "values", "items", "beta", "seed", "option", "image_file", "gain", "keys", "x", "d", "lst"]
GEO_FIELDS = ["row", "col", "total_thickness", "pixel_vert_size", "pixel_horz_size", "pixel_scale"]
ENV_FIELDS = ["temperature", "wavelength"]
CHAR_FIELDS = ["quantum_efficiency", "charge_to_volt_conversion", "pre_amplification", "full_well_capacity",
               "adc_bit_resolution", "adc_voltage_range"]
APD_FIELDS = ["quantum_efficiency", "full_well_capacity", "adc_bit_resolution", "adc_voltage_range", "avalanche_gain",
              "pixel_reset_voltage", "common_voltage", "roic_gain"]
APD_TRIPLE = {"avalanche_gain", "pixel_reset_voltage", "common_voltage"}
APD_IGNORE = ["avalanche_gain", "pixel_reset_voltage", "common_voltage", "avalanche_bias", "node_capacitance",
              "charge_to_volt_conversion", "system_gain", "_avalanche_gain", "_pixel_reset_voltage", "_common_voltage",
              "_avalanche_bias", "_node_capacitance", "_charge_to_volt_conversion"]

# ------------------------------------------------------------------------------------------ JSON values


def jv(v):
    if v is None:
        return {"t": "none"}
    if isinstance(v, bool):
        return {"t": "bool", "v": v}
    if isinstance(v, int):
        return {"t": "int", "v": str(v)}
    if isinstance(v, float):
        f = Fraction(v)
        # dyadic -> exact finite decimal
        e = 0
        while f.denominator != 1:
            f *= 10
            e -= 1
        m = f.numerator
        while m and m % 10 == 0:
            m //= 10
            e += 1
        return {"t": "dec", "m": str(m), "e": e}
    if isinstance(v, str):
        return {"t": "str", "v": v}
    if isinstance(v, list):
        return {"t": "list", "v": [jv(x) for x in v]}
    if isinstance(v, tuple):
        return {"t": "tuple", "v": [jv(x) for x in v]}
    if isinstance(v, dict) and v.get("t") == "arr":
        return v
    raise TypeError(v)


def cv(j) -> str:
    t = j["t"]
    if t == "none":
        return "VNone"
    if t == "bool":
        return f"(VBool {core.cbool(j['v'])})"
    if t == "int":
        return f"(VInt {core.cz(int(j['v']))})"
    if t == "dec":
        return f"(VDec {core.cz(int(j['m']))} {core.cz(int(j['e']))})"
    if t == "str":
        return f"(VStr {core.cstr(j['v'])})"
    if t in ("list", "tuple", "arr"):
        c = {"list": "VList", "tuple": "VTuple", "arr": "VArr"}[t]
        return f"({c} {core.clist(cv(x) for x in j['v'])})"
    if t == "opaque":
        return f"(VOpaque {core.cstr(j['v'])})"
    raise ValueError(t)


def cguard(g) -> str:
    if g is None:
        return "GAny"
    if g[0] == "ref":       # the guard the source states for this setter (Gen_C08.v)
        return f"(guard_of src_setter_guards {core.cstr(g[1])} {core.cstr(g[2])})"
    if g[0] == "range":
        return f"(GRange {core.cz(g[1])} {core.cz(g[2])} {core.cbool(g[3])} {core.cbool(g[4])})"
    return f"(GAbove {core.cz(g[1])} {core.cbool(g[2])})"


def ctree(t) -> str:
    if "leaf" in t:
        return f"(Leaf {cv(t['leaf'])})"
    nk = {"obj": f"(NObj {core.cbool(t.get('open', True))})", "dict": "NDict", "args": "NArgs", "group": "NGroup"}[t["node"]]
    s = "MNil"
    for n, mk, g, sub in reversed(t["members"]):
        k = {"prop1": f"(KProp true {cguard(g)})", "prop0": "(KProp false GAny)", "inst": "KInst", "class": "KClass",
             "item": "KItem"}[mk]
        s = f"(MCons {core.cstr(n)} {k} {ctree(sub)} {s})"
    return f"(Node {nk} {s})"


def cres(r, f) -> str:
    return f"(Ok {f(r['ok'])})" if "ok" in r else f"(Raise {r['raise']})"


def ckey(key: str) -> str:
    return core.clist(core.cstr(c) for c in key.split("."))


# ------------------------------------------------------------------------------------------ generators


def ok_str(s: str) -> bool:
    return all(32 <= ord(c) < 127 for c in s)


def gen_argval(r):
    k = r.randrange(8)
    if k == 0:
        return r.randrange(-5, 100)
    if k == 1:
        return r.randrange(-64, 640) / 64
    if k == 2:
        return r.choice([True, False])
    if k == 3:
        return r.choice(["foo", "image.fits", "a b"])
    if k == 4:
        return [r.randrange(10) for _ in range(r.randrange(0, 4))]
    if k == 5:
        return None
    return r.randrange(0, 10)


# the `enabled` flag is an ordinary setting: a configuration (`enabled: 1`), a constructor, Processor.set or an override
# text ('1' -> int 1) can put any value there.  Non-bool truthy / falsy values are the inputs on which two readers of
# the flag (validation of a sweep, execution of the pipeline) can disagree.
FLAG_VALUES = [1, 0, 1.0, 0.0, 2, "yes", "", None, {"t": "npbool", "v": True}, {"t": "npbool", "v": False}, "false", 0.5]


def gen_flag(r):
    if r.random() < 0.7:
        return r.random() < 0.75
    v = r.choice(FLAG_VALUES)
    return v if isinstance(v, dict) else jv(v)


def flag_truthy(e) -> bool:
    if not isinstance(e, dict):
        return bool(e)
    t = e["t"]
    if t in ("bool", "npbool"):
        return bool(e["v"])
    if t == "int":
        return int(e["v"]) != 0
    if t == "dec":
        return int(e["m"]) != 0
    if t == "str":
        return e["v"] != ""
    return False


def gen_pipe(r, rich=True):
    pipe = {}
    for g in r.sample(GROUPS, r.randrange(1, 4)):
        models = []
        names = r.sample(MODEL_NAMES, r.randrange(1, 4))
        if r.random() < 0.35:  # names that are prefixes of each other, in both orders
            names = r.choice([["illum", "illumination"], ["illumination", "illum"], ["m", "m1"], ["illumination2", "illumination"]])
        for n in names:
            args = {}
            for a in r.sample(ARG_NAMES, r.randrange(0, 5)):
                if a == "d":
                    args[a] = {"t": "dictv", "v": {"k": jv(1), "keys": jv(2), "w": jv("foo")}}
                elif a == "lst":
                    args[a] = jv([1, 2, 3])
                else:
                    args[a] = jv(gen_argval(r))
            m = dict(func=f"pyxel.models.{g}.{n}", name=n, enabled=gen_flag(r), arguments=args)
            models.append(m)
        pipe[g] = models
    return pipe


def dict_args(pipe):
    """dict-valued arguments are encoded separately (driver decodes {"t":"dictv"})."""
    return pipe


def valid_keys(det, pipe):
    ks = []
    for f in GEO_FIELDS:
        ks.append(("detector.geometry." + f, "geo", f))
    for f in ENV_FIELDS:
        ks.append(("detector.environment." + f, "env", f))
    for f in (APD_FIELDS if det == "apd" else CHAR_FIELDS):
        ks.append(("detector.characteristics." + f, "char", f))
    for g, models in pipe.items():
        for m in models:
            ks.append((f"pipeline.{g}.{m['name']}.enabled", "enabled", "enabled"))
            for a, v in m["arguments"].items():
                ks.append((f"pipeline.{g}.{m['name']}.arguments.{a}", "arg", a))
                if isinstance(v, dict) and v.get("t") == "dictv":
                    for kk in v["v"]:
                        ks.append((f"pipeline.{g}.{m['name']}.arguments.{a}.{kk}", "dictitem", kk))
    return ks


VALID_VALUES = {
    "row": [1, 2, 7, 100], "col": [1, 5, 64], "total_thickness": [0.5, 10.25, 10000], "pixel_vert_size": [0.5, 1.5, 1000],
    "pixel_horz_size": [0.25, 18, 1000], "pixel_scale": [0.25, 0.125, 999.5], "temperature": [0.5, 77, 1000], "wavelength": [0.5, 550, 1200],
    "quantum_efficiency": [0, 0.25, 1, 0.875], "charge_to_volt_conversion": [0, 0.5, 100], "pre_amplification": [0, 4.5, 10000],
    "full_well_capacity": [0, 1024, 10 ** 7], "adc_bit_resolution": [4, 8, 16, 32, 64], "adc_voltage_range": [[0, 5], [0.5, 3.5]],
    "avalanche_gain": [1, 2, 4], "pixel_reset_voltage": [4.5, 5, 6], "common_voltage": [1.5, 2, 3], "roic_gain": [0.5, 1],
}
INVALID_VALUES = {
    "row": [0, -1], "col": [0, -3], "total_thickness": [-1, 10001, -0.5], "pixel_vert_size": [-0.5, 1000.5], "pixel_horz_size": [-1, 1001],
    "pixel_scale": [-0.25, 1000.25], "temperature": [0, -2, 1000.5], "wavelength": [0, -1.5], "quantum_efficiency": [-0.25, 1.5, 2],
    "charge_to_volt_conversion": [-1, 100.5], "pre_amplification": [-0.5, 10001], "full_well_capacity": [-1, 10 ** 7 + 1],
}


def as_text(r, v):
    """a textual form of the value, as a YAML/CLI user would write it (exact for the dyadic floats used)."""
    if isinstance(v, bool) or v is None:
        return repr(v)
    if isinstance(v, int):
        return r.choice([str(v), str(v), f" {v}", f"{v} "])
    if isinstance(v, float):
        return repr(v)
    if isinstance(v, list):
        return "[" + ", ".join(as_text(r, x).strip() for x in v) + "]"
    return str(v)


def gen_value(r, field, guarded, want_valid=True):
    if guarded:
        pool = VALID_VALUES[field] if want_valid or field not in INVALID_VALUES else INVALID_VALUES[field]
        v = r.choice(pool)
        if isinstance(v, float) and v == int(v) and r.random() < 0.5:
            v = int(v)
        k = r.random()
        if field in APD_TRIPLE:
            return float(v)  # numeric only: the coupled setters do arithmetic on the value
        if k < 0.4:
            return as_text(r, v)  # numeric string
        if k < 0.5 and isinstance(v, (int, float)) and not isinstance(v, bool):
            return {"t": "arr", "v": [jv(v)]} if field in ("adc_voltage_range",) else v
        return v
    k = r.randrange(14)
    if k == 0:
        return r.randrange(-1000, 1000)
    if k == 1:
        return r.randrange(-640, 6400) / 128
    if k == 2:
        return r.choice([True, False])
    if k == 3:
        return r.choice(["foo", "some_word", "image.fits", "a b", "true", "none", "nan"])
    if k == 4:
        return r.choice(["1e3", "007", "0.5", "-3", "+4", "1.", ".5", "2.50", "1E+2", "00", "-0", "12", "25e-2", "True", "False"])
    if k == 5:
        return r.choice(["None", "", "'quoted'", '"dq"', "[1, 2, 3]", "(1, 2)", "[1, abc]", "[0.5, 'a']", "()", "[]"])
    if k == 6:
        return [r.randrange(10) for _ in range(r.randrange(0, 4))]
    if k == 7:
        return [r.choice(["1", "0.25", "foo", "", "1e2", "007", 3, 0, 0.5, "None"]) for _ in range(r.randrange(1, 4))]
    if k == 8:
        return {"t": "arr", "v": [jv(float(r.randrange(-8, 8)) / 4) for _ in range(r.randrange(1, 5))]}
    if k == 9:
        return tuple(r.choice(["2", 1, "x"]) for _ in range(r.randrange(1, 3)))
    if k == 10:
        return None
    if k == 11:
        return {"t": "arr", "v": [jv(r.randrange(0, 9)) for _ in range(3)]}
    return r.randrange(0, 50)


ALPH = "abcdefghijklmnopqrstuvwxyz_"

# --- class-level names: a key whose LAST component is the name of a method / class constant / read-only property of the
# CLASS of the object the key walks to (Arguments and dict: the Mapping methods; the detector sections: to_dict ...;
# ModelFunction, ModelGroup, DetectionPipeline, Detector, Processor).  Such a name exists (hasattr is True) but is no
# setting: the assignment must be refused and nothing may change (no instance attribute may shadow the method).
# The names are obtained from the implementation under test by introspection (driver op "names": generator input only);
# this table is the fallback when that fails.
_MAPPING = ["clear", "get", "items", "keys", "pop", "popitem", "setdefault", "update", "values", "__len__", "__iter__",
            "__contains__", "__eq__", "__getitem__", "__setitem__", "__class__", "__init__"]
_OBJ = ["__eq__", "__repr__", "__init__", "__class__", "__hash__"]
STATIC_NAMES = {
    "Processor": ["get", "has", "set", "replace", "run_pipeline", "result_to_dataset"] + _OBJ,
    "Detector": ["to_dict", "from_dict", "empty", "load", "save", "to_xarray", "memory_usage", "set_readout",
                 "is_dynamic"] + _OBJ,
    "Geometry": ["to_dict", "from_dict", "shape", "horz_dimension", "vert_dimension"] + _OBJ,
    "Environment": ["to_dict", "from_dict"] + _OBJ,
    "Characteristics": ["to_dict", "from_dict", "system_gain"] + _OBJ,
    "DetectionPipeline": ["MODEL_GROUPS", "describe", "get_model", "model_group_names"] + _OBJ,
    "ModelGroup": ["run", "__iter__", "__getattr__", "__deepcopy__"] + _OBJ,
    "ModelFunction": ["name", "__call__"] + _OBJ,
    "Arguments": _MAPPING + ["__getattr__", "__setattr__", "__dir__", "_abc_impl"],
    "dict": _MAPPING + ["copy", "fromkeys"],
}
NAMES: dict = {}      # detector type -> landing class -> usable class-level names (filled by load_names)
USABLE_KINDS = ("method", "constant", "prop_ro_plain")


def load_names(ctx: Ctx):
    pipe = {"photon_collection": [dict(func="f.illumination", name="illumination", enabled=True, arguments={"level": jv(1)})]}
    dets = ["ccd", "cmos", "mkid", "apd"]
    obs = core.run_driver(ctx, "c08", [dict(op="names", det=d, pipe=pipe) for d in dets], workers=1)
    NAMES.clear()
    for d, o in zip(dets, obs):
        if "names" not in o:
            ctx.log(f"class-level names of a {d} processor could not be listed (static table used): {str(o)[:200]}")
            NAMES[d] = {k: list(v) for k, v in STATIC_NAMES.items()}
            continue
        NAMES[d] = {label: sorted(n for n, kind in rows if kind in USABLE_KINDS and ok_str(n) and n not in GROUPS)
                    for label, rows in o["names"].items()}
        for label, static in STATIC_NAMES.items():
            NAMES[d].setdefault(label, list(static))


def names_of(det: str, label: str):
    return (NAMES.get(det) or NAMES.get("ccd") or STATIC_NAMES).get(label) or STATIC_NAMES[label]


def landing_label(prefix):
    """the class of the object a valid key's prefix walks to"""
    n = len(prefix)
    if n == 0:
        return "Processor"
    if prefix[0] == "detector":
        return "Detector" if n == 1 else {"geometry": "Geometry", "environment": "Environment",
                                          "characteristics": "Characteristics"}.get(prefix[1]) if n == 2 else None
    if prefix[0] == "pipeline":
        if n <= 3:
            return {1: "DetectionPipeline", 2: "ModelGroup", 3: "ModelFunction"}[n]
        if prefix[3] == "arguments":
            return "Arguments" if n == 4 else ("dict" if n == 5 else None)
    return None


def declared_here(pipe, prefix):
    """the settings / items that really exist below this prefix (so that a class-level name that is ALSO declared —
    an argument called `values` — is not mislabelled)"""
    if len(prefix) >= 4 and prefix[0] == "pipeline" and prefix[3] == "arguments":
        for m in pipe.get(prefix[1], []):
            if m["name"] == prefix[2]:
                if len(prefix) == 4:
                    return set(m["arguments"])
                v = m["arguments"].get(prefix[4])
                return set(v["v"]) if isinstance(v, dict) and v.get("t") == "dictv" else set()
    if len(prefix) == 2 and prefix[0] == "pipeline":
        return {m["name"] for m in pipe.get(prefix[1], [])}
    return set()


# names EVERY Python object has, None included: a key whose path does not exist (a misspelt inner component) must not be
# confirmed by has() just because its last component is one of them
UNIVERSAL_DUNDERS = ["__class__", "__eq__", "__doc__", "__init__", "__reduce__", "__hash__", "__str__", "__repr__", "__ne__", "__dir__"]


def missing_path_dunder_key(r, key: str):
    """one STRUCTURAL component misspelt (detector / its section / pipeline / the group / `arguments`: a misspelt model
    or argument name could be another existing one, and then the key would walk into a value), cut anywhere after it,
    + a name every object has"""
    parts = key.split(".")
    structural = [i for i in range(len(parts) - 1) if i in (0, 1) or (i == 3 and parts[0] == "pipeline" and parts[3] == "arguments")]
    i = r.choice(structural)
    d = r.randrange(i + 1, len(parts) + 1)
    prefix = parts[:d]
    prefix[i] = misspell(r, parts[i])
    while prefix[i].startswith("_") or prefix[i] in GROUPS or prefix[i] in ("detector", "pipeline", "observation", "arguments"):
        prefix[i] = misspell(r, parts[i])
    return ".".join(prefix + [r.choice(UNIVERSAL_DUNDERS)])


def walk_reaches(prefix, det="ccd") -> bool:
    """a model called like a method of ModelGroup (`run`) is hidden by that method: keys through it walk into the method
    object, which the settings tree lists as a leaf without attributes (see ASSUME)"""
    return not (len(prefix) >= 3 and prefix[0] == "pipeline" and (prefix[2] in names_of(det, "ModelGroup") or prefix[2] in STATIC_NAMES["ModelGroup"]))


def class_attr_key(r, key: str, pipe, det="ccd", dunder=0.25):
    """a valid key cut after one of its objects + a class-level name of that object's class"""
    parts = key.split(".")
    depths = [d for d in range(len(parts)) if landing_label(parts[:d]) and walk_reaches(parts[:d], det)]
    if parts[0] == "pipeline" and len(parts) >= 5 and r.random() < 0.5 and 4 in depths:
        depths = [4]            # the Arguments object: the place where a name is most easily both
    d = r.choice(depths)
    prefix = parts[:d]
    pool = [n for n in names_of(det, landing_label(prefix)) if n not in declared_here(pipe, prefix)]
    pub = [n for n in pool if not n.startswith("_")]
    prv = [n for n in pool if n.startswith("_")]
    name = r.choice(prv) if prv and (not pub or r.random() < dunder) else r.choice(pub)
    return ".".join(prefix + [name])


def misspell(r, comp: str) -> str:
    if not comp:
        return "x"
    k = r.randrange(4)
    i = r.randrange(len(comp))
    if k == 0 and len(comp) > 1:
        return comp[:i] + comp[i + 1:]
    if k == 1 and len(comp) > 1:
        i = r.randrange(len(comp) - 1)
        out = comp[:i] + comp[i + 1] + comp[i] + comp[i + 2:]
        return out if out != comp else comp + "s"
    if k == 2:
        c = r.choice([x for x in ALPH if x != comp[i]])
        return comp[:i] + c + comp[i + 1:]
    return comp[:i] + r.choice(ALPH) + comp[i:]


def mutate_key(r, key: str, pipe, det="ccd"):
    parts = key.split(".")
    k = r.randrange(12)
    if k >= 10:
        if r.random() < 0.2:
            return missing_path_dunder_key(r, key), "missing_path_dunder"
        return class_attr_key(r, key, pipe, det), "class_attr_last"
    if k <= 3:  # misspelt last component (edit distance 1)
        parts[-1] = misspell(r, parts[-1])
        kind = "misspelt_last"
    elif k <= 5:  # misspelt inner component
        i = r.randrange(len(parts) - 1)
        parts[i] = misspell(r, parts[i])
        kind = "misspelt_inner"
    elif k == 6:
        parts = parts[:r.randrange(1, len(parts))]
        kind = "truncated"
    elif k == 7 and r.random() < 0.5:
        parts = parts + [r.choice(["x", "value", "arguments", "enabled", "level", "0", "keys", "name"])]
        kind = "extended"
    elif k == 7:   # a junk component somewhere inside the key (everything around it is right)
        i = r.randrange(1, len(parts))
        parts = parts[:i] + [r.choice(["x", "zz", "arguments", "value", "k", "item", parts[i - 1]])] + parts[i:]
        kind = "inserted_component"
    elif k == 8:  # a prefix / extension of the model or argument name (string-prefix confusion)
        i = r.randrange(len(parts))
        c = parts[i]
        parts[i] = c[:max(1, len(c) - r.randrange(1, 4))] if r.random() < 0.6 else c + r.choice(["2", "s", "_"])
        kind = "prefix_component"
    else:
        i = r.randrange(len(parts))
        parts[i] = r.choice(["", "run", "to_dict", "shape", "name", "arguments", "MODEL_GROUPS", "detector", "pipeline",
                             "get", "describe", "enabled"])
        kind = "swapped_component"
    parts = [p for p in parts if not p.startswith("_")] or ["x"]
    return ".".join(parts), kind


# private names as LAST component: names that do not exist (must be refused, nothing may be created) and existing
# private attributes that are not the backing field of a setting listed in the snapshot (those would be a second key
# for the same setting, which the tree model — no sharing inside one processor — does not represent)
PRIVATE_EXISTING = {0: ["_numbytes", "_result", "_log"],                       # Processor
                    1: ["_numbytes", "_output_dir", "_geometry", "_memory"],   # Detector
                    2: ["_numbytes"],                                          # Geometry / Environment / Characteristics
                    "group": ["_name", "_log"], "model": ["_func_name", "_func", "_arguments"]}


def private_key(r, key: str):
    parts = key.split(".")
    if parts[0] == "detector":
        depth = r.choice([0, 1, 2])
        prefix, pool = parts[:depth], PRIVATE_EXISTING[depth]
    else:
        depth = r.choice([0, 2, 3, 4]) if len(parts) >= 5 else r.choice([0, 2, 3])
        prefix = parts[:depth]
        pool = {0: PRIVATE_EXISTING[0], 2: PRIVATE_EXISTING["group"], 3: PRIVATE_EXISTING["model"], 4: []}[depth]
    if pool and r.random() < 0.6:
        return ".".join(prefix + [r.choice(pool)]), "private_existing"
    return ".".join(prefix + [r.choice(["_x", "_cache", "_value_", "_" + parts[-1] + "_", "__x"])]), "private_missing"


def gen_set_cases(ctx: Ctx, budget: int):
    r = ctx.rng("set")
    cases = []
    dets = ["ccd", "cmos", "mkid", "apd"]
    n = 0
    while len(cases) < budget:
        det = dets[n % 4]
        n += 1
        pipe = gen_pipe(r)
        # dict-valued argument on some models
        for g, models in pipe.items():
            for m in models:
                if "d" in m["arguments"]:
                    m["arguments"]["d"] = {"t": "dictv", "v": {"k": jv(1), "keys": jv(2), "w": jv("foo")}}
        vks = valid_keys(det, pipe)
        per = 10
        # every valid key class at least once over the run; here a sample per processor
        chosen = r.sample(vks, min(per, len(vks)))
        for key, cls, field in chosen:
            guarded = cls in ("geo", "env", "char")
            roll = r.random()
            if roll < 0.45:
                k2, kind = key, "valid"
            elif roll < 0.52:
                k2, kind = private_key(r, key)
            else:
                k2, kind = mutate_key(r, key, pipe, det)
            want_valid = r.random() < 0.8
            val = gen_value(r, field, guarded and kind == "valid", want_valid)
            if kind != "valid" and guarded and r.random() < 0.5:
                val = gen_value(r, field, True, True)
            if not ok_str(k2):
                continue
            ignore = []
            if det == "apd" and k2.split(".")[-1] in APD_TRIPLE and k2.startswith("detector.characteristics."):
                ignore = [["detector", "characteristics", f] for f in APD_IGNORE]
            cases.append(dict(op="set", det=det, pipe=pipe, key=k2, kind=kind, field=field, cls=cls,
                              value=val if isinstance(val, dict) and "t" in val else jv(val),
                              path=r.choice(["set", "set", "override"]), ignore=ignore))
    return cases[:budget]


def exhaustive_valid_cases(ctx: Ctx):
    """every setting of every detector type + every argument/flag of one rich pipeline, valid and misspelt-last."""
    r = ctx.rng("exh")
    cases = []
    pipe = {"photon_collection": [dict(func="f.illumination", name="illumination", enabled=True,
                                       arguments={"level": jv(1), "values": jv(3), "lst": jv([1, 2]),
                                                  "d": {"t": "dictv", "v": {"k": jv(1)}}}),
                                  dict(func="f.illum", name="illum", enabled=False, arguments={"level": jv(2)})],
            "charge_generation": [dict(func="f.illum", name="illum", enabled=True, arguments={"level": jv(5), "gain": jv(0.5)}),
                                  dict(func="f.illumination", name="illumination", enabled=True, arguments={"level": jv(6)})]}
    for det in ["ccd", "cmos", "mkid", "apd"]:
        for key, cls, field in valid_keys(det, pipe):
            guarded = cls in ("geo", "env", "char")
            ignore = []
            if det == "apd" and field in APD_TRIPLE:
                ignore = [["detector", "characteristics", f] for f in APD_IGNORE]
            if cls in ("arg", "enabled", "dictitem") and det != "ccd":
                continue
            cases.append(dict(op="set", det=det, pipe=pipe, key=key, kind="valid", field=field, cls=cls,
                              value=jv(gen_value(r, field, guarded, True)) if guarded else jv(r.choice([7, "8", 0.5, "foo"])),
                              path="set", ignore=ignore))
            parts = key.split(".")
            parts[-1] = misspell(r, parts[-1])
            while parts[-1].startswith("_"):       # private names are outside the modelled key space (ASSUME)
                parts[-1] = misspell(r, key.split(".")[-1])
            cases.append(dict(op="set", det=det, pipe=pipe, key=".".join(parts), kind="misspelt_last", field=field, cls=cls,
                              value=jv(3), path=r.choice(["set", "override"]), ignore=[]))
            if det == "ccd":
                # everything right but one junk component before the last one (inside a dict for the items of a
                # dict-valued argument): has, set and get must all refuse
                parts = key.split(".")
                parts.insert(len(parts) - 1, r.choice(["zz", "x", "item"]))
                cases.append(dict(op="set", det=det, pipe=pipe, key=".".join(parts), kind="inserted_component", field=field,
                                  cls=cls, value=jv(3), path="set", ignore=[]))
    return cases



RICH_PIPE = {"photon_collection": [dict(func="f.illumination", name="illumination", enabled=True,
                                        arguments={"level": 1, "values": 3, "lst": [1, 2], "d": {"k": 1, "keys": 2}}),
                                   dict(func="f.illum", name="illum", enabled=False, arguments={"level": 2})],
             "charge_generation": [dict(func="f.illum", name="illum", enabled=True, arguments={})]}


def _rich_pipe():
    out = {}
    for g, ms in RICH_PIPE.items():
        out[g] = [dict(m, arguments={a: ({"t": "dictv", "v": {k: jv(x) for k, x in v.items()}} if isinstance(v, dict) else jv(v))
                                     for a, v in m["arguments"].items()}) for m in ms]
    return out


def exhaustive_class_attr_cases(ctx: Ctx):
    """EVERY public class-level name (method, class constant, read-only property) of every kind of object a key can land
    on — Processor, Detector, its three sections, DetectionPipeline, ModelGroup, ModelFunction, Arguments (with and
    without declared arguments, of an enabled and of a disabled model), a dict-valued argument — as last component, plus
    a sample of the non-public ones; all of them on a ccd processor, and for the other detector types the names their
    classes add.  Nothing of this is a setting: has() may say True, set() must refuse and change nothing."""
    r = ctx.rng("exh_class")
    pipe = _rich_pipe()
    landings = [[], ["detector"], ["detector", "geometry"], ["detector", "environment"], ["detector", "characteristics"],
                ["pipeline"], ["pipeline", "photon_collection"], ["pipeline", "photon_collection", "illumination"],
                ["pipeline", "photon_collection", "illumination", "arguments"],
                ["pipeline", "photon_collection", "illum", "arguments"],
                ["pipeline", "charge_generation", "illum", "arguments"],
                ["pipeline", "photon_collection", "illumination", "arguments", "d"]]
    cases = []

    def add(det, prefix, name):
        cases.append(dict(op="set", det=det, pipe=pipe, key=".".join(prefix + [name]), kind="class_attr_last", field=name,
                          cls="class_attr", value=jv(r.choice([5, 5, "8", 0.5, "foo", [1, 2], True])),
                          path=r.choice(["set", "set", "override"]), ignore=[]))

    seen = {}
    for det in ["ccd", "cmos", "mkid", "apd"]:
        for prefix in landings:
            label = landing_label(prefix)
            pool = [n for n in names_of(det, label) if n not in declared_here(pipe, prefix)]
            pub = [n for n in pool if not n.startswith("_")]
            prv = [n for n in pool if n.startswith("_")]
            if det == "ccd":
                chosen = pub + r.sample(prv, min(3, len(prv)))
                seen[tuple(prefix)] = set(pub)
            else:
                new = [n for n in pub if n not in seen[tuple(prefix)]]
                chosen = new + r.sample(pub, min(1, len(pub)))
            for n in chosen:
                add(det, prefix, n)
    # a path that does not exist + a name every object (None included) has
    for prefix in (["detector", "geomtry"], ["detecto"], ["detector", "environment", "temperatur"],
                   ["pipeline", "photon_colection", "illumination"], ["pipeline", "photon_collection", "illumination", "argument"],
                   ["pipeline", "phasing", "m"]):
        for n in r.sample(UNIVERSAL_DUNDERS, 2):
            add("ccd", prefix, n)
            cases[-1]["kind"] = "missing_path_dunder"
    return cases


# --- derived processors (the copy a sweep / calibration / replace assigns on)

VIAS = ["deepcopy", "replace", "create_new_processor", "build_processors", "update_processor"]


def derive_value(r, via, field, guarded):
    """a value the entry point can carry: update_processor hands over numpy floats, build_processors scalars"""
    if via == "update_processor":
        if guarded:
            v = r.choice([x for x in VALID_VALUES[field] if isinstance(x, (int, float)) and not isinstance(x, bool)] or [1])
            return jv(float(v))
        return jv(float(r.choice([0, 1, 2, 0.5, 7, 12.25, -3])))
    if guarded:
        v = r.choice(VALID_VALUES[field])
        if via == "build_processors" and isinstance(v, list):
            v = 1
        return jv(v) if field in APD_TRIPLE or r.random() < 0.6 or isinstance(v, list) else jv(as_text(r, v).strip())
    if via == "build_processors":
        return jv(r.choice([0, 1, 7, 0.5, True, False, "foo", "12", "0.25", "image.fits"]))
    return jv(r.choice([0, 1, 7, 0.5, True, False, "foo", "12", "1e3", [1, 2], ["3", 0.5], (4, 5), "some_word"]))


def derive_case(r, det, pipe, key, cls, field, kind, via):
    guarded = cls in ("geo", "env", "char") and kind == "valid"
    ignore = []
    if det == "apd" and key.split(".")[-1] in APD_TRIPLE and key.startswith("detector.characteristics."):
        ignore = [["detector", "characteristics", f] for f in APD_IGNORE]
    return dict(op="derive", det=det, pipe=pipe, key=key, kind=kind, field=field, cls=cls, via=via,
                value=derive_value(r, via, field, guarded), path=via, ignore=ignore)


def gen_derive_cases(ctx: Ctx, budget: int):
    """keys assigned on a derived processor: every class of setting (detector sub-objects, enabled and DISABLED models,
    their flags, arguments, items of nested dict arguments), mostly valid (a refused assignment has nothing to leak)."""
    r = ctx.rng("derive")
    cases = []
    n = 0
    while len(cases) < budget:
        det = ["ccd", "cmos", "mkid", "apd"][n % 4]
        n += 1
        pipe = gen_pipe(r)
        vks = valid_keys(det, pipe)
        by_cls = {}
        for k in vks:
            by_cls.setdefault(k[1], []).append(k)
        # one key of every class present (so that no class is starved by the 14+ detector fields)
        chosen = [r.choice(v) for _, v in sorted(by_cls.items())]
        dis = [k for k in vks if k[1] in ("enabled", "arg", "dictitem") and not _model_enabled(pipe, k[0])]
        if dis:
            chosen.append(r.choice(dis))
        for key, cls, field in chosen:
            via = r.choice(VIAS)
            if r.random() < 0.85:
                k2, kind = key, "valid"
            else:
                k2, kind = mutate_key(r, key, pipe, det)
                if not ok_str(k2):
                    continue
            cases.append(derive_case(r, det, pipe, k2, cls, field, kind, via))
    return cases[:budget]


def _model_enabled(pipe, key: str) -> bool:
    parts = key.split(".")
    if parts[0] != "pipeline" or len(parts) < 3:
        return True
    for m in pipe.get(parts[1], []):
        if m["name"] == parts[2]:
            return flag_truthy(m["enabled"])
    return True


def exhaustive_derive_cases(ctx: Ctx):
    """every pipeline key of one rich pipeline (an enabled and a disabled model, dict- and list-valued arguments) and
    one key per detector section, through every entry point."""
    r = ctx.rng("exh_derive")
    pipe = {"photon_collection": [dict(func="f.illumination", name="illumination", enabled=True,
                                       arguments={"level": jv(1), "lst": jv([1, 2]),
                                                  "d": {"t": "dictv", "v": {"k": jv(1), "w": jv("foo")}}}),
                                  dict(func="f.shot_noise", name="shot_noise", enabled=False,
                                       arguments={"type": jv("poisson"), "d": {"t": "dictv", "v": {"k": jv(2)}}})],
            "charge_generation": [dict(func="f.cdm", name="cdm", enabled=False, arguments={"beta": jv(0.5)})]}
    cases = []
    keys = [k for k in valid_keys("ccd", pipe) if k[1] in ("enabled", "arg", "dictitem")]
    keys += [("detector.geometry.row", "geo", "row"), ("detector.environment.temperature", "env", "temperature"),
             ("detector.characteristics.quantum_efficiency", "char", "quantum_efficiency")]
    for via in VIAS:
        for key, cls, field in keys:
            cases.append(derive_case(r, "ccd", pipe, key, cls, field, "valid", via))
    return cases

# --- literal texts


def render_value(r, v, top=True):
    """(text, expected value) — the renderer is the independent statement of what a text denotes."""
    if v is None:
        return "None"
    if isinstance(v, bool):
        return repr(v)
    if isinstance(v, int):
        return r.choice([str(v), str(v), "+" + str(v) if v >= 0 else str(v)])
    if isinstance(v, float):
        s = repr(v)
        alt = [s]
        f = Fraction(v)
        if "e" not in s:
            alt.append(s + "0")
            if s.endswith(".0"):
                alt += [s[:-1], s[:-2] + "e0", s[:-2] + "E+0"]
            if s.startswith("0."):
                alt.append(s[1:])
            if s.startswith("-0."):
                alt.append("-" + s[2:])
        if f.denominator == 1 and abs(f.numerator) >= 10 and f.numerator % 10 == 0:
            k = 0
            m = f.numerator
            while m % 10 == 0:
                m //= 10
                k += 1
            alt += [f"{m}e{k}", f"{m}E+{k}", f"{m}.0e{k}"]
        return r.choice(alt)
    if isinstance(v, str):
        if top and r.random() < 0.5 and v and all(c.isalnum() or c in "_. -/" for c in v) and not v[0].isdigit() \
                and v not in ("True", "False", "None") and v[0] not in "+-. " and v[-1] != " ":
            return v
        q = r.choice(["'", '"'])
        return q + v + q
    if isinstance(v, list):
        inner = r.choice([", ", ",", " , "]).join(render_value(r, x, False) for x in v)
        if v and r.random() < 0.15:
            inner += ","
        return "[" + inner + "]"
    if isinstance(v, tuple):
        inner = ", ".join(render_value(r, x, False) for x in v)
        if len(v) == 1:
            inner += ","
        return "(" + inner + ")"
    raise TypeError(v)


def gen_lit_value(r, depth=0):
    k = r.randrange(9 if depth < 2 else 6)
    if k == 0:
        return r.choice([0, 1, -1, 7, 10, 100, 1000, r.randrange(-10 ** 6, 10 ** 6), r.randrange(10 ** 18, 10 ** 19)])
    if k == 1:
        return r.choice([0.5, 0.25, 1.0, 1000.0, 1e3, 2.5, -0.125, 100.0, 1e5, r.randrange(-4096, 4096) / 64,
                         float(r.randrange(1, 50) * 10 ** r.randrange(1, 6))])
    if k == 2:
        return r.choice([True, False])
    if k in (3, 4):
        return r.choice(["foo", "bar_baz", "image.fits", "a b", "x", "Truee", "none", "data/img-1.npy", "e", "E3x"])
    if k == 5:
        return None if depth > 0 else r.choice([1, "w"])
    if k in (6, 7):
        return [gen_lit_value(r, depth + 1) for _ in range(r.randrange(0, 4))]
    return tuple(gen_lit_value(r, depth + 1) for _ in range(r.randrange(0, 3)))


FIXED_TEXTS = [  # (text, expected value or NOEXP)
    ("1e3", 1000.0), ("007", "007"), ("1E3", 1000.0), ("1e+3", 1000.0), ("25e-2", 0.25), ("0.5", 0.5), (".5", 0.5), ("5.", 5.0),
    ("00", 0), ("-0", 0), ("+5", 5), ("-12", -12), ("12", 12), ("0", 0), ("0.0", 0.0), ("True", True), ("False", False),
    ("true", "true"), ("none", "none"), ("nan", "nan"), ("inf", "inf"), ("foo", "foo"), ("'foo'", "foo"), ('"foo"', "foo"),
    ("'1'", "1"), ("[1, 2]", [1, 2]), ("(1, 2)", (1, 2)), ("(1,)", (1,)), ("()", ()), ("[]", []), ("[1, abc]", "[1, abc]"),
    ("[1, 'abc']", [1, "abc"]), ("[[1, 2], [3]]", [[1, 2], [3]]), ("[1,2,]", [1, 2]), (" 1", 1), ("1 ", 1), ("a b", "a b"),
    ("1.5.2", "1.5.2"), ("1e", "1e"), ("e3", "e3"), ("-", "-"), ("--5", "--5"), ("[1,,2]", "[1,,2]"), ("0123", "0123"),
    ("0.125", 0.125), ("2.50", 2.5), ("[0.5, True, 'x']", [0.5, True, "x"]), ("(1)", 1), ("[None]", [None]),
    ("12abc", "12abc"), ("1-2", "1-2"), ("09", "09"), ("1 2", "1 2"), ("[1 2]", "[1 2]"), ("image.fits", "image.fits"),
]
NOEXP = object()


def gen_eval_cases(ctx: Ctx, budget: int):
    r = ctx.rng("eval")
    out = []
    for t, e in FIXED_TEXTS:
        out.append((t, e))
    out += [("None", None), ("", NOEXP)]
    while len(out) < budget:
        v = gen_lit_value(r)
        t = render_value(r, v)
        if not ok_str(t) or "\\" in t:
            continue
        out.append((t, v))
    return out


# --- validate_steps


def gen_validate_cases(ctx: Ctx, budget: int):
    r = ctx.rng("validate")
    cases = []
    while len(cases) < budget:
        det = r.choice(["ccd", "cmos", "mkid", "apd"])
        pipe = gen_pipe(r)
        vks = [k for k in valid_keys(det, pipe)]
        keys, kinds = [], []
        for _ in range(r.randrange(1, 4)):
            key, cls, field = r.choice(vks)
            roll = r.random()
            if roll < 0.55:
                keys.append(key)
                kinds.append("enabled_flag" if cls == "enabled" else "valid_" + cls)
            elif roll < 0.67:
                # something that exists but is not a setting: an object, a read-only property, a method
                parts = key.split(".")
                if parts[0] == "detector":
                    k2 = r.choice([".".join(parts[:2]), ".".join(parts[:2] + ["to_dict"]), ".".join(parts[:2] + ["numbytes"])])
                else:
                    k2 = r.choice([".".join(parts[:3]), ".".join(parts[:3] + ["name"]), ".".join(parts[:3] + ["arguments"]),
                                   ".".join(parts[:2]),
                                   # an undeclared argument called like a method of the Mapping class
                                   ".".join(parts[:3] + ["arguments", r.choice(["values", "items", "keys", "get", "update", "pop"])])])
                keys.append(k2)
                kinds.append("nonsetting")
            else:
                k2, kind = mutate_key(r, key, pipe, det)
                if not ok_str(k2):
                    continue
                keys.append(k2)
                kinds.append(kind)
        if not keys:
            continue
        # a step that is switched off is not part of the sweep, whatever its key (only enabled steps reach Coq)
        c = dict(op="validate", det=det, pipe=pipe, keys=keys, kinds=kinds,
                 step_enabled=[r.random() < 0.8 for _ in keys], values=[sweep_values(r, k) for k in keys])
        if r.random() < 0.25:
            # the flag of a swept model arrived through a key (Processor.set / an override text) before the sweep
            pk = [k for k in keys if k.startswith("pipeline.") and len(k.split(".")) >= 4]
            if pk:
                parts = r.choice(pk).split(".")
                c["pre"] = [[".".join(parts[:3] + ["enabled"]), jv(r.choice(PRE_FLAG_VALUES)), r.choice(["set", "override"])]]
        if len(cases) % 3 == 0:
            run_variant(r, c)
        cases.append(c)
    return cases


ENABLED_SWEEPS = [[0, 1], [True, False], [1, 2], [2, 0.0, 1.0], ["1", "0"], ["True", "False"], ["yes", "no"], [0, 0.0], [1, 0, 1]]
PRE_FLAG_VALUES = ["1", 1, "0", 0, "True", "False", 1.0, True, False, "yes", 2, "1.0"]


def sweep_values(r, key: str):
    if key.endswith(".enabled"):
        return [jv(x) for x in r.choice(ENABLED_SWEEPS)]
    if r.random() < 0.7:
        return [jv(1), jv(2)]
    return [jv(x) for x in r.choice([["1", "2"], [0.5, 4], ["3", 7], [1, 2, 3], ["0.25", 2], [0, 1], [0.0, 2], ["0", 3]])]


def run_variant(r, c):
    """also run the sweep itself; every model is a tagged probe (`verif_probes_c08.rec__<group>__<model>`) that notes
    that it was executed and with which argument values: with a bad key among the steps the sweep must fail before any
    model executes; an accepted sweep that completes must have had its effect on the models it addresses"""
    c["run"] = True
    c["mode"] = r.choice(["product", "sequential", "product", "sequential", "custom"])
    if c["mode"] == "custom" and not any(c["step_enabled"]):
        c["mode"] = "product"
    if c["mode"] == "custom":
        # one run per row of a table file: the columns are floats (a column of 0.0 / 1.0 over an `enabled` key included)
        n = r.choice([2, 3])
        c["values"] = [[jv(x) for x in (r.choice([[0.0, 1.0, 1.0], [1.0, 0.0, 2.0], [1.0, 1.0, 0.5]]) if k.endswith(".enabled")
                                        else r.choice([[1.0, 2.0, 4.0], [0.5, 2.0, 1.0], [0.0, 1.0, 3.0]]))[:n]] for k in c["keys"]]
    c["pipe"] = {g: [dict(m, func=f"verif_probes_c08.rec__{g}__{m['name']}") for m in ms] for g, ms in c["pipe"].items()}
    return c


def exhaustive_flag_cases(ctx: Ctx):
    """every non-bool (and bool) value of the `enabled` flag x the way it arrives (configuration / constructor,
    Processor.set, override text) x what is swept (an argument of that model, an item of its dict-valued argument, the
    flag itself) — each sweep is RUN with the tagged probe models."""
    r = ctx.rng("exh_flag")
    cases = []
    g, n = "photon_collection", "illumination"

    def pipe_with(flag):
        return {g: [dict(func="f.shot", name="shot_noise", enabled=True, arguments={"seed": jv(3)}),
                    dict(func="f.illumination", name=n, enabled=flag,
                         arguments={"level": jv(7), "d": {"t": "dictv", "v": {"k": jv(1), "w": jv("foo")}}})],
                "charge_generation": [dict(func="f.conv", name=n, enabled=True, arguments={"level": jv(5)})]}

    arrivals = []
    for v in [True, False] + FLAG_VALUES:
        arrivals.append((v if isinstance(v, (bool, dict)) else jv(v), None))
    for v in PRE_FLAG_VALUES:
        arrivals.append((r.choice([True, False]), [f"pipeline.{g}.{n}.enabled", jv(v), r.choice(["set", "override"])]))
    for flag, pre in arrivals:
        for keys in ([f"pipeline.{g}.{n}.arguments.level"], [f"pipeline.{g}.{n}.arguments.d.k", "detector.geometry.row"]):
            c = dict(op="validate", det=r.choice(["ccd", "cmos", "mkid", "apd"]), pipe=pipe_with(flag), keys=keys,
                     kinds=["valid_arg" if "arguments" in k else "valid_geo" for k in keys], step_enabled=[True] * len(keys),
                     values=[sweep_values(r, k) for k in keys])
            if pre:
                c["pre"] = [pre]
            cases.append(run_variant(r, c))
    # sweeps over an undeclared argument called like a method of the Mapping class (it exists, so validate_steps lets it
    # pass — C08-validate-nonsetting — but the sweep itself must fail before any model runs)
    for name in ("values", "items", "update"):
        c = dict(op="validate", det="ccd", pipe=pipe_with(True), keys=[f"pipeline.{g}.{n}.arguments.{name}"], kinds=["nonsetting"],
                 step_enabled=[True], values=[[jv(1), jv(2)]])
        cases.append(run_variant(r, c))
    for vs in ENABLED_SWEEPS:
        for flag in (True, jv(1)):
            c = dict(op="validate", det="ccd", pipe=pipe_with(flag), keys=[f"pipeline.{g}.{n}.enabled"], kinds=["enabled_flag"],
                     step_enabled=[True], values=[[jv(x) for x in vs]])
            cases.append(run_variant(r, c))
    return cases


# ------------------------------------------------------------------------------------------ Coq emission

HEADER = ("From Coq Require Import ZArith List String.\nFrom PyxelV Require Import Model.Keys Model.KeysWorld.\n"
          "From PyxelGen Require Import Gen_C08.\nImport ListNotations.\nOpen Scope string_scope.\n")
WHEADER = ("From Coq Require Import ZArith List String.\nFrom PyxelV Require Import Model.Keys Model.KeysWorld.\n"
           "From PyxelGen Require Import Gen_C08.\nImport ListNotations.\nOpen Scope string_scope.\n")


class Pool:
    """hash-consing of repeated sub-trees into named definitions (keeps the case files small)."""

    def __init__(self, trees):
        self.count = {}
        for t in trees:
            self._scan(t)
        self.names = {}
        self.defs = []

    def _scan(self, t):
        if "leaf" in t:
            return
        k = json.dumps(t, sort_keys=True)
        self.count[k] = self.count.get(k, 0) + 1
        if self.count[k] == 1:
            for m in t["members"]:
                self._scan(m[3])

    def tree(self, t) -> str:
        if "leaf" in t:
            return f"(Leaf {cv(t['leaf'])})"
        k = json.dumps(t, sort_keys=True)
        if k in self.names:
            return self.names[k]
        nk = {"obj": f"(NObj {core.cbool(t.get('open', True))})", "dict": "NDict", "args": "NArgs", "group": "NGroup"}[t["node"]]
        s = "MNil"
        for n, mk, g, sub in reversed(t["members"]):
            kk = {"prop1": f"(KProp true {cguard(g)})", "prop0": "(KProp false GAny)", "inst": "KInst", "class": "KClass",
                  "item": "KItem"}[mk]
            s = f"(MCons {core.cstr(n)} {kk} {self.tree(sub)} {s})"
        text = f"(Node {nk} {s})"
        if self.count.get(k, 0) >= 2:
            name = f"n_{len(self.names)}"
            self.names[k] = name
            self.defs.append(f"Definition {name} : tree := {text}.")
            return name
        return text


def emit_set_file(pairs) -> str:
    pool = Pool([o["before"] for _, o in pairs] + [o["after"] for _, o in pairs])
    items = []
    for c, o in pairs:
        ign = core.clist(core.clist(core.cstr(x) for x in p) for p in c.get("ignore", []))
        items.append(
            f"{{| c_tree := {pool.tree(o['before'])};\n     c_key := {ckey(c['key'])}; c_raw := {cv(c['value'])}; c_ignore := {ign};\n"
            f"     o_has := {cres(o['has'], core.cbool)}; o_set := {core.copt(o['set'], str)};\n"
            f"     o_after := {pool.tree(o['after'])};\n     o_get := {cres(o['get'], cv)} |}}")
    body = ";\n  ".join(items)
    return (HEADER + "\n".join(pool.defs) + f"\nDefinition cases : list kcase := [\n  {body}\n].\n"
            "Eval vm_compute in report cases.\n")



def emit_world_file(pairs) -> str:
    trees = []
    for _, o in pairs:
        trees += [o["before"], o["after"], o["orig_after"], o["sib_before"], o["sib_after"], o["later"]]
    pool = Pool(trees)
    items = []
    for c, o in pairs:
        ign = core.clist(core.clist(core.cstr(x) for x in p) for p in c.get("ignore", []))
        shared = core.clist(core.clist(core.cstr(x) for x in p) for p in o["shared"])
        items.append(
            f"{{| w_k := {{| c_tree := {pool.tree(o['before'])};\n     c_key := {ckey(c['key'])}; c_raw := {cv(c['value'])}; c_ignore := {ign};\n"
            f"     o_has := {cres(o['has'], core.cbool)}; o_set := {core.copt(o['set'], str)};\n"
            f"     o_after := {pool.tree(o['after'])};\n     o_get := {cres(o['get'], cv)} |}};\n"
            f"   w_via := {core.cstr(c['via'])}; w_orig_after := {pool.tree(o['orig_after'])};\n"
            f"   w_sib_before := {pool.tree(o['sib_before'])}; w_sib_after := {pool.tree(o['sib_after'])};\n"
            f"   w_later := {pool.tree(o['later'])}; w_shared := {shared} |}}")
    body = ";\n  ".join(items)
    return (WHEADER + "\n".join(pool.defs) + f"\nDefinition cases : list wcase := [\n  {body}\n].\n"
            "Eval vm_compute in wreport src_copy_policy src_copy_sites cases.\n")


def emit_eval_file(triples) -> str:
    items = []
    for t, exp, o in triples:
        e = "None" if exp is NOEXP else f"(Some {cv(jv(exp))})"
        items.append(f"({core.cstr(t)}, {e}, {cres(o, cv)})")
    body = ";\n  ".join(items)
    return (HEADER + f"Definition cases : list (string * option pyval * res pyval) := [\n  {body}\n].\n"
            "Eval vm_compute in indices_where (fun c => let '(t, _, o) := c in negb (res_eqb pyval_eqb (eval_entry t) o)) cases 0%Z.\n"
            "Eval vm_compute in indices_where (fun c => let '(_, e, o) := c in match e with Some v => negb (res_eqb pyval_eqb (Ok v) o) "
            "| None => false end) cases 0%Z.\n")


def emit_validate_file(pairs) -> str:
    pool = Pool([o["before"] for _, o in pairs])
    items = []
    for c, o in pairs:
        keys = [k for k, en in zip(c["keys"], c["step_enabled"]) if en]
        ran = o.get("ran")
        if ran is None:
            cran = "None"
        elif "ok" in ran:
            cran = f"(Some (None, {core.cnat(ran['ok'])}))"
        else:
            cran = f"(Some (Some {ran['raise']}, {core.cnat(ran['calls'])}))"
        values = c.get("values") or [[jv(1), jv(2)] for _ in c["keys"]]
        vals = [vs for vs, en in zip(values, c["step_enabled"]) if en]
        seen = [sn for sn, en in zip(o.get("seen") or [], c["step_enabled"]) if en]
        cvals = core.clist(core.clist(cv(x) for x in vs) for vs in vals)
        cseen = core.clist(f"({core.cnat(n)}, {core.clist(cv(x) for x in sv)})" for n, sv in seen)
        items.append(f"{{| v_tree := {pool.tree(o['before'])}; v_keys := {core.clist(core.cstr(k) for k in keys)}; "
                     f"v_obs := {core.copt(o['validate'], str)}; v_ran := {cran};\n     v_vals := {cvals}; v_seen := {cseen} |}}")
    body = ";\n  ".join(items)
    return (HEADER + "\n".join(pool.defs) + f"\nDefinition cases : list vcase := [\n  {body}\n].\n"
            "Eval vm_compute in v_mismatches cases.\nEval vm_compute in v_violations 1 cases.\nEval vm_compute in v_violations 2 cases.\n"
            "Eval vm_compute in v_violations 3 cases.\nEval vm_compute in v_violations 4 cases.\n")


# ------------------------------------------------------------------------------------------ classification (signature only)

CLAUSES = {1: "unresolved_rejected", 2: "failed_set_changes", 3: "frame", 4: "set_get", 5: "has_sound",
           6: "derived_source_changed", 7: "derived_sibling_changed", 8: "derived_later_copy_differs", 9: "get_sound"}


def walk_info(tree, key: str):
    """Where the key lands in the snapshot (classification of a violating case only; the decision was taken in Coq)."""
    parts = key.split(".")
    node = tree
    for p in parts[:-1]:
        if "leaf" in node:
            return "none", "missing"
        ms = node["members"]
        order = ["item"] if node["node"] == "dict" else ["prop1", "prop0", "inst", "class"] + (["item"] if node["node"] in ("args", "group") else [])
        nxt = None
        for mk in order:
            nxt = next((m for m in ms if m[0] == p and m[1] == mk), None)
            if nxt:
                break
        if nxt is None:
            return "none", "missing"
        node = nxt[3]
    if "leaf" in node:
        return "none", "missing"
    landing = {"obj": "object", "group": "group", "args": "arguments", "dict": "dict"}[node["node"]]
    hits = [m for m in node["members"] if m[0] == parts[-1]]
    if not hits:
        return landing, "missing"
    kinds = {m[1] for m in hits}
    if landing == "arguments" and "item" in kinds and ("class" in kinds or "inst" in kinds):
        return landing, "shadowed_item"
    for mk in ["prop1", "prop0", "inst", "item", "class"]:
        m = next((m for m in hits if m[1] == mk), None)
        if m:
            if mk == "class":
                return landing, "class_attr"
            if mk == "prop0":
                return landing, "readonly"
            if "node" in m[3] or (m[3].get("leaf", {}).get("t") == "opaque"):
                return landing, "object"
            return landing, "setting"
    return landing, "missing"



def _flat(t, pre=()):
    if "leaf" in t:
        return {pre: json.dumps(t["leaf"], sort_keys=True)}
    out = {pre: "node:" + t["node"]}
    for n, mk, g, sub in t["members"]:
        out.update(_flat(sub, pre + (n + ":" + mk,)))
    return out


def _diff_trees(a, b):
    """keys whose entry differs (reporting only; the decision was taken in Coq)"""
    fa, fb = _flat(a), _flat(b)
    return sorted(".".join(x.split(":")[0] for x in k) for k in set(fa) | set(fb) if fa.get(k) != fb.get(k))


def set_violation(c, o, clause_n) -> Violation:
    landing, target = walk_info(o["before"], c["key"])
    clause = CLAUSES[clause_n]
    sig = dict(clause=clause, landing=landing, target=target)
    case = {k: c[k] for k in ("op", "det", "pipe", "key", "value", "path", "ignore", "kind", "via", "field", "cls") if k in c}
    if clause_n in (6, 7, 8):
        sig["shared"] = "yes" if o.get("shared") else "no"
        obs = dict(set=o["set"], shared_objects=o.get("shared"),
                   changed=_diff_trees(o["before"], {6: o["orig_after"], 7: o["sib_after"], 8: o["later"]}[clause_n])[:6])
        return Violation(clause=clause, case=case, observed=obs,
                         expected={6: "the processor the copy was derived from keeps every setting",
                                   7: "every other copy keeps every setting",
                                   8: "a copy derived afterwards has the settings of its source"}[clause_n],
                         what=f"{c['key']!r} := {json.dumps(c['value'])[:60]} assigned on a copy made by {c['via']} of a "
                              f"{c['det']} processor: {clause}; differs at {obs['changed'][:3]}; objects shared with the copy: "
                              f"{o.get('shared')}", sig=sig)
    return Violation(clause=clause, case=case,
                     observed=dict(has=o["has"], set=o["set"], get=o["get"]),
                     expected={1: "has() does not confirm the key, so the assignment must raise",
                               2: "a refused assignment changes no setting",
                               3: "exactly the addressed existing setting takes the denoted value; no attribute appears or disappears",
                               4: "get(key) returns the assigned value",
                               5: "has() confirms only existing paths",
                               9: "get() answers only for a key whose whole path exists"}[clause_n],
                     what=f"Processor.{c['path']}({c['key']!r}, {json.dumps(c['value'])[:80]}) on a {c['det']} processor: {clause} "
                          f"(key lands on {landing}, last component names: {target})", sig=sig)


# ------------------------------------------------------------------------------------------ legs


def leg_set(ctx: Ctx, cases, tag="s"):
    obs = core.run_driver(ctx, "c08", cases, workers=8)
    pairs = []
    for c, o in zip(cases, obs):
        if "crash" in o or "driver_error" in o:
            ctx.broken.append(Broken("correspondence", "implementation driver failed", str(o)[:600], c))
            continue
        pairs.append((c, o))
    per = 40
    files = {f"{tag}_{k // per:03d}": emit_set_file(pairs[k:k + per]) for k in range(0, len(pairs), per)}
    res = core.coq_eval_many(ctx, files, timeout=900, par=8)
    nm = 0
    for k, name in enumerate(sorted(files)):
        ok, evals, se = res[name]
        chunk = pairs[k * per:(k + 1) * per]
        if not ok or len(evals) != 1:
            ctx.broken.append(Broken("correspondence", f"case file {name}.v did not evaluate", core.tail(se, 15)))
            continue
        codes = core.parse_int_list(evals[0])
        if len(codes) != len(chunk):
            ctx.broken.append(Broken("correspondence", f"case file {name}.v: wrong report length", evals[0][:200]))
            continue
        for (c, o), code in zip(chunk, codes):
            mk, mask = code % 10, code // 10
            if mk:
                nm += 1
                part = {1: "has", 2: "set outcome", 3: "settings after", 4: "get after"}.get(mk, "?")
                ctx.broken.append(Broken("correspondence", "Model/Keys.v vs Processor",
                                         f"model and implementation differ on {part} for key {c['key']!r}",
                                         dict(case={k: c[k] for k in ("det", "pipe", "key", "value", "path", "kind")},
                                              observed=dict(has=o["has"], set=o["set"], get=o["get"]))))
            for n in (1, 2, 3, 4, 5, 9):
                if mask & (1 << (n - 1)):
                    ctx.violations.append(set_violation(c, o, n))
    for c, o in pairs:
        ctx.count("evaluations")
        ctx.dist("key_kind", c["kind"])
        ctx.dist("detector", c["det"])
        ctx.dist("value_shape", c["value"]["t"])
        ctx.dist("set_outcome", o["set"] or "ok")
        ctx.dist("entry_point", c["path"])
    return pairs, nm



def leg_derive(ctx: Ctx, cases, tag="w"):
    obs = core.run_driver(ctx, "c08", cases, workers=8)
    pairs = []
    for c, o in zip(cases, obs):
        if "crash" in o or "driver_error" in o:
            ctx.broken.append(Broken("correspondence", "implementation driver failed (derived processor)", str(o)[:600], c))
            continue
        pairs.append((c, o))
    per = 30
    files = {f"{tag}_{k // per:03d}": emit_world_file(pairs[k:k + per]) for k in range(0, len(pairs), per)}
    res = core.coq_eval_many(ctx, files, timeout=900, par=8)
    nm = 0
    leads = []
    for k, name in enumerate(sorted(files)):
        ok, evals, se = res[name]
        chunk = pairs[k * per:(k + 1) * per]
        if not ok or len(evals) != 1:
            ctx.broken.append(Broken("correspondence", f"case file {name}.v did not evaluate", core.tail(se, 15)))
            continue
        codes = core.parse_int_list(evals[0])
        if len(codes) != len(chunk):
            ctx.broken.append(Broken("correspondence", f"case file {name}.v: wrong report length", evals[0][:200]))
            continue
        for (c, o), code in zip(chunk, codes):
            mk, mask = code % 10, code // 10
            if mk:
                nm += 1
                part = {1: "has", 2: "set outcome", 3: "settings of the copy after", 4: "get after",
                        5: "settings of the source after an assignment on its copy",
                        6: f"objects shared between a processor and its copies (implementation shares {o['shared']})",
                        7: "settings of a fresh copy"}.get(mk, "?")
                ctx.broken.append(Broken("correspondence", "Model/KeysWorld.v vs derived processors",
                                         f"model and implementation differ on {part} for key {c['key']!r} via {c['via']}",
                                         dict(case={k: c[k] for k in ("det", "pipe", "key", "value", "via", "kind")},
                                              observed=dict(has=o["has"], set=o["set"], get=o["get"], shared=o["shared"]))))
                if o["shared"]:
                    leads.append((c, o))
            for n in range(1, 10):
                if mask & (1 << (n - 1)):
                    ctx.violations.append(set_violation(c, o, n))
    for c, o in pairs:
        ctx.count("evaluations")
        ctx.dist("derive_via", c["via"])
        ctx.dist("derive_key_class", c["cls"] + ("" if c["kind"] == "valid" else "/" + c["kind"]))
        ctx.dist("derive_target_model", "detector" if not c["key"].startswith("pipeline.") else
                 ("enabled_model" if _model_enabled(c["pipe"], c["key"]) else "disabled_model"))
        ctx.dist("derive_outcome", o["set"] or "ok")
        if o.get("internal"):
            ctx.dist("derive_internal_sharing", "yes")
    return pairs, nm, leads


def directed_derive_cases(ctx: Ctx, leads, cap=60):
    """objects were seen shared between a processor and its copy: assign, on a copy, every setting below them"""
    r = ctx.rng("directed")
    out, seen = [], set()
    for c, o in leads:
        for sp in o["shared"]:
            pre = ".".join(sp) + "."
            for key, cls, field in valid_keys(c["det"], c["pipe"]):
                if key.startswith(pre) and (c["det"], key, json.dumps(c["pipe"], sort_keys=True)) not in seen and len(out) < cap:
                    seen.add((c["det"], key, json.dumps(c["pipe"], sort_keys=True)))
                    out.append(derive_case(r, c["det"], c["pipe"], key, cls, field, "valid", c["via"]))
    return out


def leg_eval(ctx: Ctx, texts, tag="e"):
    payloads = [dict(op="eval", texts=[t for t, _ in texts[k:k + 200]]) for k in range(0, len(texts), 200)]
    obs = core.run_driver(ctx, "c08", payloads, workers=4)
    triples = []
    for k, o in enumerate(obs):
        if "results" not in o:
            ctx.broken.append(Broken("correspondence", "implementation driver failed (eval_entry)", str(o)[:600]))
            continue
        for (t, e), rr in zip(texts[k * 200:(k + 1) * 200], o["results"]):
            triples.append((t, e, rr))
    per = 300
    files = {f"{tag}_{k // per:03d}": emit_eval_file(triples[k:k + per]) for k in range(0, len(triples), per)}
    res = core.coq_eval_many(ctx, files, timeout=600, par=4)
    for k, name in enumerate(sorted(files)):
        ok, evals, se = res[name]
        chunk = triples[k * per:(k + 1) * per]
        if not ok or len(evals) != 2:
            ctx.broken.append(Broken("correspondence", f"case file {name}.v did not evaluate", core.tail(se, 15)))
            continue
        for i in core.parse_int_list(evals[0]):
            t, e, rr = chunk[i]
            ctx.broken.append(Broken("correspondence", "Model/Keys.v eval_entry vs pyxel.evaluator.eval_entry",
                                     f"model and implementation differ on the text {t!r}: implementation gives {rr}",
                                     dict(text=t, observed=rr)))
        for i in core.parse_int_list(evals[1]):
            t, e, rr = chunk[i]
            got = "string" if rr.get("ok", {}).get("t") == "str" else rr.get("ok", {}).get("t", "raise")
            ctx.violations.append(Violation(
                clause="literal", case=dict(op="eval", text=t, expect=jv(e)), observed=rr, expected=jv(e),
                what=f"eval_entry({t!r}) does not give the value the text denotes ({e!r}); it gives {rr}",
                sig=dict(clause="literal", text_class=text_class(t), got=got)))
    for t, e, rr in triples:
        ctx.count("evaluations")
        ctx.dist("literal_result", rr.get("ok", {}).get("t", rr.get("raise")))
    return triples


def text_class(t: str) -> str:
    s = t.strip()
    if s == "None":
        return "none"
    if s[:1] in "[(":
        return "sequence"
    if s[:1] in "'\"":
        return "quoted"
    if s and (s[0].isdigit() or s[0] in "+-."):
        if s.lstrip("+-").startswith("0") and len(s.lstrip("+-")) > 1 and s.lstrip("+-")[1].isdigit():
            return "leading_zero"
        return "exponent" if "e" in s.lower() else ("decimal" if "." in s else "integer")
    return "word"


def leg_validate(ctx: Ctx, cases, tag="v"):
    obs = core.run_driver(ctx, "c08", cases, workers=6)
    pairs = []
    for c, o in zip(cases, obs):
        if "crash" in o or "driver_error" in o:
            ctx.broken.append(Broken("correspondence", "implementation driver failed (validate_steps)", str(o)[:600], c))
            continue
        pairs.append((c, o))
    per = 60
    files = {f"{tag}_{k // per:03d}": emit_validate_file(pairs[k:k + per]) for k in range(0, len(pairs), per)}
    res = core.coq_eval_many(ctx, files, timeout=600, par=6)
    for k, name in enumerate(sorted(files)):
        ok, evals, se = res[name]
        chunk = pairs[k * per:(k + 1) * per]
        if not ok or len(evals) != 5:
            ctx.broken.append(Broken("correspondence", f"case file {name}.v did not evaluate", core.tail(se, 15)))
            continue
        for i in core.parse_int_list(evals[0]):
            c, o = chunk[i]
            ctx.broken.append(Broken("correspondence", "Model/Keys.v validate_steps vs Observation.validate_steps",
                                     f"model and implementation differ on steps {c['keys']}: implementation gives {o['validate']}",
                                     dict(case={k: c[k] for k in ("det", "pipe", "keys")}, observed=o["validate"])))
        for n, clause in ((1, "validate_silent"), (2, "validate_refused"), (3, "sweep_ran"), (4, "sweep_noop")):
            for i in core.parse_int_list(evals[n]):
                c, o = chunk[i]
                ctx.violations.append(validate_violation(ctx, c, o, clause))
    for c, o in pairs:
        ctx.count("evaluations")
        if o.get("ran") is not None:
            ctx.dist("sweep_run", c.get("mode", "product") + ":" + ("completed" if "ok" in o["ran"] else
                                                                     f"{o['ran']['raise']} after {min(o['ran']['calls'], 1)}+ model calls"
                                                                     if o["ran"]["calls"] else o["ran"]["raise"] + " before any model"))
        ctx.dist("validate_outcome", o["validate"] or "accepted")
        if o.get("ran") is not None and "ok" in o["ran"]:
            # completed sweeps: which value the enabled flag of the swept models held, and how the flag got there
            for k, en in zip(c["keys"], c["step_enabled"]):
                if en and k.startswith("pipeline."):
                    ctx.dist("completed_sweep_model_flag", _flag_class(o["before"], k.split(".")[:3]) + (" (assigned through a key)" if c.get("pre") else ""))
        for kd, en in zip(c["kinds"], c["step_enabled"]):
            ctx.dist("step_key_kind", kd if en else "(step disabled) " + kd)
    return pairs


def validate_violation(ctx, c, o, clause) -> Violation:
    c = dict(c, keys=[k for k, en in zip(c["keys"], c["step_enabled"]) if en],
             kinds=[k for k, en in zip(c["kinds"], c["step_enabled"]) if en], all_keys=c["keys"], all_kinds=c["kinds"])
    only_flag = all(k == "enabled_flag" or k.startswith("valid_") for k in c["kinds"]) and "enabled_flag" in c["kinds"]
    sig = dict(clause=clause, error=o["validate"] or "none")
    if clause == "sweep_noop":
        keys_en = c["keys"]
        seen = [sn for sn, en in zip(o.get("seen") or [], c["step_enabled"]) if en]
        flags = sorted({_flag_class(o["before"], k.split(".")[:3]) for k in keys_en if k.startswith("pipeline.")})
        sig = dict(clause=clause, swept="+".join(sorted({"flag" if k.endswith(".enabled") else "argument" for k in keys_en
                                                         if k.startswith("pipeline.")})), flag="+".join(flags))
        case = {k: c[k] for k in ("op", "det", "pipe", "step_enabled", "run", "mode", "values", "pre") if k in c}
        case["keys"], case["kinds"] = c["all_keys"], c["all_kinds"]
        return Violation(clause=clause, case=case, observed=dict(validate=o["validate"], ran=o.get("ran"), seen=seen),
                         expected="an accepted sweep that completes has its effect: every swept value of a model argument arrives "
                                  "in an execution of that model; a swept `enabled` flag runs the model exactly for its truthy values",
                         what=f"Observation.run_pipelines ({c.get('mode', 'product')}) on steps {keys_en} was accepted and completed "
                              f"({o.get('ran')}), but it is a silent no-op: executions of the addressed model / values that arrived per "
                              f"step = {seen}; `enabled` flag of the swept model(s): {flags}"
                              + (f"; flag assigned before by {c['pre']}" if c.get("pre") else ""), sig=sig)
    if clause == "validate_refused":
        sig["step_kind"] = "enabled_flag" if only_flag else "+".join(sorted(set(c["kinds"])))
    else:
        if clause == "sweep_ran":
            ran = o.get("ran") or {}
            sig = dict(clause=clause, mode=c.get("mode", "product"),
                       outcome="completed" if "ok" in ran else "raised_after_models_ran")
        # which of the accepted keys is not an enabled model's declared setting
        bad = set()
        for k in c["keys"]:
            landing, target = walk_info(o["before"], k)
            if target != "setting" and not (landing == "arguments" and target in ("object", "shadowed_item")):
                bad.add(target)
            elif k.startswith("pipeline."):
                parts = k.split(".")
                _, _ = landing, target
                en = _enabled_of(o["before"], parts[:3])
                if en is False:
                    bad.add("disabled_model")
        sig["offending"] = "+".join(sorted(bad)) or "unclassified"
    case = {k: c[k] for k in ("op", "det", "pipe", "step_enabled", "run", "mode", "values", "pre") if k in c}
    case["keys"], case["kinds"] = c["all_keys"], c["all_kinds"]
    if clause == "sweep_ran":
        return Violation(clause=clause, case=case, observed=dict(validate=o["validate"], ran=o.get("ran")),
                         expected="a sweep with a key that is not an existing setting of an enabled model fails before any model executes",
                         what=f"Observation.run_pipelines ({c.get('mode', 'product')}) on steps {c['keys']}: {o.get('ran')} "
                              f"(validate_steps: {o['validate'] or 'accepted'})", sig=sig)
    return Violation(clause=clause, case=case,
                     observed=o["validate"],
                     expected="an error iff some swept key is not an existing setting or belongs to a disabled model",
                     what=f"Observation.validate_steps on steps {c['keys']}: {clause} (implementation: {o['validate'] or 'accepted'})",
                     sig=sig)


def _flag_class(tree, parts):
    """classification (signature only) of the value the enabled flag of the model at `parts` holds"""
    node = tree
    for p in parts:
        if "leaf" in node:
            return "unknown"
        m = next((m for m in node["members"] if m[0] == p), None)
        if m is None:
            return "unknown"
        node = m[3]
    if "leaf" in node:
        return "unknown"
    m = next((m for m in node["members"] if m[0] == "enabled"), None)
    if m is None or "leaf" not in m[3]:
        return "unknown"
    lv = m[3]["leaf"]
    return "bool" if lv["t"] == "bool" else "non_bool_" + lv["t"]


def _enabled_of(tree, parts):
    node = tree
    for p in parts:
        if "leaf" in node:
            return None
        m = next((m for m in node["members"] if m[0] == p), None)
        if m is None:
            return None
        node = m[3]
    if "leaf" in node:
        return None
    m = next((m for m in node["members"] if m[0] == "enabled"), None)
    if m is None or "leaf" not in m[3]:
        return None
    lv = m[3]["leaf"]
    return flag_truthy(lv) if lv["t"] in ("bool", "int", "dec", "str", "none") else None


def load_corpus():
    """minimised past failures (harness/corpus/C08/*.json), run first"""
    from pathlib import Path
    out = []
    for f in sorted((Path(__file__).resolve().parent.parent / "corpus" / "C08").glob("*.json")):
        c = json.loads(f.read_text())
        c.pop("note", None)
        out.append(c)
    return out


def new_violations(ctx: Ctx):
    fs = core.load_findings(ctx.prop)
    return [v for v in ctx.violations if not any(core.finding_matches(e, v) for e in fs)]


def run(ctx: Ctx):
    ctx.trusted += TRUSTED
    ctx.assumptions += ASSUME
    from translator import c08 as tr
    try:
        gen = {"Gen_C08.v": tr.translate(ctx.repo)}
    except TranslationError as ex:
        ctx.broken.append(Broken("translation", "translator/c08.py (copy policy of derived processors, setter guards)", str(ex)))
        ctx.log(f"translation failed (continuing with the fallback table): {ex}")
        gen = {"Gen_C08.v": tr.FALLBACK}
    import os, time
    t0 = [time.time()]

    def stage(name):
        if os.environ.get("C08_TIMING"):
            ctx.log(f"stage {name}: {time.time() - t0[0]:.1f}s")
        t0[0] = time.time()

    core.proof_leg(ctx, gen, PROP_FILE)
    stage("proof")
    load_names(ctx)
    corpus = load_corpus()
    set_cases = [c for c in corpus if c["op"] == "set"] + exhaustive_valid_cases(ctx) + exhaustive_class_attr_cases(ctx) + gen_set_cases(ctx, ctx.budget(int(__import__("os").environ.get("C08_N", 540)), 4000))
    pairs, nm = leg_set(ctx, set_cases)
    stage(f"set ({len(set_cases)} cases)")
    dcases = exhaustive_derive_cases(ctx) + gen_derive_cases(ctx, ctx.budget(240, 1600))
    dpairs, dnm, leads = leg_derive(ctx, dcases)
    nm += dnm
    if leads and not new_violations(ctx):
        _, dnm2, _ = leg_derive(ctx, directed_derive_cases(ctx, leads), tag="wd")
        nm += dnm2
    stage(f"derive ({len(dcases)} cases)")
    texts = gen_eval_cases(ctx, ctx.budget(900, 6000))
    triples = leg_eval(ctx, texts)
    stage(f"eval ({len(texts)} texts)")
    vcases = [c for c in corpus if c["op"] == "validate"] + exhaustive_flag_cases(ctx) + gen_validate_cases(ctx, ctx.budget(210, 1500))
    vpairs = leg_validate(ctx, vcases)
    stage(f"validate ({len(vcases)} cases, {sum(1 for c in vcases if c.get('run'))} run)")

    distinct = {(c["det"], c["key"], json.dumps(c["value"], sort_keys=True), json.dumps(c["pipe"], sort_keys=True)) for c, o in pairs
                if c["kind"] != "valid" or o["set"] is None}
    ddistinct = {(c["det"], c["key"], c["via"], json.dumps(c["value"], sort_keys=True), json.dumps(c["pipe"], sort_keys=True))
                 for c, o in dpairs if o["set"] is None}
    ctx.cov["distinct_nontrivial"] = len(distinct) + len(ddistinct) + len({t for t, _, _ in triples}) + len(vpairs)
    ctx.cov["rule"] = ("assignments: distinct (detector, pipeline, key, value) where the key is misspelt/truncated/extended/"
                       "swapped or the assignment succeeds (a full settings snapshot is compared before/after); "
                       "derived processors: distinct (detector, pipeline, key, value, entry point) whose assignment on the copy "
                       "succeeds (source, sibling copy, later copy and object identities are compared); "
                       "literal texts: distinct texts; validate_steps: every generated step list")
    ctx.cov["traces_validated_against_impl"] = len(pairs) + len(dpairs) + len(triples) + len(vpairs)
    ctx.cov["disagreements_checked"] = nm
    ctx.cov["exhaustive"] = "every geometry/environment/characteristics field of the 4 detector types, valid and misspelt"
    for c, o in pairs[:3]:
        ctx.sample(dict(key=c["key"], kind=c["kind"], value=c["value"], has=o["has"], set=o["set"], get=o["get"]))
    for t, e, rr in triples[:2]:
        ctx.sample(dict(text=t, result=rr))
    for c, o in vpairs[:1]:
        ctx.sample(dict(steps=c["keys"], validate=o["validate"]))
    # core.finish prints at most five distinct signatures: interleave the clauses so that they are five different ones
    seen, order = {}, []
    for v in ctx.violations:
        key = json.dumps(v.sig, sort_keys=True)
        if key not in seen:
            seen[key] = len([1 for k in order if k[1] == v.clause])
            order.append((key, v.clause))
    ctx.violations.sort(key=lambda v: seen[json.dumps(v.sig, sort_keys=True)])
    (ctx.build / "broken.json").write_text(json.dumps([dict(kind=b.kind, name=b.name, detail=b.detail, case=b.case)
                                                       for b in ctx.broken], indent=1, default=str))
    (ctx.build / "violations.json").write_text(json.dumps([dict(sig=v.sig, what=v.what) for v in ctx.violations], indent=1))
    if ctx.broken and not new_violations(ctx):
        search(ctx)


def search(ctx: Ctx):
    ctx.log("searching for a concrete failing input (bigger budget)")
    r = ctx.rng("search")
    ctx2_cases = gen_set_cases(ctx, 1500)
    r.shuffle(ctx2_cases)
    keep_broken = list(ctx.broken)
    leg_set(ctx, ctx2_cases, tag="ss")
    dc = gen_derive_cases(ctx, 900)
    r.shuffle(dc)
    _, _, leads = leg_derive(ctx, dc, tag="sw")
    if leads:
        leg_derive(ctx, directed_derive_cases(ctx, leads, cap=200), tag="swd")
    leg_eval(ctx, gen_eval_cases(ctx, 3000), tag="se")
    leg_validate(ctx, gen_validate_cases(ctx, 600), tag="sv")
    ctx.broken[:] = keep_broken + [b for b in ctx.broken if b not in keep_broken][:5]
    ctx.cov["search"] = True


def replay(ctx: Ctx, rp: dict) -> int:
    case = rp.get("case")
    if rp.get("kind") != "input" or not case:
        print(f"replay names a {rp.get('kind')} that no longer checks: {rp.get('no_longer_checks')}")
        print(rp.get("detail", ""))
        return 1
    core.ensure_lib(ctx, targets=core.lib_targets_of([(core.THEORIES / PROP_FILE).read_text()]))
    print("case:", json.dumps(case)[:1500])
    from translator import c08 as tr
    gen = ctx.build / "gen"
    gen.mkdir(parents=True, exist_ok=True)
    try:
        text = tr.translate(ctx.repo)
    except TranslationError:
        text = tr.FALLBACK
    (gen / "Gen_C08.v").write_text(text)
    core.coqc(ctx, gen / "Gen_C08.v", [(gen, "PyxelGen")])
    if case["op"] == "derive":
        o = core.run_driver(ctx, "c08", [case], workers=1)[0]
        print("implementation now: set =", o.get("set"), " get =", o.get("get"), " shared objects =", o.get("shared"))
        print("  source changed at:", _diff_trees(o["before"], o["orig_after"])[:6])
        print("  sibling copy changed at:", _diff_trees(o["sib_before"], o["sib_after"])[:6])
        print("  later copy differs from the source at:", _diff_trees(o["before"], o["later"])[:6])
        ok, evals, se = core.coq_eval(ctx, "replay", emit_world_file([(case, o)]))
        bad = ok and core.parse_int_list(evals[0])[0] // 10 != 0
    elif case["op"] == "set":
        o = core.run_driver(ctx, "c08", [case], workers=1)[0]
        print("implementation now: has =", o.get("has"), " set =", o.get("set"), " get =", o.get("get"))
        ok, evals, se = core.coq_eval(ctx, "replay", emit_set_file([(case, o)]))
        bad = ok and core.parse_int_list(evals[0])[0] // 10 != 0
    elif case["op"] == "eval":
        o = core.run_driver(ctx, "c08", [dict(op="eval", texts=[case["text"]])], workers=1)[0]
        rr = o["results"][0]
        print("implementation now:", rr)
        exp = drv_decode(case["expect"])
        ok, evals, se = core.coq_eval(ctx, "replay", emit_eval_file([(case["text"], exp, rr)]))
        bad = ok and core.parse_int_list(evals[1]) != []
    else:
        o = core.run_driver(ctx, "c08", [case], workers=1)[0]
        print("implementation now:", o.get("validate"))
        ok, evals, se = core.coq_eval(ctx, "replay", emit_validate_file([(case, o)]))
        print("  sweep:", o.get("ran"), " executions / arrived values per step:", o.get("seen"))
        bad = ok and any(core.parse_int_list(evals[n]) != [] for n in (1, 2, 3, 4))
    if not ok:
        print("case file did not evaluate:", core.tail(se, 10))
        return 1
    print("specification (evaluated in Coq):", "VIOLATED" if bad else "holds")
    return 1 if bad else 0


def drv_decode(j):
    t = j["t"]
    if t == "none":
        return None
    if t == "bool":
        return bool(j["v"])
    if t == "int":
        return int(j["v"])
    if t == "dec":
        return float(Fraction(int(j["m"])) * Fraction(10) ** int(j["e"]))
    if t == "str":
        return j["v"]
    if t == "list":
        return [drv_decode(x) for x in j["v"]]
    if t == "tuple":
        return tuple(drv_decode(x) for x in j["v"])
    raise ValueError(t)


META = dict(
    level_text=(
        "Coq theorems, for ALL settings trees, keys and values, over an executable model of _get_obj_att / Processor.has / "
        "get / set (objects with declared properties, setter guards and an open-__dict__ flag, dicts, Arguments refusing "
        "unknown names, model groups resolving by model name): set-then-get, frame (an accepted assignment addressed an "
        "existing settable setting and every key that does not extend it reads as before; nothing appears or disappears), "
        "rejection of every key that has() does not confirm — all three proved in full after the repairs of C08-F7a/b/c, "
        "C08-get-dict, C08-get-shadowed; derived processors (the copy a sweep, a calibration or Processor.replace assigns "
        "on): under the copy policy regenerated from Processor.__deepcopy__ / ModelGroup.__deepcopy__ / the four copying "
        "entry points no object is shared and the source keeps its whole settings tree; validate_steps rejects an "
        "undeclared / disabled-model key at any position and accepts every admitted key, the enabled flag included "
        "(C08-enabled-sweep repaired; accepting non-settings is still open and refuted by a proved witness); whatever "
        "exists under a key without being an assignable setting (a method or constant of the object's class, e.g. an "
        "undeclared argument called like a Mapping method, a read-only property, an object) is refused by set(); has() "
        "confirms only keys whose whole path can be read (C08-has-none repaired); the two readers of a model's enabled "
        "flag — validation of a sweep and the group iterator that executes models, both tests regenerated from the source — "
        "agree on every value the flag can hold, hence every model addressed by an accepted sweep is executed; eval_entry "
        "round trip for all integers, mantissa-e-exponent decimals, booleans, None and bare words. The model is tied to "
        "the code by a fail-closed translator (copy policy) and by evaluating it inside Coq against the real Processor on "
        "full before/after settings snapshots (all fields of the 4 detector types, every group/model/argument/flag, "
        "vars() of every object) for valid, misspelt, truncated and extended keys — on the processor itself and on copies "
        "derived through five real entry points, with source, sibling copy, later copy and object identities compared — "
        "against the real eval_entry on generated texts and the real Observation.validate_steps, and by RUNNING sweeps "
        "(product, sequential, custom mode) whose models are recording probes: a refused key must stop the sweep before any "
        "model executes, an accepted sweep must deliver every swept value to the model it addresses (enabled flags holding "
        "non-bool values, arriving by configuration, Processor.set or override text, included); the implementation's "
        "observations are judged inside Coq against the specification. That the implementation behaves like the model is "
        "established by this correspondence, i.e. by testing."),
    level_note=(
        "Trusted: Coq kernel + vm_compute; translator/c08.py (+ the recognisers of translator/c06.py and c12.py); the correspondence "
        "harness and driver (introspection of the objects into the settings tree); "
        "Python attribute-lookup semantics and copy.deepcopy as modelled. Assumes public key components (no private "
        "aliases, no list indices), scalar leaves without attributes, the APD coupled triple not compared, the literal "
        "subset stated in the evidence. Quoted strings, lists and tuples of literals are covered by correspondence only."),
    technique="Coq proof over a settings-tree model + copy-policy translator + in-Coq correspondence/spec evaluation against "
              "Processor (and derived processors), eval_entry, validate_steps",
    design_ref="DESIGN.md section 6, C08",
)
